#!/bin/sh
# Builds the Lean models/proofs and the Rust harness from files on disk only (offline).
set -e
cd "$(dirname "$0")"
exec python3 check.py --setup

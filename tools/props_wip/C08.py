PROP = {
    "modules": ["Discv5Model.Props.C08"],
    "lemma_modules": [],
    "engines": [{"name": "kbucket", "quick": 160, "thorough": 6000}],
    "rule": "",
    "nontrivial": [("kbucket", "kb.ops-with-full-bucket")],
    "engine": "kbucket",
    "design_ref": "DESIGN.md section 5 / C08",
    "technique": "Lean 4 invariant proofs over an executable model of KBucketsTable + differential correspondence run",
    "level_text": "TODO",
    "level_note": "TODO",
}

PROP = {
    "modules": ["Discv5Model.Props.wip.C14"],
    "lemma_modules": [],
    "engines": [{"name": "service", "quick": 150, "thorough": 5000}],
    "rule": "service engine, profile C14: one Service whose table is mined to hold 6..40 records at distances 251..256 "
            "with encoded sizes from ~134 up to the 300-byte limit (own record padded too), max_nodes_response in "
            "{1,3,16,40,125}; FINDNODE requests with distance lists empty / [0] / duplicates / unsorted / out of range / "
            "60 entries, request ids of 0..8 bytes, requester in the table or not; PINGs from zero and non-zero ports, "
            "v4/v6 sources. Every NODES answer is encoded with the real codec and measured as a message packet. "
            "non-trivial = a FINDNODE answered with records, or a multi-packet answer",
    "nontrivial": [("service", "s.c14.nonempty-answers"), ("service", "s.c14.ping-served")],
    "trusted_base": ["AES-GCM adds a 16-byte tag and no padding; message packet overhead 16+23+32 (C05)"],
    "assumptions": [],
    "engine": "service",
    "design_ref": "DESIGN.md section 5 / C14",
    "technique": "Lean 4 theorems over an executable model of send_nodes_response / the PING arm + RLP length arithmetic + differential correspondence run",
    "level_text": "TODO (wip)",
    "level_note": "TODO",
}

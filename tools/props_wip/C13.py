PROP = {
    "modules": ["Discv5Model.Model.Handler"],
    "lemma_modules": [],
    "engines": [{"name": "handler", "quick": 60, "thorough": 2000}],
    "rule": "",
    "nontrivial": [("handler", "h.established")],
    "engine": "handler",
    "design_ref": "DESIGN.md section 5 / C13",
    "technique": "wip", "level_text": "wip", "level_note": "wip",
}

#!/bin/sh
# tools/mutcheck.sh PROP I [CHECKPROPS...]: run the registered checks against a scratch worktree carrying
# the seeded change ${SEED_PREFIX:-/tmp/seed}-PROP-out/patchI.diff (no suite / demo run; see seedtest.sh)
P=$1; I=$2; shift 2; CHECKS=${*:-$P}
OUT=${SEED_PREFIX:-/tmp/seed}-$P-out; WT=/tmp/mt-$P-$I
git -C /repo worktree add -q --detach $WT HEAD || exit 2
( cd $WT && git apply $OUT/patch$I.diff ) || { echo "PATCH-DOES-NOT-APPLY"; git -C /repo worktree remove --force $WT; exit 2; }
cd /verif
for C in $CHECKS; do echo "== check $C:"; VERIF_REPO=$WT python3 check.py $C 2>&1 | tail -3 | cut -c1-300; done
git -C /repo worktree remove --force $WT

#!/bin/sh
# tools/seedtest.sh PROP I [CHECKPROPS...]: evaluate seeded change /tmp/seed-PROP-out/patchI.diff
#  1. existing suite still passes with the change   2. (integration-test demos) demo fails with / passes without
#  3. run the registered checks (default: PROP) against a scratch worktree with the change
P=$1; I=$2; shift 2; CHECKS=${*:-$P}
OUT=${SEED_PREFIX:-/tmp/seed}-$P-out; WT=/tmp/st-$P-$I
git -C /repo worktree add -q --detach $WT HEAD || exit 2
cd $WT && git apply $OUT/patch$I.diff || { echo "PATCH-DOES-NOT-APPLY"; git -C /repo worktree remove --force $WT; exit 2; }
echo "== suite with change:"; CARGO_TARGET_DIR=/tmp/st-target-$P cargo test --offline --lib 2>&1 | grep "test result" 
if grep -q "cfg(feature = \"verif-hooks\")\|^use discv5::" $OUT/demo$I.rs 2>/dev/null; then
  mkdir -p tests && cp $OUT/demo$I.rs tests/seed_demo.rs
  echo "== demo with change:"; CARGO_TARGET_DIR=/tmp/st-target-$P cargo test --offline --features verif-hooks --test seed_demo 2>&1 | grep "test result\|panicked" | head -3
  # (no `git stash`: the stash is shared by all worktrees of a repository)
  git apply -R $OUT/patch$I.diff; echo "== demo without change:"; CARGO_TARGET_DIR=/tmp/st-target-$P cargo test --offline --features verif-hooks --test seed_demo 2>&1 | grep "test result" | head -2; git apply $OUT/patch$I.diff
  rm -f tests/seed_demo.rs
else echo "== demo: in-crate module test (see meta$I.txt)"; fi
cd /verif
for C in $CHECKS; do echo "== check $C:"; VERIF_REPO=$WT python3 check.py $C 2>&1 | tail -3 | cut -c1-300; done
git -C /repo worktree remove --force $WT

"""Registry: property id -> Lean modules, engines (cases per tier), evidence texts.
Each property has its own file tools/props/Cxx.py defining PROP = {...}."""
import glob
import os

PROPS = {}
for _f in sorted(glob.glob(os.path.join(os.path.dirname(os.path.abspath(__file__)), "props", "C*.py"))):
    _ns = {}
    with open(_f) as _h:
        exec(compile(_h.read(), _f, "exec"), _ns)
    PROPS[os.path.basename(_f)[:-3]] = _ns["PROP"]

"""Registry: property id -> Lean modules, engines (cases per tier), evidence texts.
Each property has its own file tools/props/Cxx.py defining PROP = {...}."""
import glob
import os

PROPS = {}
_dirs = ["props"] + (["props_wip"] if os.environ.get("VERIF_WIP") == "1" else [])
for _f in sorted(sum((glob.glob(os.path.join(os.path.dirname(os.path.abspath(__file__)), _d, "C*.py")) for _d in _dirs), [])):
    _ns = {}
    with open(_f) as _h:
        exec(compile(_h.read(), _f, "exec"), _ns)
    PROPS[os.path.basename(_f)[:-3]] = _ns["PROP"]

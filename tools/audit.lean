/-
Axiom audit: `lake env lean --run tools/audit.lean Discv5Model.Props.C05 [more modules…]`
prints one JSON line per theorem declared in the given modules:
  {"module":…, "theorem":…, "axioms":[…]}
Only `propext`, `Classical.choice`, `Quot.sound` are acceptable (checked by check.py).
-/
import Lean
open Lean

def isInternal (n : Name) : Bool :=
  n.isInternal || n.components.any fun c => (c.toString.startsWith "_") || c.toString == "match_1"

unsafe def main (args : List String) : IO UInt32 := do
  initSearchPath (← findSysroot)
  let mods := args.map (·.toName)
  let env ← importModules (mods.toArray.map fun m => { module := m }) {}
  for m in mods do
    let some idx := env.getModuleIdx? m | do
      IO.eprintln s!"module not found: {m}"
      return 1
    let names := env.header.moduleData[idx.toNat]!.constNames
    for n in names do
      if isInternal n then continue
      match env.find? n with
      | some (.thmInfo _) =>
        let (axs, _) ← (Lean.collectAxioms n : CoreM _).toIO
          { fileName := "<audit>", fileMap := default } { env := env }
        let axl := axs.toList.map (fun a => "\"" ++ a.toString ++ "\"")
        IO.println s!"\{\"module\":\"{m}\",\"theorem\":\"{n}\",\"axioms\":[{", ".intercalate axl}]}"
      | _ => pure ()
  return 0

#!/usr/bin/env python3
"""Regenerates MANIFEST.json from tools/props/*.py and properties.jsonl."""
import json
import os
import subprocess
import sys

ROOT = os.path.dirname(os.path.dirname(os.path.abspath(__file__)))
sys.path.insert(0, os.path.join(ROOT, "tools"))
from registry import PROPS  # noqa: E402

props = [json.loads(l) for l in open(os.path.join(ROOT, "properties.jsonl"))]
na_path = os.path.join(ROOT, "tools", "not_applicable.json")
na = json.load(open(na_path)) if os.path.exists(na_path) else {}
hooks = subprocess.run(["git", "-C", "/repo", "log", "--format=%H %s"], capture_output=True, text=True).stdout
hook_commits = [l.split(" ", 1)[0] for l in hooks.splitlines() if l.split(" ", 1)[1].startswith("verif-hooks")]
engines = {}
checks = []
for pid in sorted(PROPS):
    s = PROPS[pid]
    for e in s["engines"]:
        engines.setdefault(e["name"], []).append(pid)
    checks.append({
        "property_id": pid,
        "quick_cmd": "python3 check.py %s --tier quick" % pid,
        "thorough_cmd": "python3 check.py %s --tier thorough" % pid,
        "evidence_file": "/verif/evidence/%s.json" % pid,
        "replay_cmd_template": "python3 check.py %s --replay {path}" % pid,
        "engine": s.get("engine", s["engines"][0]["name"]),
        "level_claimed": {"category": "proof", "text": s["level_text"], "design_ref": s.get("design_ref", "DESIGN.md section 5")},
        "level_note": s["level_note"],
        "technique": s["technique"],
    })
m = {
    "version": 1,
    "setup_cmd": "./setup.sh",
    "hooks": {
        "guard": "verif-hooks",
        "enable": "cargo feature: the harness crate depends on discv5 = { path = \"/repo\", features = [\"verif-hooks\"] }",
        "baseline_off_cmd": "cd /repo && cargo test --workspace --no-fail-fast --offline",
        "source_commits": hook_commits,
        "add_only": True,
    },
    "engines": [{"name": k, "path": "harness/src/eng_%s.rs + lean/Driver" % k, "serves_properties": v,
                 "kind_free_text": "Rust op interpreter/generator over the real code + compiled Lean model driver"} for k, v in sorted(engines.items())],
    "checks": checks,
    "notes": "Every check: regenerate constants from /repo/src, lake build the property theorems, audit axioms, rebuild the harness against /repo's working tree (feature verif-hooks), run corpus + seeded generator, diff implementation vs Lean model, evaluate implementation-side monitors. See DESIGN.md.",
    "not_applicable": [{"property_id": p["id"], "reason": na.get(p["id"], "check under construction (see DESIGN.md section 8 for build order); not yet claimed")}
                       for p in props if p["id"] not in PROPS],
}
json.dump(m, open(os.path.join(ROOT, "MANIFEST.json"), "w"), indent=1)
print("claimed:", sorted(PROPS))

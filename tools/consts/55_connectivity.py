# (lean name, file, regex with ONE group holding an arithmetic expression over ints / known names)
# service/connectivity_state.rs: the back-off after a failed connectivity test (seconds), the number
# of incoming sessions that make the node contactable, and the default listen duration (config.rs).
SPECS = [
    ("CONN_RETRY_SECS", "src/service/connectivity_state.rs",
     r"pub const DURATION_UNTIL_NEXT_CONNECTIVITY_ATTEMPT: Duration = Duration::from_secs\((\d+)\);"),
    ("CONN_INCOMING_REQUIRED", "src/service/connectivity_state.rs",
     r"const NUMBER_OF_INCOMING_CONNECTIONS_REQUIRED_TO_BE_VALID: usize = (\d+);"),
    ("AUTO_NAT_LISTEN_DEFAULT_SECS", "src/config.rs",
     r"auto_nat_listen_duration: Some\(Duration::from_secs\((\d+)\)\)"),
]

SPECS = [
    ("MAX_NODES_PER_BUCKET", "src/kbucket/bucket.rs", r"pub const MAX_NODES_PER_BUCKET: usize = ([^;]+);"),
    ("NUM_BUCKETS", "src/kbucket.rs", r"const NUM_BUCKETS: usize = ([^;]+);"),
    ("MAX_NODES_PER_SUBNET_TABLE", "src/kbucket/filter.rs", r"const MAX_NODES_PER_SUBNET_TABLE: usize = ([^;]+);"),
    ("MAX_NODES_PER_SUBNET_BUCKET", "src/kbucket/filter.rs", r"const MAX_NODES_PER_SUBNET_BUCKET: usize = ([^;]+);"),
]

# (lean name, file, regex with ONE group holding an arithmetic expression over ints / known names)
SPECS = [
    # --- packet/mod.rs
    ("IV_LENGTH", "src/packet/mod.rs", r"const IV_LENGTH: usize = ([^;]+);"),
    ("STATIC_HEADER_LENGTH", "src/packet/mod.rs", r"const STATIC_HEADER_LENGTH: usize = ([^;]+);"),
    ("MESSAGE_NONCE_LENGTH", "src/packet/mod.rs", r"const MESSAGE_NONCE_LENGTH: usize = ([^;]+);"),
    ("ID_NONCE_LENGTH", "src/packet/mod.rs", r"const ID_NONCE_LENGTH: usize = ([^;]+);"),
    ("MAX_PACKET_SIZE", "src/packet/mod.rs", r"const MAX_PACKET_SIZE: usize = ([^;]+);"),
    ("MIN_PACKET_SIZE", "src/packet/mod.rs", r"const MIN_PACKET_SIZE: usize = ([^;]+);"),
]

# service engine (service.rs, config.rs): constants of the NODES accounting / response splitting
SPECS = [
    ("DISTANCES_TO_REQUEST_PER_PEER", "src/service.rs",
     r"pub\(crate\) const DISTANCES_TO_REQUEST_PER_PEER: usize = ([^;]+);"),
    ("MAX_NODES_RESPONSES", "src/service.rs",
     r"pub\(crate\) const MAX_NODES_RESPONSES: usize =\s*([^;]+);"),
    # the margin of `if entry_size + total_size < MAX_PACKET_SIZE - 104` in send_nodes_response
    ("NODES_SPLIT_MARGIN", "src/service.rs", r"entry_size \+ total_size < MAX_PACKET_SIZE - (\d+)"),
    ("DEFAULT_MAX_NODES_RESPONSE", "src/config.rs", r"max_nodes_response: (\d+),"),
    # the distance list of an ENR-update request (`vec![0]` in the PING arm of handle_rpc_request)
    ("ENR_REQUEST_DISTANCE", "src/service.rs",
     r"self\.request_find_node_designated_peer\(contact, vec!\[(\d+)\], None\);"),
]

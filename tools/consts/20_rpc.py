# (lean name, file, regex with ONE group holding an arithmetic expression over ints / known names)
SPECS = [
    # --- rpc.rs: literal guards of RequestId::decode / Message::decode and the msg_type numbers
    ("RPC_MAX_ID_LEN", "src/rpc.rs",
     r"pub fn decode\(data: Vec<u8>\) -> Result<Self, DecoderError> \{\s*if data\.len\(\) > (\d+) \{"),
    ("RPC_MIN_LEN", "src/rpc.rs",
     r"pub fn decode\(data: &\[u8\]\) -> Result<Self, DecoderError> \{\s*if data\.len\(\) < (\d+) \{"),
    ("RPC_MAX_DISTANCE", "src/rpc.rs", r"if distance > &(\d+)u64 \{"),
    ("RPC_IP4_LEN", "src/rpc.rs", r"match ip_bytes\.len\(\) \{\s*(\d+) => \{\s*let mut ip = \[0u8; 4\];"),
    ("RPC_IP6_LEN", "src/rpc.rs", r"(\d+) => \{\s*let mut ip = \[0u8; 16\];"),
    ("RPC_TYPE_PING", "src/rpc.rs", r"RequestBody::Ping \{ \.\. \} => (\d+),"),
    ("RPC_TYPE_FINDNODE", "src/rpc.rs", r"RequestBody::FindNode \{ \.\. \} => (\d+),"),
    ("RPC_TYPE_TALKREQ", "src/rpc.rs", r"RequestBody::Talk \{ \.\. \} => (\d+),"),
    ("RPC_TYPE_PONG", "src/rpc.rs", r"ResponseBody::Pong \{ \.\. \} => (\d+),"),
    ("RPC_TYPE_NODES", "src/rpc.rs", r"ResponseBody::Nodes \{ \.\. \} => (\d+),"),
    ("RPC_TYPE_TALKRESP", "src/rpc.rs", r"ResponseBody::Talk \{ \.\. \} => (\d+),"),
]

# (lean name, file, regex with ONE group holding an arithmetic expression over ints / known names)
# service/ip_vote.rs: the clear-majority margin is an f64 literal.  The extractor only evaluates
# integer expressions, so the literal is taken apart: it must have the shape `0.d` (one decimal
# digit, i.e. d/10) -> CLEAR_MAJORITY_TENTHS = d.  The threshold expression must be written exactly
# as `((max_count as f64) * (1.0 - CLEAR_MAJORITY_PERCENTAGE)).round() as usize`; the integer part
# of its minuend is extracted as THR_MINUEND.  The comparison that uses the threshold and the
# minimum test are located as written (the captured digit of each is the literal 0 that follows
# `let mut max_count = ` / `second_max_count = `; their presence ties the shape of the loop).
# Any other shape is reported as a broken tie (no default).
SPECS = [
    ("CLEAR_MAJORITY_TENTHS", "src/service/ip_vote.rs",
     r"const CLEAR_MAJORITY_PERCENTAGE: f64 = 0\.(\d);"),
    ("THR_MINUEND", "src/service/ip_vote.rs",
     r"let threshold =\s*\(\(max_count as f64\) \* \((\d+)\.0 - CLEAR_MAJORITY_PERCENTAGE\)\)\.round\(\) as usize;"),
]

# (lean name, file, regex with ONE group holding an arithmetic expression over ints / known names)
SPECS = [
    # --- socket/filter/mod.rs
    ("KNOWN_ADDRS_SIZE", "src/socket/filter/mod.rs", r"const KNOWN_ADDRS_SIZE: usize = ([^;]+);"),
    ("BANNED_NODES_SIZE", "src/socket/filter/mod.rs", r"const BANNED_NODES_SIZE: usize = ([^;]+);"),
    ("DEFAULT_PACKETS_PER_SECOND", "src/socket/filter/mod.rs", r"const DEFAULT_PACKETS_PER_SECOND: usize = ([^;]+);"),
    # the first ban of an IP's node starts the per-IP ban counter at this value
    ("BANNED_NODES_FIRST_COUNT", "src/socket/filter/mod.rs", r"self\.banned_nodes\.insert\(ip, (\d+)\);"),
    # one request costs this many tokens (`RateLimiter::allows`)
    ("TOKENS_PER_REQUEST", "src/socket/filter/rate_limiter.rs", r"let tokens = (\d+);"),
    # --- handler/mod.rs: period of the ban-expiry sweep (seconds)
    ("BANNED_NODES_CHECK", "src/handler/mod.rs", r"const BANNED_NODES_CHECK: u64 = ([^;]+);"),
]

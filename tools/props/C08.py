PROP = {
    "modules": ["Discv5Model.Props.C08"],
    "lemma_modules": ["Discv5Model.Proofs.ClosestLemmas", "Discv5Model.Proofs.KBucketLemmas"],
    "engines": [{"name": "kbucket", "quick": 160, "thorough": 6000}],
    "rule": "kbucket engine (see C07) with closest / closest-predicate / by-distance lookups interleaved: targets = the local "
            "id, stored ids, ids at every log2 distance, distances with the lowest bits set, low-index buckets occupied; "
            "compared: the full yielded key sequence (and match flags); monitor: equals the sorted iter_ref scan. "
            "non-trivial = closest lookup on a non-empty table",
    "nontrivial": [("kbucket", "kclosest.nonempty")],
    "engine": "kbucket",
    "design_ref": "DESIGN.md section 5 / C08",
    "technique": "Lean 4 theorems (bucket order is a permutation of 0..255 for every distance; XOR-ordering lemma; closest = sorted full scan; by-distance exactness) on an executable transliteration of ClosestBucketsIter/ClosestIter/nodes_by_distances + differential correspondence run",
    "level_text": "Proof: for every distance < 2^256 the ClosestBucketsIter state machine visits each of the 256 buckets exactly once (bucketOrder_perm); for every table satisfying the C07 invariant, every local id and target, closest yields every stored node exactly once in strictly increasing XOR distance, i.e. exactly the sorted full scan (closest_sorted, closest_complete, closest_eq_sorted_scan), the predicate variant yields the same sequence with correct flags, and nodes_by_distances returns exactly the nodes at the (distinct) requested distances in 1..256 up to the cap. Tied to /repo by the kbucket differential run (full yielded sequences compared) and a sorted-scan monitor on the implementation.",
    "level_note": "Trusted: Lean kernel, extract.py, harness/driver. The tie model<->code is a sampled differential check. U256 arithmetic is modelled by unbounded Nat with the hypothesis ids < 2^256.",
}

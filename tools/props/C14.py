PROP = {
    "modules": ["Discv5Model.Props.C14"],
    "lemma_modules": ["Discv5Model.Proofs.ServiceServe"],
    "engines": [{"name": "service", "quick": 150, "thorough": 15000}],
    "rule": "service engine, profile C14: one Service whose table is mined to hold 6..40 records at distances 251..256 "
            "with encoded sizes from ~134 up to the 300-byte limit (own record padded too), max_nodes_response in "
            "{1,3,16,40,125}; FINDNODE requests with distance lists empty / [0] / duplicates / unsorted / out of range / "
            "60 entries, request ids of 0..8 bytes, requester in the table or not; PINGs from zero and non-zero ports, "
            "v4/v6 sources. Every NODES answer is encoded with the real codec and measured as a message packet. "
            "non-trivial = a FINDNODE answered with records, or a multi-packet answer",
    "nontrivial": [("service", "s.c14.nonempty-answers"), ("service", "s.c14.ping-served")],
    "trusted_base": ["AES-GCM adds a 16-byte tag and no padding; message packet overhead 16+23+32 (C05)"],
    "assumptions": [],
    "engine": "service",
    "design_ref": "DESIGN.md section 5 / C14",
    "technique": "Lean 4 theorems over an executable model of send_nodes_response / the PING arm + RLP length arithmetic + differential correspondence run",
    "level_text": "Proof: the records served are the own record iff distance 0 was requested followed by the table entries at the sorted, de-duplicated non-zero requested distances (nodes_by_distances, tied to C08's exactness theorem), never the requester's record, at most max+1 (served_records, served_count, requester_absent); the split puts records into packets whose sizes sum to < 1280-104, all with the request id and total = number of packets (split_sound, split_framing, answered); with every record (stored or pending) <= 300 bytes every packet encodes to <= 1280 bytes on the wire, worst case 1279 (fits_datagram, served_fits_datagram); a PING from a non-zero port gets exactly one PONG with the local seq and the observed ip/port (pong_exact). Tied to /repo by the service differential run with records padded to 300 bytes, distance lists empty/duplicate/unsorted/out of range, and size/id/total/source monitors on the real encodings.",
    "level_note": "Trusted: Lean kernel, extract.py, harness/driver. The tie model<->code is a sampled differential check of the real Service behind a scripted handler (Discv5::start_scripted); each NODES response is additionally encoded with the real codec and measured. Records are abstract (id, seq, sockets, size <= 300 as the enr crate enforces); fits_datagram assumes request id <= 8 bytes and max_nodes_response <= 125 (one-byte total).",
}
PROP['rule'] += " One requester in four is on the permit list and on the ban list at once (the permit list takes precedence in the packet filter): its requests are owed their answers like anybody's."

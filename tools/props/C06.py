PROP = {
        "modules": ["Discv5Model.Props.C06"],
        "lemma_modules": ["Discv5Model.Proofs.RpcLemmas", "Discv5Model.Proofs.RlpLemmas", "Discv5Model.Proofs.BytesLemmas"],
        "engines": [{"name": "rpc", "quick": 1500, "thorough": 40000}],
        "rule": "rpc engine: each case = 5 structured message values of the six types at boundary values (id 0/1/8/9 bytes, "
                "seq/total 0/127/128/2^64-1, distances 0/255/256/257, ports 1/65535, IPv4, IPv6 incl. mapped/compatible/::1/"
                "near misses, 0..8 real signed records, payloads up to 64 KiB) each encoded by the implementation (renc) and its "
                "independent reference encoding decoded (rdec) and byte-mutated (truncate/extend/length bytes/long-form headers/"
                "bit flips/type byte) + 5 hand-built wire messages (zero port, IP lengths 0/3/4/5/15/16/17, leading zeros, "
                "0x81-wrapped single bytes, long-form short strings, overflow, record corruption/truncation/nesting/oversize, "
                "missing/extra fields) + 2 raw byte strings; non-trivial = round trip checked on an encode, or a decode that "
                "was accepted or rejected behind the outer list header",
        "nontrivial": [("rpc", "renc.roundtrip-ok"), ("rpc", "renc.rejected-as-required"),
                       ("rpc", "rdec.ok.ping"), ("rpc", "rdec.ok.pong"), ("rpc", "rdec.ok.findnode"),
                       ("rpc", "rdec.ok.nodes"), ("rpc", "rdec.ok.talkreq"), ("rpc", "rdec.ok.talkresp"),
                       ("rpc", "rdec.err.id-length"), ("rpc", "rdec.err.distance"), ("rpc", "rdec.err.zero-port"),
                       ("rpc", "rdec.err.ip-length"), ("rpc", "rdec.err.enr"), ("rpc", "rdec.err.not-empty"),
                       ("rpc", "rdec.err.leading-zero"), ("rpc", "rdec.err.non-canonical-byte"),
                       ("rpc", "rdec.err.non-canonical-size"), ("rpc", "rdec.err.overflow"),
                       ("rpc", "rdec.err.unexpected-list"), ("rpc", "rdec.err.unexpected-string"),
                       ("rpc", "rdec.err.header")],
        "trusted_base": ["node-record validity and re-encoding decided by the enr crate (abstract recDec in the model; the harness "
                         "passes the real decoder's answers for the record items of every NODES input)",
                         "alloy-rlp 0.3.x is modelled by hand (Model/Rlp.lean) from the vendored source; tied to the crate only by "
                         "the differential run (canonical-form mutations included), not by regenerated constants"],
        "assumptions": ["record decoder abstract; decode_never_panics assumes a decoded record re-encodes to 1..=|item| bytes "
                        "(monitored on every run: !MON record-size-exceeds-item)",
                        "usize is 64 bits; in-memory sizes below 2^64",
                        "Rust slices / Buf::advance modelled as checked slices: a panic is a distinguished result; "
                        "while-loops run on fuel = payload length, running out of fuel is a panic result"],
        "engine": "rpc",
    "design_ref": "DESIGN.md section 5 / C06",
    "technique": "Lean 4 theorems (round trip for all six message types, wire layout, never-panics, one rejection theorem per clause in "
                 "both accepted-value and encoded-input form) over an executable model of Message::encode/decode and of the alloy-rlp "
                 "primitives + differential correspondence run against the real codec with independent strictness monitors",
    "level_text": "Proof: decode(encode m) = m for every well-formed PING/PONG/FINDNODE/NODES/TALKREQ/TALKRESP, the RLP wire layout, "
                  "never-panics for every byte string, and every rejection clause (trailing / missing bytes, id > 8 bytes, distance > 256, "
                  "zero port, IP length, invalid record) are Lean theorems about the model for all inputs and every record decoder; the "
                  "model is tied to /repo by regenerated constants (id limit, distance cap, IP lengths, minimum length, type numbers) and "
                  "by a differential run (structured + mutated + random byte strings) against Message::encode/decode on every check.",
    "level_note": "Trusted: Lean kernel, extract.py, harness/driver; ENR validity is an abstract parameter of the theorems (supplied by "
                  "the enr crate in the correspondence run); the alloy-rlp model is hand-written. The tie model<->code is a sampled "
                  "differential check, not a proof. Not claimed: decode b = ok m -> encode m = b (the code folds IPv4-mapped IPv6 and "
                  "accepts NODES records that follow a shorter inner list header).",
}

PROP = {
    "modules": ["Discv5Model.Props.C16"],
    "lemma_modules": ["Discv5Model.Proofs.IpFilterLemmas", "Discv5Model.Proofs.IpFilterFold", "Discv5Model.Proofs.IpFilterStep",
                      "Discv5Model.Proofs.IpFilterOps", "Discv5Model.Proofs.IpFilterTable", "Discv5Model.Proofs.IpFilterBucket",
                      "Discv5Model.Proofs.IpFilterShapes", "Discv5Model.Proofs.KBucketLemmas"],
    "engines": [{"name": "kbucket", "quick": 160, "thorough": 6000}, {"name": "service", "quick": 60, "thorough": 3000, "model": False}],
    "rule": "kbucket engine, C16 profile: IP table+bucket filters on, records from 2-3 /24 subnets (hot buckets mostly "
            "records without IPv4 so they can fill; 16 spread buckets mostly one /24 to saturate the table limit), record "
            "updates that move a node between subnets, pending candidates with all three timeout regimes, plus a "
            "directed prefix (pending candidate of a /24, then more inserts of that /24 elsewhere, then promotion). "
            "Monitor after every op: per-bucket and per-table (stored + pending) counts per /24. "
            "non-trivial = op refused by a filter or executed with a pending node present",
    "rule_service": "service engine (monitors only, no model comparison: the service model has no IP filter): a real Service configured with ip_limit; peers of one /24 spread over seven buckets arrive through sessions, explicit adds, lookup answers and record updates announced by PING and fetched with FINDNODE[0]; after every op at most 2 nodes per bucket and 10 per table (pending included) share a /24",
    "nontrivial": [("kbucket", "kins.failed.bucket-filter"), ("kbucket", "kins.failed.table-filter"), ("kbucket", "kb.ops-with-pending")],
    "engine": "kbucket",
    "design_ref": "DESIGN.md section 5 / C16",
    "technique": "Lean 4 invariant proof (per-bucket <= 2, per-table incl. pending <= 10 per /24, induction over all operation sequences) on the executable table model with the transliterated ip_filter + differential correspondence run with subnet-count monitors",
    "level_text": "Proof: ipFilter refuses exactly when `limit` other records share the /24 (ipFilter_spec), records without IPv4 are never refused, and with the IP filters configured every table operation (insert_or_update, update_node, update_node_status, remove, entry, iter, closest, nodes_by_distances incl. pending promotion at any `now`) preserves at most 2 nodes per /24 per bucket and at most 10 per table with pending nodes counted (step_ipInv, reachable_ipInv), for records filed under their own node id. Tied to /repo by regenerated limits (2, 10) and the kbucket differential run with IP filters enabled, subnet counts recomputed on the implementation after every op.",
    "level_note": "Trusted: Lean kernel, extract.py, harness/driver. The tie model<->code is a sampled differential check. ENRs are abstracted to (content id, /24 of ip4); hypothesis: a record is always filed under the node id it contains (what service.rs and discv5.rs do). Entry::value_mut / AbsentEntry::insert bypasses are excluded.",
}

PROP = {
        "modules": ["Discv5Model.Props.C18"],
        "lemma_modules": ["Discv5Model.Proofs.LimiterLemmas"],
        "engines": [{"name": "limiter", "quick": 1000, "thorough": 50000}, {"name": "handler", "quick": 32, "thorough": 2000, "profile": "C13", "model": False}, {"name": "service", "quick": 4, "thorough": 40, "model": False, "profile": "C18boot"}],
        "rule": "limiter engine: 70% limiter cases = one Limiter<u64> from a quota (burst 1..100, periods from 7 ns to 60 s, "
                "exact / rounded / t = 0 / refused quotas) driven through the facade with explicit times by 80..110 arrivals over "
                "1..4 keys in runs of patterns (burst, exactly at the rate, one ns faster / slower, random, exactly at / one ns before "
                "the earliest admissible time), token counts 1 (90%), 0, 2, n, n+1, huge, prune calls after about every 8th arrival "
                "(at the current time or after an idle period), 20% of them 'wild' (times at 2^62 / 2^63 / 2^64 and beyond, "
                "non-monotone times, prune limits in the future, wrapping token products); 20% filter cases = a real Filter with "
                "never-hit / always-hit / absent quotas per kind, all permit / ban combinations (permanent, 5 ms, 1 h), nodes-per-IP "
                "and bans-per-IP limits, prune_limiter and the real ban sweep after a 15 ms sleep; 10% receive-path cases = datagrams "
                "(garbage, WHOAREYOU, message) through the real RecvHandler::handle_inbound with and without expected-response "
                "exemption. Non-trivial = arrivals judged under the theorem hypotheses (monitored), refusals, prune calls that "
                "removed entries, excesses that must ban, banned / permitted / exempt datagrams, sweeps that unbanned"
                " handler engine (monitors only, C13 profile): the filter is by-passed for an address exactly while the handler "
                "holds an exemption for it, so an exemption left behind once nothing is outstanding is a hole in every quota and ban "
                "for that address (monitor address-exempt-from-the-filter-with-nothing-outstanding at quiescence)",
        "nontrivial": [("limiter", "la.soon"), ("limiter", "la.large"), ("limiter", "lp.removed"),
                       ("limiter", "lf.ip.excess"), ("limiter", "lf.node.excess"), ("limiter", "lf.total.excess"),
                       ("limiter", "lf.ip.banned"), ("limiter", "lf.node.banned"), ("limiter", "lf.ip.permitted"),
                       ("limiter", "lf.node.permitted"), ("limiter", "lfs.unbanned"), ("limiter", "lrin.exempt"),
                       ("limiter", "lrin.banned"), ("limiter", "lrin.permitted")],
        "trusted_base": ["std::time::Instant / init_time.elapsed() replaced by one explicit `now` in ns; the filter scenarios use "
                         "quotas that are never or always hit and sweeps that directly follow a sleep outlasting every short ban, "
                         "so no decision depends on wall-clock jitter",
                         "hashlink::LruCache (known_addrs, banned_nodes) modelled as a list, least recently used first "
                         "(get_mut = to_back, insert evicts the front when over capacity; read from hashlink 0.11)",
                         "the facade compiles rate_limiter.rs (include!) and filter/mod.rs (#[path]) a second time to reach their "
                         "private items; the receive path and the ban sweep run on the crate's own RecvHandler / Handler"],
        "assumptions": ["times along a history never decrease and stay far from u64 overflow: now + 2*tau < 2^64 and t*tokens < 2^64 "
                        "(with tau < 2^62: all times < 2^63 ns, about 292 years); outside of this the model still mirrors the "
                        "wrapping release-mode arithmetic and is compared, but the theorems do not speak",
                        "window bound in the code's units: tokens*t <= W + tau with t = floor(period/max_tokens); for quotas that "
                        "divide evenly this is burst + rate*W exactly (window_bound_quota), otherwise the effective rate exceeds "
                        "the configured one by the rounding (window_bound_rounded)",
                        "ReceivedPacketCache only feeds metrics (cache_insert's result is ignored) and is not modelled"],
        "engine": "limiter",
    "design_ref": "DESIGN.md section 5 / C18",
    "technique": "Lean 4 theorems (exact GCRA acceptance condition and TAT formula by induction over all histories, window bound, "
                 "conforming traffic never refused, prune transparency for Limiter and RateLimiter, permit / ban / excess-ban / "
                 "ban-lifetime / exemption theorems for the two-stage filter) over an executable model of rate_limiter.rs, "
                 "filter/mod.rs, the ban sweep and handle_inbound's short-cut + differential correspondence run with independent "
                 "window, shadow-limiter and ban-ledger monitors",
    "level_text": "Proof: for every history of allows/prune calls with non-decreasing times the model of Limiter holds "
                  "tat = max_i(a_i + S_i*t), accepts an arrival iff (S_i + k)*t <= (a - a_i) + tau for all accepted i (and k*t <= tau), "
                  "hence accepts at most (W + tau)/t tokens in any window W, never refuses traffic whose every window respects that, "
                  "and decides the same with or without prune calls; the filter model passes permitted IPs / node ids, drops banned "
                  "ones, bans on excess until now + ban_duration, keeps a ban until its expiry under every interleaving of filter "
                  "calls and sweeps, and skips both stages for exempt addresses. The model is tied to /repo by regenerated constants "
                  "and a differential run against the real Limiter (explicit time), Filter, RecvHandler and ban sweep on every check.",
    "level_note": "Trusted: Lean kernel, extract.py, harness/driver, hashlink's list semantics. RateLimiter::allows feeding "
                  "init_time.elapsed() into Limiter::allows is covered only by the coarse filter scenarios. The tie model<->code is "
                  "a sampled differential check, not a proof.",
}
PROP['rule'] += ' Timed quota cases (2 tokens per 60 ms for the per-node stage, datagrams a whole period apart, from a permitted address or an ordinary one): every such datagram must pass (theorem whole_period_idle_is_within_quota).'
PROP['rule'] += " Monitors-only profile C18boot (service engine): a node is constructed, bans and permits are made through its own API, it is started, shut down and started again: the entries are there after every one of these steps."

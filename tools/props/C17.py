PROP = {'modules': ['Discv5Model.Props.C17', 'Discv5Model.Props.C17Service', 'Discv5Model.Props.C17Connectivity', 'Discv5Model.Props.C17Family'],
 'lemma_modules': ['Discv5Model.Proofs.IpVoteLemmas', 'Discv5Model.Proofs.ConnectivityLemmas', 'Discv5Model.Proofs.IpVoteFamily'],
 'engines': [{'name': 'ipvote', 'quick': 1000, 'thorough': 30000},
             {'name': 'service', 'quick': 80, 'thorough': 1500},
             {'name': 'service', 'quick': 24, 'thorough': 300, 'model': False, 'profile': 'C17expiry'}, {'name': 'service', 'quick': 16, 'thorough': 200, 'model': False, 'profile': 'C17race'}],
 'rule': 'ipvote engine: each case = one IpVote (minimum 2..6) driven by a vote sequence (voter, address) with majority() compared after (almost) every '
         'insert: random walks over a small voter population and 2-5 IPv4 / 2-3 IPv6 addresses; leader with n votes (n = minimum, minimum+1, random <= 40, or '
         'one of the counts 45/85/165/175/... where binary64 differs from (7n+5)/10) against a rival walking over thr(n)-2..thr(n)+1 and voters changing their '
         'vote back and forth; minimum-1 liars voting repeatedly; dual-stack interleavings; three-way ties broken step by step; 1 in 40 cases in real time '
         '(vote duration 100 ms, clock steps 60 ms) for expiry. Always-run corpus case: threshold mirror vs real f64 for all n <= 10^6 and thresholds derived '
         'from majority() for n <= 400. non-trivial = a majority() call that returned an address, or returned none with an address at/over the minimum blocked '
         'by a rival, or one vote below the minimum',
 'nontrivial': [('ipvote', 'vmaj.some4'), ('ipvote', 'vmaj.some6'), ('ipvote', 'vmaj.none-competing'), ('ipvote', 'vmaj.none-one-below-minimum')],
 'trusted_base': ["record signing / size check / sequence overflow of set_udp_socket are the enr crate's (abstract setOk in the model)",
                  'std::time::Instant is monotone; the timed cases keep a 40 ms margin between model clock and real time (drift measured, case re-executed '
                  'when exceeded)'],
 'assumptions': ['hash-map iteration order abstract: theorems hold for every permutation at every call',
                 'the service-side step (pongStep: eligibility, dual-stack rule, record update, event) is proved in Lean and tied to the code by the '
                 'scripted-service engine; this engine ties IpVote itself',
                 'f64 threshold mirrored bit-exactly in integer arithmetic (thrF64); theorems stated for abstract thr with hypothesis thr n <= n, proved for '
                 'thrF64 for all n'],
 'engine': 'ipvote',
 'design_ref': 'DESIGN.md section 5 / C17',
 'technique': 'Lean 4 theorems (majority_spec, order independence, update_needs_majority, few_liars, seq_increases) over an executable model of IpVote and of '
              'handle_ip_vote_from_pong + differential correspondence run against the real IpVote with an independent recount monitor + Lean 4 model of the '
              'connectivity state composed with the service model (gate in front of the vote path, revocation timer), tied by the service engine',
 'level_text': 'Proof: for every vote sequence, minimum, clock and hash-map visiting order, majority() returns an address iff it has at least the minimum of '
               'unexpired latest votes and every rival is below the binary64 threshold round(count*(1.0-0.3)) (mirrored bit-exactly, shown <= count for all '
               'n); a PONG step changes the record only to such an address, with seq+1 and one SocketUpdated event; fewer voters than the minimum can never '
               'move it over any history. The model is tied to /repo by regenerated constants (0.3, the threshold expression) and a differential run against '
               'the real IpVote on every check. Also (Props/C17Connectivity.lean, Model/Connectivity.lean): the connectivity state composed with the service '
               "model - a PONG of a family whose votes are not admitted changes nothing; the record changes only in a due timer step (exactly that family's "
               'socket goes, seq + 1) or in a PONG that reaches the vote path while the family is admitted; after a failed connectivity test the family stays '
               'blocked for six hours whatever else happens; the wait for incoming sessions ends only by the timer or the second incoming session. The service '
               'driver executes this composition (sessions, PONGs, idle periods that let the timers run out). Props/C17Family.lean: a PONG changes the '
               "record's socket of the family it reports only; a family whose votes the connectivity state does not admit keeps its socket through every "
               'history of PONGs (with C17Connectivity: a revoked socket stays absent for the six hours of the back-off).',
 'level_note': 'Trusted: Lean kernel, extract.py, harness/driver; enr crate for signature/seq of the record (abstract success flag). The tie model<->code is a '
               'sampled differential check (plus thresholds derived from majority() for n<=400 and an f64 sweep to 10^6), not a proof. The service-side step '
               'is tied to the code by the scripted-service engine.'}
PROP['rule'] += ' Monitors-only profile C17race (service engine): the vote scenarios with a thread of the application writing a field of its own into the local record through Discv5::external_enr() while each PONG is processed; the field must never be undone and no two different records may share a sequence number.'

PROP = {
    "modules": ["Discv5Model.Props.C11", "Discv5Model.Props.C11Ban"],
    "lemma_modules": ["Discv5Model.Proofs.ServiceNodes", "Discv5Model.Proofs.ServiceBan"],
    "engines": [{"name": "service", "quick": 150, "thorough": 15000}],
    "rule": "service engine, profile C11: requester A and honest responder B (a second real Service in the same process, "
            "table mined to hold records at distances 249..256 from it, some padded to ~300 bytes so answers span several "
            "packets); lookups whose target is crafted to lie at log2 distance 0, 1, 2, 3..8, 9..245, 246..256 from B "
            "(so [0], [1,2,0], ... are requested), ENR-only requests triggered by PING/PONG with a higher seq; B's real "
            "answers fed back packet by packet (shonest), malicious answers in their place or for the other peers: "
            "off-distance records among valid ones, the requester's own record, duplicates, totals 0..2^64-1, 14-19 "
            "packets for one request, packets after completion, wrong source address, wrong response type, foreign / "
            "several records for a [0] request, failure after a partial answer. "
            "non-trivial = a NODES packet processed for an active lookup/ENR request, or an honest exchange",
    "nontrivial": [("service", "s.c11.nodes-packets"), ("service", "s.c11.honest-exchanges")],
    "trusted_base": ["record validity / node ids decided by the enr crate (abstract Rec in the model)"],
    "assumptions": ["queries are not modelled: which peers a lookup contacts and when it finishes are inputs of the model (taken from the run)",
                    "the scripted handler delivers one event at a time (tokio::select! is unbiased)"],
    "engine": "service",
    "design_ref": "DESIGN.md section 5 / C11",
    "technique": "Lean 4 theorems over an executable model of handle_rpc_response / send_nodes_response + differential correspondence run through the real Service with a scripted handler and a second real node as honest responder",
    "level_text": "Proof: acceptNodes keeps exactly the records whose log2 distance from the responder is requested (own record = distance 0) and bans iff something else was sent (accept_exact, off_distance_banned, enr_request_many_banned); for every target, requester, distance list, max_nodes_response and every responder table satisfying the C07 invariant with records filed under their own ids (stored and pending), every packet of sendNodesResponse is accepted in full and does not ban (honest_never_banned, also for the generated lists [d,d+1,d-1] and [0]); at most 15 packets are collected per request for any claimed total, and packets after completion are ignored (packets_bounded, after_completion_ignored, completion_removes). Tied to /repo by the service differential run with a second real service as honest responder, malicious answers, totals up to 2^64-1, and ban-list monitors."
                  ' Also (Props/C11Ban.lean): a ban is issued only by a NODES response to an active FINDNODE request, names exactly the node id and socket that response came from - never an address taken from a record - at most once per response, and exactly under the stated condition (ban_iff, ban_has_cause_at, silent_never_banned).',
    "level_note": "Trusted: Lean kernel, extract.py, harness/driver. The tie model<->code is a sampled differential check of the real Service behind a scripted handler (Discv5::start_scripted). Records are abstract (id, seq, sockets, size, filter verdict); record validity is the enr crate's. Queries are not modelled: which peers a lookup contacts is taken from the run (resolved scripts), the requested distance lists are compared with the model's requestDistances.",
}

PROP = {
    "modules": ["Discv5Model.Props.C12", "Discv5Model.Props.C12Handler", "Discv5Model.Props.C12Discovered"],
    "lemma_modules": ["Discv5Model.Proofs.ServicePolicy", "Discv5Model.Proofs.ServiceVals", "Discv5Model.Proofs.ServiceDiscovered"],
    "engines": [{"name": "service", "quick": 150, "thorough": 15000}, {"name": "handler", "quick": 40, "thorough": 800}],
    "rule": "service engine, profile C12: one Service (IPv4 / IPv6 / dual stack, accept-all or rejecting table filter, "
            "incoming limit 16 or 2, ENR update on/off) driven by scripted handler events: sessions and explicit adds with every "
            "record shape (no address, v4, v6, both, IPv4-mapped v6, ip without port, filter-rejected, changed address), "
            "PINGs/PONGs advertising equal/lower/higher seq, ENR answers carrying the peer's record with seq -1/0/+1.. in "
            "every shape, lookups answered with new versions of known peers and strangers, failures (also after partial "
            "answers), unverifiable records, removals, user-level calls; 1 case in 5 overfills one bucket (pending slot). "
            "Table compared with the model after every op. non-trivial = an op on a table that changed a stored record "
            "through the network path, or ran with a full bucket / pending node",
    "nontrivial": [("service", "s.network-update"), ("service", "s.ops-with-full-bucket"), ("service", "s.established")],
    "trusted_base": ["handler half (verify_enr: incoming sessions only with a record whose socket equals the observed source) is checked by the handler engine with records advertising another port / another IP / no socket (model comparison + monitor session-established-with-foreign-address)", "record validity / node ids decided by the enr crate (abstract Rec in the model)",
                     "the single-stack source-address check of incoming sessions is the handler's verify_enr (handler engine), not part of the service"],
    "assumptions": ["pending-node timeout (60 s of real time) never elapses within a case"],
    "engine": "service",
    "design_ref": "DESIGN.md section 5 / C12",
    "technique": "Lean 4 invariant over an executable model of the service's table-affecting handlers + differential correspondence run",
    "level_text": "Proof: over every service step (sessions, adds, discovered records, pings/pongs, failures, removals, unverifiable reports) every stored and pending value stays contactable in the IP mode, passes the table filter, is filed under its own id and is not the local id (table_policy_inv, table_policy_run); a step enlarges the key set only if it is `established` or `addEnr` (admission_only_by_session_or_add, admission_needs_policy); a record learnt from the network replaces a stored one only for the same id with strictly higher seq that still satisfies the conditions (network_update_rule, discovered_one_rule). The single-stack source-address condition is the handler's verify_enr (C01/C03 engine: `unverifiable` vs `established`), not the service's. Tied to /repo by the service differential run (table compared after every op) and table-policy monitors."
                  ' Also (Props/C12Discovered.lean): inside one `discovered` call the stored sequence number of a node never goes backwards at any intermediate point, and a session report that creates or changes an entry stores exactly the reported record.',
    "level_note": "Trusted: Lean kernel, extract.py, harness/driver. The tie model<->code is a sampled differential check of the real Service behind a scripted handler (Discv5::start_scripted). Records are abstract (id, seq, sockets, size, filter verdict); record validity is the enr crate's. Queries are not modelled: which peers a lookup contacts is taken from the run (resolved scripts), the requested distance lists are compared with the model's requestDistances.",
}

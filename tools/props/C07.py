PROP = {
    "modules": ["Discv5Model.Props.C07"],
    "lemma_modules": ["Discv5Model.Proofs.KBucketLemmas"],
    "engines": [{"name": "kbucket", "quick": 160, "thorough": 6000}],
    "rule": "kbucket engine: each case = a fresh table (random local id, incoming limit 0..16, pending timeout already "
            "elapsed / never / elapsing mid-sequence with real sleeps) and 150-400 operations "
            "(insert_or_update / update_node / update_node_status / remove / entry / iter / closest / by-distance) over "
            "crafted ids in 2-4 hot buckets driven to fullness, low-index buckets and a spread over all distances; "
            "compared after every op: result variant, and on dumps every bucket's ordered node list with status, "
            "num_connected and the pending node. non-trivial = an op executed while some bucket was full",
    "nontrivial": [("kbucket", "kb.ops-with-full-bucket")],
    "engine": "kbucket",
    "design_ref": "DESIGN.md section 5 / C07",
    "technique": "Lean 4 invariant proof (induction over all operation sequences) on an executable model of KBucket/KBucketsTable + differential correspondence run with invariant monitors",
    "level_text": "Proof: the table invariant TInv (<=16 nodes per bucket, first_connected_pos consistent, disconnected before connected with each group ordered by last status report, no duplicate ids incl. the pending slot, connected-incoming limit, every node in the bucket of its log2 distance, local id never stored) holds in the initial table and is preserved by every table operation for every now/filter/limit (step_inv, reachable_inv), the unreachable!() arms are unreachable (no_panic), and the pending-slot semantics (enters only after its timeout, only by evicting the disconnected head, discarded when the head reconnects) are theorems about the model. The model is tied to /repo by regenerated constants and a differential run against KBucketsTable on every check, with the six invariants recomputed on the implementation after every op.",
    "level_note": "Trusted: Lean kernel, extract.py, harness/driver. The tie model<->code is a sampled differential check. Instant::now() is an explicit argument in the model; the ghost stamp (time a node last entered its group) exists only in the model/ledger. Entry::value_mut / AbsentEntry::insert bypasses are not used by the service and are excluded.",
}

PROP = {
    "modules": ["Discv5Model.Props.C20", "Discv5Model.Props.C15SessionUse"],
    "lemma_modules": ["Discv5Model.Proofs.TalkLemmas"],
    "engines": [{"name": "talk", "quick": 150, "thorough": 3000}, {"name": "handler", "quick": 40, "thorough": 3000}],
    "rule": "talk engine: one real Service (scripted handler); up to ~14 TALKREQs delivered from 5 peers / several "
            "addresses (payloads up to the single-datagram limit of 1177 bytes; some objects dropped while a panic unwinds), the application responding / dropping / holding the request objects in random order, shutdown at "
            "a random point (the handler side of the channel goes away), then every object still held is responded to or "
            "dropped. Every HandlerIn::Response is attributed to its request (id + node address) and counted. "
            "non-trivial = a request object responded to or dropped (before or after shutdown). handler engine (shared "
            "with C01-C04): the responses the service hands to the transport travel through real Handler instances - TALK "
            "requests and responses between 2-3 nodes under loss, duplication, re-keying and outstanding challenges; one "
            "response handed over is at most one datagram, and what reaches the wire is compared with the handler model",
    "nontrivial": [("talk", "t.responded"), ("talk", "t.dropped"), ("talk", "t.respond-after-shutdown"),
                   ("talk", "t.drop-after-shutdown")],
    "trusted_base": ["Rust ownership: respond(self) consumes the object and is followed by Drop (life-cycle grammar TalkUse)"],
    "assumptions": [],
    "engine": "talk",
    "design_ref": "DESIGN.md section 5 / C20",
    "technique": "Lean 4 theorems over the TalkRequest life-cycle model and over all histories of a world of concurrently held request objects (Model/Talk.lean, invariant by induction over operations) + correspondence run through the real Service, the driver executing the same World.step",
    "level_text": "Proof: over the life-cycle grammar of a TalkRequest object (respond then drop, or drop) every life cycle emits exactly one TALKRESP with the request id to the node address it came from - the application payload if it responded, the empty payload otherwise - and never a second one; with the channel closed (after shutdown) respond returns the error value and drop emits nothing, no state raises (exactly_one, after_shutdown). Over every history of deliveries, responds, drops (in any order, objects held concurrently, equal request ids allowed) and a shutdown at any point: never a second response for any object (never_two), nothing sent for an object still held (held_unanswered), consuming a held object while running yields exactly one TALKRESP with its id, node address and the application payload over the whole history (answered_exactly_once), nothing is sent after shutdown (after_shutdown_silent) and no use ever panics (never_panics). Tied to /repo by delivering concurrent TALKREQs through the real Service (scripted handler) with the application responding / dropping / holding in random order incl. after shutdown, counting the responses per request id.",
    "level_note": "Trusted: Lean kernel, extract.py, harness/driver. That respond(self) is followed by Drop is Rust ownership (reflected in the life-cycle grammar). The tie model<->code is a sampled differential check.",
}
PROP['rule'] += ' A second event-stream subscriber (op tsub2: Discv5::event_stream() called again while the first receiver stays alive) in one case out of six: every request is still answered exactly once.'

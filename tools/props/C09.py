PROP = {'modules': ['Discv5Model.Props.C09', 'Discv5Model.Props.C09Started', 'Discv5Model.Props.C09Service'],
 'lemma_modules': ['Discv5Model.Proofs.QueryLemmas', 'Discv5Model.Proofs.QueryStarted', 'Discv5Model.Proofs.LookupLemmas', 'Discv5Model.Proofs.LookupLedger'],
 'engines': [{'name': 'query', 'quick': 1000, 'thorough': 50000},
             {'name': 'service', 'quick': 80, 'thorough': 4000},
             {'name': 'service', 'quick': 12, 'thorough': 200, 'model': False, 'profile': 'C09conc'}, {'name': 'service', 'quick': 4, 'thorough': 48, 'model': False, 'profile': 'C09cutoff'}],
 'rule': 'query engine (cases shared with C10): 6/7 of the cases drive one FindNodeQuery or PredicateQuery directly with explicit time (parallelism 1..8, '
         'num_results 1..24, occasionally 0; peer timeout 0..100): next at deadlines -1/0/+1, success / failure for outstanding requests (@k), already '
         'answered ones (%k) and never-contacted ids, closer lists with new / duplicate / closer / farther ids and the target itself, ids that agree with the '
         'target in all high bits, a contract mode (at most one terminal event per request, fixed predicate value per id) and an adversarial mode; every case '
         'ends with a drive-to-Finished and into_result. 1/7 drive a QueryPool with 1..6 queries (real time, query timeout 0 or 1 h, poll until '
         'Idle/Waiting(None), events grouped per query id). After every op the returned QueryState, and for FindNodeQuery num_waiting, progress and all peer '
         'states (read from the derived Debug), are compared with the model. non-trivial = single-query case with >= 3 requests that hit WaitingAtCapacity or '
         'a late answer, or pool case that handed a non-empty result back. A real-time pool scenario (300 ms query timeout, lookups with parallelism 0 or '
         'silent peers, 450 ms of silence) checks the cut-off against the wall clock. service engine (lookup profile shared with C11): find_node through the '
         'real Service with answering, failing and silent peers; when the lookup ends the caller must receive a result (possibly empty)',
 'nontrivial': [('query', 'q.nt.c09'), ('query', 'q.nt.pool')],
 'trusted_base': ['Instant arithmetic of std (explicit `now : Nat` in the model; monotone time in the monitors)',
                  'BTreeMap / FnvHashMap of std/fnv (sorted list / id-indexed list with the visiting order as a parameter)'],
 'assumptions': ['keys are naturals and distance is Nat.xor (256-bit keys in the code)',
                 'the predicate closure is abstracted to the boolean it returns for each reported record',
                 'QueryPool theorems assume the usize id counter does not wrap (fewer than 2^64 queries added)',
                 'that poll is called again after the query timeout (service wake-ups) is outside the model',
                 'pool-level correspondence uses real time without expiring timeouts (query timeout 0 or 1 h, peer timeout 1 h) and compares the events of a '
                 'drained poll per query id (hash-map order independent)'],
 'engine': 'query',
 'design_ref': 'DESIGN.md section 5 / C09',
 'technique': 'Lean 4 invariants over all event histories of an executable model of FindNodeQuery / PredicateQuery / QueryPool (in-flight counter, issuing '
              'bound, duplicate-free requests, request bound, timeout cut-off, single hand-back) + differential correspondence run with ledger monitors '
              "against the real state machines + Lean 4 composition of the service model with the query model (the service's lookups are query histories; one "
              "result per lookup), tied by the service engine (the driver predicts a lookup's requests and result)",
 'level_text': 'Proof: for every initial candidate list, configuration and history of next / on_success / on_failure calls (any order, late / duplicate / '
               'unsolicited answers) num_waiting equals the number of Waiting peers, a request is issued only below the parallelism (iterating) resp. '
               'num_results (stalled) bound, no peer is handed out twice, at most |known ids| requests are issued; for every pool history and every hash-map '
               'visiting order a poll past the query timeout hands out a request or removes a query, and no query id is handed back twice or reachable '
               "afterwards. The model is tied to /repo by a differential run on every check and by lookups through the real Service (the caller's future must "
               'resolve to a result when the lookup ends). Also: the pool stamps a lookup at its first poll and nothing moves the stamp afterwards, so the '
               'cut-off comes query_timeout after the first poll whatever was answered in between (Props/C09Started.lean). Also (Props/C09Service.lean, '
               'Model/Lookup.lean): the lookups the service actually runs - service model composed with the query state machine (start of a lookup from the '
               'routing table, the query_event_poll arm, discovered -> on_success, rpc_failure -> on_failure, hand-over of the result) - are query histories '
               'over every history of service steps, so the theorems above hold of them; one result per lookup; result size bounded. The service driver '
               'predicts every request a lookup sends and the result it hands over; both are compared with the implementation.',
 'level_note': 'Trusted: Lean kernel, harness/driver. The tie model<->code is a sampled differential check, not a proof. Liveness beyond the model (poll being '
               'called again) is a runtime assumption.'}
PROP['rule'] += " Monitors-only profile C09cutoff (service engine): a lookup with silent peers on an otherwise idle node with a 250 ms query timeout; 1.4-1.8 s of silence on the real and on the runtime's clock, then a PING wakes the service: the lookup is cut off and its result is handed to the caller, who is still waiting."

PROP = {'modules': ['Discv5Model.Props.C10', 'Discv5Model.Props.C09Service', 'Discv5Model.Props.C10Service', 'Discv5Model.Props.C10Candidates'],
 'lemma_modules': ['Discv5Model.Proofs.QueryLemmas', 'Discv5Model.Proofs.LookupLemmas', 'Discv5Model.Proofs.LookupLedger', 'Discv5Model.Proofs.LookupResult', 'Discv5Model.Proofs.ServiceDiscovered'],
 'engines': [{'name': 'query', 'quick': 1000, 'thorough': 50000}, {'name': 'service', 'quick': 80, 'thorough': 4000}, {'name': 'service', 'quick': 24, 'thorough': 400, 'model': False, 'profile': 'C10shared'}],
 'rule': 'query engine (cases shared with C09, see there): FindNodeQuery / PredicateQuery driven directly with explicit time in a contract and an adversarial '
         'mode, plus QueryPool cases; into_result (and for FindNodeQuery a peek at the result of a clone in mid-run) is compared with the model and checked '
         'against the harness ledger (answered peers, reported predicate values, candidates certainly learned). non-trivial = single-query case that reached '
         'Finished with >= 2 requests and a non-empty result, or pool case that handed a non-empty result back',
 'nontrivial': [('query', 'q.nt.c10'), ('query', 'q.nt.pool')],
 'trusted_base': ['Instant arithmetic of std (explicit `now : Nat` in the model)', 'BTreeMap of std (list kept strictly sorted by distance)'],
 'assumptions': ['keys are naturals and distance is Nat.xor (256-bit keys in the code)',
                 'the predicate closure is abstracted to the boolean it returns for each reported record',
                 "'candidates it learned of' = the candidate map; the constructor keeps only the first num_results initial candidates (stated in "
                 'result_predicate / requests_bounded)'],
 'engine': 'query',
 'design_ref': 'DESIGN.md section 5 / C10',
 'technique': 'Lean 4 invariants over all event histories of an executable model of FindNodeQuery / PredicateQuery (ledger refinement: emitted / answered / '
              'reported) + differential correspondence run with ledger monitors against the real state machines + Lean 4 composition of the service model with '
              'the query model, tied by the service engine (lookup results predicted and compared)',
 'level_text': 'Proof: for every initial candidate list, configuration and history of calls the result is strictly increasing in XOR distance, has at most '
               'num_results entries, contains only peers that next handed out and for which on_success was called later, a predicate lookup returns only nodes '
               'reported with a matching record, and a finished query with a short result has no NotContacted candidate. The model is tied to /repo by a '
               'differential run on every check. Also (Props/C09Service.lean, Model/Lookup.lean): the lookups the service runs are histories of the query '
               'model (so result soundness / order / completeness hold of them) and hand over at most the number of records asked for; the service driver '
               'predicts the result of every lookup (which nodes, in which order) and it is compared with the implementation. Props/C10Candidates.lean: every record `discovered` hands to a lookup is contactable in the IP mode of the node and passes the table filter, and `send_rpc_query` for a found, contactable candidate emits its request (admission and contact decide alike - no candidate fails without having been asked). Props/C10Service.lean: the ids '
               'of the records a lookup hands over are, in order, ids of into_result() of a state the lookup reached (result_ids), hence the records come in '
               "strictly increasing distance to the lookup's target (result_in_increasing_distance) and every node among them was selected by the lookup and "
               'answered it (result_nodes_answered).',
 'level_note': 'Trusted: Lean kernel, harness/driver. The tie model<->code is a sampled differential check, not a proof.'}
PROP['rule'] += ' Records at addresses nothing is delivered to (0.0.0.0, multicast) appear in answers; monitor lookup-short-although-a-node-it-learned-of-was-never-asked over the candidates a lookup certainly learned from its answers; lookups for 10^6 and usize::MAX results.'
PROP['rule'] += " Monitors-only profile C10shared (service engine): two lookups at once are both told of one and the same stranger (requests are attributed to a lookup by the step that caused them); one lookup is brought to its end, then the other; both end short, so both must have sent the stranger their request."

PROP = {
        "modules": ["Discv5Model.Props.C15", "Discv5Model.Props.C02", "Discv5Model.Props.C15Handler", "Discv5Model.Props.C02Attribution", "Discv5Model.Props.C15SessionUse"],
        "lemma_modules": ["Discv5Model.Proofs.LruLemmas"],
        "engines": [{"name": "lru", "quick": 300, "thorough": 5000}, {"name": "handler", "quick": 32, "thorough": 400}],
        "rule": "lru engine: each case = one LruTimeCache<u64,u64> (ttl 20..60 ms real time, capacity 0..4 or None) "
                "driven by 6..18 ops insert/get/get_mut+write/peek/len/remove/remove_expired_values over 3..6 keys "
                "(75% of the reads aimed at keys that are present), idle periods clearly shorter (<= 0.6 ttl "
                "accumulated) or clearly longer (>= 2 ttl + 20 ms) than the ttl, keep-alive chains that refresh "
                "entries beyond one ttl, and a final long idle + sweep that reveals the content in list order; "
                "non-trivial = a read that hit, a read that found an expired entry, an insert that evicted, "
                "a sweep that removed something",
        "nontrivial": [("lru", "c.get.hit"), ("lru", "c.get.expired"), ("lru", "c.peek.expired"),
                       ("lru", "c.ins.evict"), ("lru", "c.sweep.nonempty")],
        "trusted_base": ["hashlink::LinkedHashMap modelled as the list of its entries in linked-list order "
                         "(insert/to_back/pop_front/remove read from hashlink 0.11.1)",
                         "std::time::Instant replaced by an explicit non-decreasing `now`; the correspondence run uses the real "
                         "clock with scripted durations and re-runs a case with doubled durations when the measured clock "
                         "did not keep the scripted margins"],
        "assumptions": ["times along a history never decrease (Instant is monotonic)",
                        "`Instant + Duration` does not overflow; capacity None = usize::MAX = 2^64-1",
                        "the exact boundary now = stamp + ttl is covered by the theorems only (real time cannot hit it)",
                        "handler part of C15 (sessions reached only through get_mut) is a separate set of theorems"],
        "engine": "lru",
    "design_ref": "DESIGN.md section 5 / C15",
    "technique": "Lean 4 theorems (bound, LRU eviction, freshness of get/get_mut/peek, expired entries never returned, "
                 "refinement to a bounded map of live entries) over an executable model of LruTimeCache + differential "
                 "correspondence run against the real cache in real time",
    "level_text": "Proof: for every operation sequence with non-decreasing time the model of LruTimeCache keeps len <= capacity, "
                  "evicts exactly the least recently used key when full, returns a value from get/get_mut/peek only within "
                  "the ttl of the last use and never again after it, and is observationally a bounded LRU map of live "
                  "entries; the model is tied to /repo by a differential run of insert/get/get_mut/peek/len/remove/"
                  "remove_expired_values sequences against the real cache on every check."
                  ' Also (Props/C15SessionUse.lean, Props/C02Attribution.lean): what counts as a use of a session in the handler - sealing a request or an answer and accepting a message do; a request that only queues up, a request timeout and a packet that does not open do not (the last removes the session).',
    "level_note": "Trusted: Lean kernel, harness/driver, hashlink's list semantics as read from its source. The tie model<->code is "
                  "a sampled differential check in real time (margins, clock-checked), not a proof.",
}

PROP = {
        "modules": ["Discv5Model.Props.C05"],
        "lemma_modules": ["Discv5Model.Proofs.PacketLemmas", "Discv5Model.Proofs.BytesLemmas"],
        "engines": [{"name": "packet", "quick": 1500, "thorough": 150000}],
        "rule": "packet engine: each case = 3 encodes of well-formed packets at boundary sizes + 4 decodes of "
                "hand-built unmasked headers with mutated fields (flag, auth-size, size bytes, record, "
                "protocol id/version, truncation/extension, foreign id) + 2 random byte strings 0..1400; "
                "non-trivial = op whose decode reached beyond the protocol-id check or an in-window encode",
        "nontrivial": [("packet", "penc.in-window"), ("packet", "pdec.ok.m"), ("packet", "pdec.ok.w"),
                       ("packet", "pdec.ok.h"), ("packet", "pdec.err.auth-size"), ("packet", "pdec.err.enr"),
                       ("packet", "pdec.err.unknown"), ("packet", "pdec.err.version")],
        "trusted_base": ["AES-128-CTR keystream supplied by the harness from the aes/ctr crates (theorems hold for every keystream)",
                         "node-record validity decided by the enr crate (abstract recDec in the model)"],
        "assumptions": ["masking keystream abstract; record decoder abstract (prefix-decoding, canonical re-encoding)",
                        "Rust slices modelled as checked slices: a panic is a distinguished result"],
        "engine": "packet",
    "design_ref": "DESIGN.md section 5 / C05",
    "technique": "Lean 4 theorems (round trip, layout, index safety, strictness, foreign-id) over an executable model of Packet::encode/decode + differential correspondence run against the real codec",
    "level_text": "Proof: decode(encode p) = p with the same authenticated data, the wire layout, never-panics for every byte string, and every rejection clause are Lean theorems about the model for all inputs and every keystream; the model is tied to /repo by regenerated constants and by a differential run (structured + malformed + random datagrams) against Packet::encode/decode on every check.",
    "level_note": "Trusted: Lean kernel, extract.py, harness/driver; AES-CTR keystream and ENR validity are abstract parameters of the theorems (supplied by the aes/ctr and enr crates in the correspondence run). The tie model<->code is a sampled differential check, not a proof.",
}

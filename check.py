#!/usr/bin/env python3
"""check.py Cxx [--tier quick|thorough] [--replay FILE] | --setup | --all

One entry point for every registered check (see DESIGN.md section 2):
  1. tools/extract.py        regenerate Gen/Consts.lean from /repo/src (the translator part)
  2. lake build              proof obligations of Props.Cxx (+ the model driver executable)
  3. tools/audit.lean        axioms of every theorem; grep for sorry/native_decide/...
  4. cargo build             harness against /repo's *current working tree* (feature verif-hooks)
  5. engine runs             corpus first, then seeded generator: implementation outputs vs model
                             outputs (correspondence) and implementation-side monitors (!MON)
  6. verdict + evidence      exit 0 / `VIOLATION property=Cxx replay=<file>` exit 1
"""
import argparse
import fcntl
import json
import os
import re
import subprocess
import sys
import time

ROOT = os.path.dirname(os.path.abspath(__file__))
LEAN = os.path.join(ROOT, "lean")
HARNESS = os.path.join(ROOT, "harness")
CACHE = os.path.join(ROOT, ".cache")
WORK = os.path.join(ROOT, "work")
REPO = os.environ.get("VERIF_REPO", "/repo")
TARGET = os.path.join(CACHE, "target")
DRV = os.path.join(LEAN, ".lake", "build", "bin", "drv")
ALLOWED_AXIOMS = {"propext", "Classical.choice", "Quot.sound"}
FORBIDDEN = re.compile(r"\b(sorry|admit|native_decide|bv_decide|implemented_by|maxHeartbeats 0)\b|^\s*axiom\s|\bunsafe\s")
JOBS = int(os.environ.get("VERIF_JOBS", "16"))

sys.path.insert(0, os.path.join(ROOT, "tools"))
import extract  # noqa: E402
from registry import PROPS  # noqa: E402


def configure_alt():
    """VERIF_REPO=<scratch worktree>: check that tree instead of /repo without touching /repo or
    the main build directories (used to try candidate changes in parallel).  Lean sources and the
    harness are mirrored (with their build caches) under .cache/alt/<hash>/."""
    global LEAN, HARNESS, TARGET, DRV, WORK
    if os.path.realpath(REPO) == "/repo":
        return
    import hashlib
    h = hashlib.sha1(os.path.realpath(REPO).encode()).hexdigest()[:10]
    alt = os.path.join(CACHE, "alt", h)
    os.makedirs(alt, exist_ok=True)
    # (VERIF_SRC=<copy of lean/ and harness/>: mirror from a frozen copy, so that the sources under
    # /verif can be edited while candidate changes are being tried in the background)
    src = os.environ.get("VERIF_SRC")
    if src:
        LEAN, HARNESS = os.path.join(src, "lean"), os.path.join(src, "harness")
    subprocess.run(["rsync", "-a", "--delete", "--exclude", "Gen/Consts.lean", LEAN + "/", alt + "/lean/"], check=True)
    subprocess.run(["rsync", "-a", "--delete", "--exclude", "target", "--exclude", "Cargo.toml", HARNESS + "/", alt + "/harness/"], check=True)
    toml = open(os.path.join(HARNESS, "Cargo.toml")).read().replace('path = "/repo"', 'path = "%s"' % os.path.realpath(REPO))
    tp = os.path.join(alt, "harness", "Cargo.toml")
    if not os.path.exists(tp) or open(tp).read() != toml:
        open(tp, "w").write(toml)
    LEAN = os.path.join(alt, "lean")
    HARNESS = os.path.join(alt, "harness")
    TARGET = os.path.join(alt, "target")
    DRV = os.path.join(LEAN, ".lake", "build", "bin", "drv")
    WORK = os.path.join(alt, "work")
    extract.REPO = REPO
    extract.OUT = os.path.join(LEAN, "Discv5Model", "Gen", "Consts.lean")
    global EVIDENCE_DIR
    EVIDENCE_DIR = os.path.join(alt, "evidence")


EVIDENCE_DIR = os.path.join(ROOT, "evidence")


def log(*a):
    print(*a, file=sys.stderr, flush=True)


def run(cmd, cwd=None, env=None, inp=None, timeout=None):
    e = dict(os.environ)
    e["CARGO_NET_OFFLINE"] = "true"
    if env:
        e.update(env)
    try:
        p = subprocess.run(cmd, cwd=cwd, env=e, input=inp, stdout=subprocess.PIPE, stderr=subprocess.PIPE,
                           text=True, timeout=timeout)
    except subprocess.TimeoutExpired as ex:
        # a child that does not come back is reported like one that died
        return 124, (ex.stdout or b"").decode("utf-8", "replace") if isinstance(ex.stdout, bytes) else (ex.stdout or ""), \
            "timeout after %ss: %s" % (timeout, " ".join(cmd[:3]))
    return p.returncode, p.stdout, p.stderr


class Lock:
    def __init__(self, name):
        os.makedirs(CACHE, exist_ok=True)
        self.path = os.path.join(os.path.dirname(LEAN), name + ".lock") if LEAN != os.path.join(ROOT, "lean") else os.path.join(CACHE, name + ".lock")

    def __enter__(self):
        self.f = open(self.path, "w")
        fcntl.flock(self.f, fcntl.LOCK_EX)
        return self

    def __exit__(self, *a):
        fcntl.flock(self.f, fcntl.LOCK_UN)
        self.f.close()


# ------------------------------------------------------------------------------------------------
# step 1-3: translator, proofs, audit

def step_extract():
    env, errors = extract.extract()
    text = extract.render(env)
    os.makedirs(os.path.dirname(extract.OUT), exist_ok=True)
    old = open(extract.OUT).read() if os.path.exists(extract.OUT) else None
    if old != text:
        with open(extract.OUT, "w") as f:
            f.write(text)
    return env, errors, extract.anchors_changed()


def theorem_at(path, line):
    """Name of the theorem enclosing `line` in a Lean source file."""
    name = None
    try:
        with open(path) as f:
            for i, l in enumerate(f, 1):
                m = re.match(r"\s*(?:private\s+)?(?:theorem|lemma)\s+(\S+)", l)
                if m:
                    name = m.group(1)
                if i >= line:
                    break
    except OSError:
        pass
    return name


def lake_build(targets):
    with Lock("lake"):
        rc, out, err = run(["lake", "build"] + targets, cwd=LEAN)
    broken = []
    for m in re.finditer(r"error: (\S+?\.lean):(\d+):(\d+): (.*)", out + err):
        path = os.path.join(LEAN, m.group(1)) if not os.path.isabs(m.group(1)) else m.group(1)
        broken.append({"file": os.path.relpath(path, ROOT), "line": int(m.group(2)),
                       "theorem": theorem_at(path, int(m.group(2))), "message": m.group(4)[:200]})
    return rc, broken, (out + err)[-4000:]


def module_path(mod):
    return os.path.join(LEAN, *mod.split(".")) + ".lean"


def declared_theorems(mod):
    names = []
    ns = []
    with open(module_path(mod)) as f:
        text = f.read()
    # ignore comments (a commented-out statement is not an obligation)
    text = re.sub(r"/-.*?-/", lambda m: "\n" * m.group(0).count("\n"), text, flags=re.S)
    text = re.sub(r"--[^\n]*", "", text)
    if True:
        for l in text.split("\n"):
            m = re.match(r"namespace\s+(\S+)", l)
            if m:
                ns.append(m.group(1))
            m = re.match(r"end\s+(\S+)", l)
            if m and ns and ns[-1] == m.group(1):
                ns.pop()
            m = re.match(r"\s*(?:private\s+)?(?:theorem|lemma)\s+([^\s:({\[]+)", l)
            if m:
                names.append(".".join(ns + [m.group(1)]))
    return names


def forbidden_tokens(mods):
    hits = []
    for mod in mods:
        with open(module_path(mod)) as f:
            text = f.read()
        text = re.sub(r"/-.*?-/", lambda m: "\n" * m.group(0).count("\n"), text, flags=re.S)
        for i, l in enumerate(text.split("\n"), 1):
            l2 = re.sub(r"--.*", "", l)
            if FORBIDDEN.search(l2):
                hits.append("%s:%d: %s" % (mod, i, l.strip()[:120]))
    return hits


def audit(mods):
    with Lock("lake"):
        rc, out, err = run(["lake", "env", "lean", "--run", os.path.join(ROOT, "tools", "audit.lean")] + mods,
                           cwd=LEAN)
    if rc != 0:
        return None, "audit failed: " + (out + err)[-1500:]
    res = {}
    for l in out.splitlines():
        try:
            j = json.loads(l)
        except ValueError:
            continue
        res[j["theorem"]] = j
    return res, None


# ------------------------------------------------------------------------------------------------
# step 4-5: harness + engines

# Engines whose model documents release (wrapping) integer arithmetic are built without overflow
# checks, in a target directory of their own; everything else runs with the checks the crate's own
# test profile has.
WRAP_ENGINES = {"limiter"}


def target_of(engine):
    return TARGET + "-wrap" if engine in WRAP_ENGINES else TARGET


def hbin(engine):
    return os.path.join(target_of(engine), "release", "h_" + engine)


def cargo_build(engines):
    with Lock("cargo"):
        lock_src = os.path.join(REPO, "Cargo.lock")
        lock_dst = os.path.join(HARNESS, "Cargo.lock")
        if os.path.exists(lock_src) and not os.path.exists(lock_dst):
            import shutil
            shutil.copy(lock_src, lock_dst)
        rc, log = 0, ""
        for wrap in (False, True):
            group = [e for e in engines if (e in WRAP_ENGINES) == wrap]
            if not group:
                continue
            cmd = ["cargo", "build", "--release", "--offline"]
            for e in group:
                cmd += ["--bin", "h_" + e]
            env = {"CARGO_TARGET_DIR": target_of(group[0])}
            if wrap:
                env["CARGO_PROFILE_RELEASE_OVERFLOW_CHECKS"] = "false"
            rc1, out, err = run(cmd, cwd=HARNESS, env=env)
            rc = rc or rc1
            log += out + err
    return rc, log[-3000:]


def canon_line(l):
    # error *kinds* are outside every property statement: compare only "rejected"
    if l.startswith("err:"):
        return "err"
    return l


def split_cases(lines):
    cases, cur = [], None
    for l in lines:
        if l.startswith("#case"):
            cur = [l]
            cases.append(cur)
        elif cur is None:
            cur = ["#case corpus"]
            cases.append(cur)
            cur.append(l)
        else:
            cur.append(l)
    return cases


def run_pair(engine, ops_text, with_model=True):
    """Runs implementation and model on the same ops. Returns (impl_lines, model_lines, stats)."""
    rc, iout, ierr = run([hbin(engine), "run", engine], inp=ops_text, timeout=1800)
    stats = {}
    m = re.search(r"STATS (\{.*\})", ierr)
    if m:
        stats = json.loads(m.group(1))
    if rc != 0:
        return None, None, {"harness_error": ierr[-800:]}
    mout = None
    if with_model:
        # Engines whose scripts refer to run-time observations (`#k`-th request seen, random ids)
        # print one `!OP <resolved op>` line per op; the model then consumes the resolved script.
        resolved = [l[4:] for l in iout.splitlines() if l.startswith("!OP ")]
        if engine == "handler" and resolved:
            # The handler driver is told the implementation's reply to each step (behind `??`).  It
            # consults it only to choose the serving order of request timers that are due at the
            # same instant (decided inside tokio's timer wheel; both orders are behaviours of the
            # code) - see Driver/HandlerDrv.lean.  Its answer is compared as usual.
            replies = [l for l in iout.splitlines() if not l.startswith("!") and not l.startswith("#")]
            if len(replies) == len(resolved):
                resolved = [o + " ?? " + r if o.startswith(("hmulti", "hev")) else o for o, r in zip(resolved, replies)]
        model_in = ops_text
        if resolved:
            it = iter(resolved)
            lines = []
            for l in ops_text.splitlines():
                if not l.strip():
                    continue
                if l.startswith("#"):
                    lines.append(l)
                else:
                    lines.append(next(it, "bad-op-unresolved"))
            model_in = "\n".join(lines) + "\n"
        rc2, mo, me = run([DRV], inp=model_in, timeout=1800)
        if rc2 == 0:
            mout = mo.splitlines()
        else:
            stats["driver_error"] = me[-500:]
    return iout.splitlines(), mout, stats


def compare(engine, ops_text, prop, with_model=True):
    """Returns dict(disagree=[(case_header, op_index)], monitors=[(case_header, text)], stats, ops)."""
    impl, model, stats = run_pair(engine, ops_text, with_model)
    res = {"disagree": [], "monitors": [], "other_monitors": 0, "stats": stats, "ops": 0, "errkind_diffs": 0}
    if impl is None:
        # the harness process died (abort, stack overflow, allocation failure: nothing `catch_unwind`
        # can contain).  Find the case and the op that kills it: that op is a concrete failing input
        # for every property (none of them allows the node to go down on an input).
        crash = localise_crash(engine, ops_text)
        if crash is not None:
            case, op, rc, nops = crash
            res["monitors"].append((case, "!MON %s process-aborted rc=%s op=%s" % (prop, rc, op[:160])))
            res["ops"] = nops
            res["crashed"] = True
            return res
        res["fatal"] = stats.get("harness_error", "harness failed")
        return res
    ops = [l for l in ops_text.splitlines() if l.strip()]
    replies = []
    pending_mon = []
    for l in impl:
        if l.startswith("!MON"):
            pending_mon.append(l)
        elif l.startswith("!"):
            continue  # !OP (resolved op for the model), !INFO (uncompared observations)
        else:
            replies.append((l, pending_mon))
            pending_mon = []
    if len(replies) != len(ops):
        res["fatal"] = "harness produced %d replies for %d ops" % (len(replies), len(ops))
        return res
    if model is not None and len(model) != len(ops):
        res["fatal_model"] = "driver produced %d replies for %d ops" % (len(model), len(ops))
        model = None
    case = "#case ?"
    seen_dis = set()
    for i, op in enumerate(ops):
        if op.startswith("#case"):
            case = op
            continue
        if op.startswith("#"):
            continue
        res["ops"] += 1
        reply, mons = replies[i]
        for mline in mons:
            parts = mline.split(" ", 2)
            if len(parts) >= 2 and parts[1] == prop:
                res["monitors"].append((case, mline))
            else:
                res["other_monitors"] += 1
        if model is not None:
            if canon_line(reply) != canon_line(model[i]):
                if case not in seen_dis:
                    seen_dis.add(case)
                    res["disagree"].append((case, i, op[:200], reply[:300], model[i][:300]))
            elif reply != model[i]:
                res["errkind_diffs"] += 1
    return res


def localise_crash(engine, ops_text):
    """The harness died on `ops_text`: returns (case header, killing op, exit status, ops before it)
    for the first case that kills it when run on its own, or None."""
    cases, cur = [], None
    for l in ops_text.splitlines():
        if not l.strip():
            continue
        if l.startswith("#case"):
            cur = [l]
            cases.append(cur)
        elif cur is not None:
            cur.append(l)
    def dies(lines):
        rc, _, _ = run([hbin(engine), "run", engine], inp="\n".join(lines) + "\n")
        return rc if rc != 0 else None
    for c in cases[:400]:
        rc = dies(c)
        if rc is None:
            continue
        lo, hi = 1, len(c) - 1          # smallest prefix (number of ops) that still kills it
        while lo < hi:
            mid = (lo + hi) // 2
            if dies(c[:1 + mid]) is not None:
                hi = mid
            else:
                lo = mid + 1
        return (c[0], c[lo] if lo < len(c) else "?", rc, lo)
    return None


def case_text(ops_text, case_header):
    out, on = [], False
    for l in ops_text.splitlines():
        if l.startswith("#case"):
            on = (l == case_header)
        if on:
            out.append(l)
    return "\n".join(out) + "\n"


def context_text(ops_text, case_header, k):
    """The case with the (up to) k cases that were run before it in the same process."""
    cases, cur = [], None
    for l in ops_text.splitlines():
        if l.startswith("#case"):
            cur = [l]
            cases.append(cur)
        elif cur is not None:
            cur.append(l)
    idx = next((i for i, c in enumerate(cases) if c[0] == case_header), None)
    if idx is None:
        return case_text(ops_text, case_header)
    return "\n".join("\n".join(c) for c in cases[max(0, idx - k):idx + 1]) + "\n"


def still_fails(engine, text, prop, kind):
    r = compare(engine, text, prop)
    if "fatal" in r:
        return False
    return bool(r["monitors"]) if kind == "monitor" else bool(r["disagree"])


def ddmin(engine, text, prop, kind, budget=120):
    """Shrinks the op list of one case while it still fails (monitor failure or disagreement)."""
    lines = text.strip("\n").split("\n")
    head, ops = lines[0], lines[1:]
    n = 2
    tries = 0
    while len(ops) >= 2 and tries < budget:
        chunk = max(1, len(ops) // n)
        reduced = False
        for i in range(0, len(ops), chunk):
            cand = ops[:i] + ops[i + chunk:]
            tries += 1
            if cand and still_fails(engine, "\n".join([head] + cand) + "\n", prop, kind):
                ops = cand
                n = max(n - 1, 2)
                reduced = True
                break
            if tries >= budget:
                break
        if not reduced:
            if chunk == 1:
                break
            n = min(len(ops), n * 2)
    return "\n".join([head] + ops) + "\n"


def gen_ops(engine, prop, seed, first, n, tier):
    rc, out, err = run([hbin(engine), "gen", engine, str(seed), str(first), str(n), tier, prop])
    stats = {}
    m = re.search(r"STATS (\{.*\})", err)
    if m:
        stats = json.loads(m.group(1))
    if rc != 0:
        return None, {"gen_error": err[-800:]}
    return out, stats


def merge_stats(a, b):
    for k, v in b.items():
        if isinstance(v, (int, float)):
            a[k] = a.get(k, 0) + v
        else:
            a[k] = v
    return a


def engine_run(prop, engine, seed, ncases, tier, with_model=True, shard_size=None, profile=None):
    """Corpus first, then generated cases (sharded). Returns an aggregate result dict."""
    from concurrent.futures import ThreadPoolExecutor
    agg = {"evaluations": 0, "ops": 0, "disagree": [], "monitors": [], "gen_stats": {}, "run_stats": {},
           "samples": [], "errkind_diffs": 0, "fatal": [], "corpus_cases": 0, "nontrivial": 0}
    texts = []
    cdir = os.path.join(ROOT, "corpus", engine)
    if os.path.isdir(cdir):
        for fn in sorted(os.listdir(cdir)):
            if fn.endswith(".ops"):
                t = open(os.path.join(cdir, fn)).read()
                if not t.startswith("#case"):
                    t = "#case corpus:%s\n" % fn + t
                texts.append(("corpus:" + fn, t))
                agg["corpus_cases"] += 1
    shard = shard_size or max(1, (ncases + JOBS - 1) // JOBS)
    shards = [(f, min(shard, ncases - f)) for f in range(0, ncases, shard)]

    def do_shard(s):
        first, n = s
        ops, gst = gen_ops(engine, profile or prop, seed, first, n, tier)
        if ops is None:
            return ("gen", None, gst, None)
        return ("gen", ops, gst, compare(engine, ops, prop, with_model))

    results = []
    for name, t in texts:
        results.append((name, t, {}, compare(engine, t, prop, with_model)))
    with ThreadPoolExecutor(max_workers=JOBS) as ex:
        for r in ex.map(do_shard, shards):
            results.append(r)
    for name, ops, gst, res in results:
        if ops is None:
            agg["fatal"].append(gst.get("gen_error", "gen failed"))
            continue
        merge_stats(agg["gen_stats"], gst)
        if "fatal" in res:
            agg["fatal"].append(res["fatal"])
            continue
        if "fatal_model" in res:
            agg["fatal"].append(res["fatal_model"])
        merge_stats(agg["run_stats"], res["stats"])
        agg["ops"] += res["ops"]
        agg["errkind_diffs"] += res["errkind_diffs"]
        ncase = sum(1 for l in ops.splitlines() if l.startswith("#case"))
        agg["evaluations"] += ncase
        for d in res["disagree"]:
            agg["disagree"].append((ops, d))
        for mcase, mline in res["monitors"]:
            agg["monitors"].append((ops, mcase, mline))
        if not agg["samples"] and name == "gen":
            c = split_cases(ops.splitlines())
            if c:
                agg["samples"].append([l[:400] for l in c[0][:8]])
    return agg


# ------------------------------------------------------------------------------------------------
# verdict

def write_replay(prop, tag, text):
    d = os.path.join(WORK, "replays")
    os.makedirs(d, exist_ok=True)
    path = os.path.join(d, "%s-%s.ops" % (prop, tag))
    with open(path, "w") as f:
        f.write(text)
    return path


def known_findings(prop):
    try:
        with open(os.path.join(ROOT, "known_findings.json")) as f:
            kf = json.load(f)
    except OSError:
        return []
    return [k for k in kf.get("findings", []) if k.get("property") == prop]


# Source files whose behaviour an engine exercises (prefix match on the anchor names).  When one of
# them differs from the text the models were written against (anchors.json), the quick tier of that
# engine is followed by a larger run of the thorough generator: the tie is re-validated harder on
# exactly the code that moved.
# Engines whose cases read the real clock (a failure that does not repeat on its own is a scheduling hiccup)
REALTIME_ENGINES = {"lru", "handler", "ipvote", "kbucket"}

ENGINE_FILES = {
    "packet": ["src/packet/"],
    "rpc": ["src/rpc.rs"],
    "kbucket": ["src/kbucket", "src/discv5.rs", "src/config.rs"],
    "query": ["src/query_pool"],
    "limiter": ["src/socket/", "src/permit_ban.rs", "src/packet/", "src/discv5.rs"],
    "ipvote": ["src/service/ip_vote.rs"],
    "lru": ["src/lru_time_cache.rs"],
    "handler": ["src/handler/", "src/packet/", "src/socket/", "src/lru_time_cache.rs", "src/config.rs",
                "src/node_info.rs", "src/rpc.rs", "src/permit_ban.rs"],
    "service": ["src/service", "src/discv5.rs", "src/ipmode.rs", "src/kbucket", "src/config.rs",
                "src/query_pool", "src/permit_ban.rs", "src/node_info.rs", "src/rpc.rs"],
    "talk": ["src/service.rs", "src/discv5.rs", "src/rpc.rs", "src/node_info.rs"],
}
ANCHOR_ESCALATION_FACTOR = 4


def anchor_hit(engine, anchors_changed):
    return [f for f in anchors_changed if any(f.startswith(p) for p in ENGINE_FILES.get(engine, ["src/"]))]


def check(prop, tier, seed, replay=None):
    t0 = time.time()
    spec = PROPS[prop]
    os.makedirs(WORK, exist_ok=True)
    verdict = {"violations": [], "notes": []}
    # 1. translator
    consts, cerrors, anchors_changed = step_extract()
    # 2. proofs
    targets = list(spec["modules"]) + ["drv"]
    rc, broken, lake_log = lake_build(spec["modules"])
    rc_drv, broken_drv, lake_log_drv = lake_build(["drv"])
    proof_ok = rc == 0
    drv_ok = rc_drv == 0
    mods = list(spec["modules"]) + list(spec.get("lemma_modules", []))
    forb = forbidden_tokens(mods)
    obligations = []
    for m in mods:
        obligations += declared_theorems(m)
    discharged = 0
    bad_axioms = []
    if proof_ok:
        aud, aerr = audit(mods)
        if aud is None:
            proof_ok = False
            broken.append({"file": "tools/audit.lean", "line": 0, "theorem": None, "message": aerr})
        else:
            for name in obligations:
                j = aud.get(name)
                if j is None:
                    # private theorems are mangled; match by suffix
                    cand = [v for k, v in aud.items() if k.endswith("." + name.split(".")[-1])]
                    j = cand[0] if cand else None
                if j is None:
                    bad_axioms.append((name, ["<not found in compiled module>"]))
                    continue
                extra = [a for a in j["axioms"] if a not in ALLOWED_AXIOMS]
                if extra:
                    bad_axioms.append((name, extra))
                else:
                    discharged += 1
    if os.environ.get("VERIF_DEV_SKIP_PROOFS") == "1":  # development only: never used by registered commands
        forb, bad_axioms, proof_ok, broken = [], [], True, []
    if forb or bad_axioms:
        proof_ok = False
    # thorough: independent re-check of the compiled property modules
    leanchecker = None
    if proof_ok and tier == "thorough":
        with Lock("lake"):
            rcl, lo, le = run(["lake", "env", "leanchecker"] + list(spec["modules"]), cwd=LEAN)
        leanchecker = rcl
        if rcl != 0:
            proof_ok = False
            broken.append({"file": "leanchecker", "line": 0, "theorem": None, "message": (lo + le)[-300:]})
    # 4. harness
    rcc, cargo_log = cargo_build(sorted({e["name"] for e in spec["engines"]}))
    if rcc != 0:
        log(cargo_log)
        verdict["violations"].append(("harness-build", "the harness does not build against /repo: " + cargo_log[-600:], None))
    # 5. engines
    engines_out = []
    total_eval = total_ops = 0
    coverage_stats = {}
    samples = []
    corr_broken = []
    impl_fail = []
    if rcc == 0:
        if replay:
            text = open(replay).read()
            eng = spec["engines"][0]["name"]
            m = re.search(r"engine=(\S+)", text.split("\n", 1)[0])
            if m:
                eng = m.group(1)
            text = "\n".join(l for l in text.splitlines() if l.strip()) + "\n"
            res = compare(eng, text, prop, drv_ok)
            if "fatal" in res:
                cerrors.append("replay could not be run: %s" % res["fatal"])
            for c, ml in res["monitors"]:
                impl_fail.append((eng, text, c, ml))
            for d in res["disagree"]:
                corr_broken.append((eng, text, d))
            total_eval += 1
            total_ops += res["ops"]
        else:
            escalate = (not proof_ok) or bool(cerrors)
            for e in spec["engines"]:
                n = e[tier]
                etier = tier
                agg = engine_run(prop, e["name"], seed, n, etier, with_model=drv_ok and e.get("model", True), profile=e.get("profile"))
                moved = anchor_hit(e["name"], anchors_changed)
                if (agg["disagree"] or escalate or moved) and not agg["monitors"] and tier == "quick":
                    # search for a concrete failing input with the thorough generator
                    n2 = e["thorough"]
                    if not (agg["disagree"] or escalate):
                        # only the source text moved: a larger sample, not the whole thorough tier
                        n2 = min(e["thorough"], ANCHOR_ESCALATION_FACTOR * e["quick"])
                        verdict["notes"].append("source of engine %s differs from the modelled text (%s)" % (e["name"], ", ".join(moved)))
                    agg2 = engine_run(prop, e["name"], seed + 1, n2, "thorough", with_model=drv_ok and e.get("model", True), profile=e.get("profile"))
                    agg["monitors"] += agg2["monitors"]
                    agg["disagree"] += agg2["disagree"]
                    agg["evaluations"] += agg2["evaluations"]
                    agg["ops"] += agg2["ops"]
                    merge_stats(agg["run_stats"], agg2["run_stats"])
                    merge_stats(agg["gen_stats"], agg2["gen_stats"])
                    verdict["notes"].append("escalated %s to the thorough generator to search for a failing input" % e["name"])
                total_eval += agg["evaluations"]
                total_ops += agg["ops"]
                coverage_stats[e["name"] + ("/" + e["profile"] if e.get("profile") else "")] = {"gen": agg["gen_stats"], "run": agg["run_stats"],
                                             "corpus_cases": agg["corpus_cases"], "errkind_diffs": agg["errkind_diffs"]}
                samples += agg["samples"]
                for f in agg["fatal"]:
                    verdict["violations"].append(("engine-failure", "%s: %s" % (e["name"], f), None))
                for ops, mcase, mline in agg["monitors"]:
                    impl_fail.append((e["name"], ops, mcase, mline))
                for ops, d in agg["disagree"]:
                    corr_broken.append((e["name"], ops, d))
    # 5b. confirm every failing case by re-running it in isolation (real-time engines can be
    # disturbed by scheduling hiccups; a failure that does not reproduce is recorded, not reported)
    flaky = 0
    repro_text = {}
    if not replay:
        def reproduces(eng, text, kind):
            # twice in a row, on its own: a scheduling hiccup does not repeat, a violation does
            if not still_fails(eng, text, prop, kind):
                return False
            time.sleep(0.3)
            return still_fails(eng, text, prop, kind)

        def confirm(items, case_of, kind):
            """Re-runs failing cases in isolation until one reproduces (then the rest is accepted as
            found); cases that do not reproduce are dropped; after 24 attempts without a single
            reproduction nothing of this kind is reported.  A case that fails only after the cases
            that ran before it in the same process (the implementation keeps state between what should
            be independent operations) is re-run with those: the replay then holds them as well."""
            nonlocal flaky
            verdicts, any_ok, attempts, out = {}, False, 0, []
            for it in items:
                eng, ops, case = it[0], it[1], case_of(it)
                key = (eng, case)
                if key not in verdicts:
                    if not case.startswith("#case") or any_ok:
                        verdicts[key] = True
                    elif attempts >= 24:
                        verdicts[key] = False
                    else:
                        attempts += 1
                        verdicts[key] = reproduces(eng, case_text(ops, case), kind)
                        if not verdicts[key] and attempts <= 6 and eng not in REALTIME_ENGINES:
                            for k in (1, 4, 16):
                                ctx = context_text(ops, case, k)
                                if reproduces(eng, ctx, kind):
                                    verdicts[key] = True
                                    repro_text[key] = ctx
                                    verdict["notes"].append("a failing case of %s reproduces only after the %d case(s) run before it in the same process" % (eng, k))
                                    break
                        any_ok = any_ok or verdicts[key]
                if verdicts[key]:
                    out.append(it)
                else:
                    flaky += 1
            return out

        impl_fail = confirm(impl_fail, lambda it: it[2], "monitor")
        corr_broken = confirm(corr_broken, lambda it: it[2][0], "disagree")
        if flaky:
            verdict["notes"].append("%d failing case(s) did not reproduce when re-run in isolation (timing); not reported" % flaky)
    # 6. verdict
    kf = known_findings(prop)
    out_lines = []
    reported = False
    if impl_fail:
        # group by monitor text; known findings are matched by signature
        seen = set()
        for eng, ops, mcase, mline in impl_fail:
            sig = mline.split(" ", 2)[2] if len(mline.split(" ", 2)) > 2 else mline
            key = (eng, sig.split(" ")[0])
            if key in seen:
                continue
            seen.add(key)
            known = [k for k in kf if k.get("signature") and k["signature"] in sig]
            if known:
                out_lines.append("KNOWN-FINDING: property=%s %s" % (prop, known[0].get("what", sig)))
                continue
            ct = case_text(ops, mcase) if mcase.startswith("#case") and not replay else ops
            if (eng, mcase) in repro_text:
                ct = repro_text[(eng, mcase)]  # several cases: kept as they are
            else:
                ct = ddmin(eng, ct, prop, "monitor") if not replay else ct
            head, _, rest = ct.partition("\n")
            path = write_replay(prop, "%s-impl-%s" % (eng, re.sub(r"\W+", "_", sig)[:40]),
                                "%s engine=%s monitor=%s\n%s" % (head, eng, sig, rest))
            out_lines.append("VIOLATION property=%s replay=%s" % (prop, path))
            reported = True
            verdict["violations"].append(("implementation", sig, path))
    if not reported and (corr_broken or not proof_ok or cerrors or verdict["violations"]):
        # the property is no longer shown to hold, and no failing input was found
        lines = ["# property %s is no longer shown to hold; no failing input was found" % prop]
        for b in broken:
            lines.append("proof obligation broken: theorem=%s file=%s line=%s: %s" % (b["theorem"], b["file"], b["line"], b["message"]))
        for name, ax in bad_axioms:
            lines.append("theorem %s depends on disallowed axioms %s" % (name, ax))
        for h in forb:
            lines.append("forbidden token: " + h)
        for ce in cerrors:
            lines.append("translator: constant %s could not be located in %s (%s)" % (ce["const"], ce["file"], ce["error"]))
        if not drv_ok:
            lines.append("model driver does not build: " + lake_log_drv[-400:])
        for k, msg, _ in verdict["violations"]:
            lines.append("%s: %s" % (k, msg))
        if corr_broken:
            eng, ops, d = corr_broken[0]
            case, idx, op, impl_r, model_r = d
            ct = case_text(ops, case) if case.startswith("#case") and not replay else ops
            if not replay:
                ct = ddmin(eng, ct, prop, "disagree")
            lines.append("correspondence broken: engine=%s (model and implementation disagree; %d cases)" % (eng, len(corr_broken)))
            lines.append("first disagreement: op=%s" % op)
            lines.append("  implementation: %s" % impl_r)
            lines.append("  model:          %s" % model_r)
            lines.append("# minimised ops (engine=%s):" % eng)
            lines.append(ct)
        path = write_replay(prop, "unproved", "\n".join(lines) + "\n")
        out_lines.append("VIOLATION property=%s replay=%s no-failing-input-found" % (prop, path))
        reported = True
    wall = time.time() - t0
    ev = {
        "property_id": prop, "tier": tier, "seed": seed, "level": "proof",
        "coverage": {
            "obligations": len(obligations), "discharged": discharged if proof_ok or discharged else 0,
            "checker_cmd": "cd lean && lake build %s && lake env lean --run ../tools/audit.lean %s%s" % (
                " ".join(spec["modules"]), " ".join(mods), " && lake env leanchecker " + " ".join(spec["modules"]) if tier == "thorough" else ""),
            "trusted_base": spec.get("trusted_base", []) + [
                "Lean 4.33 kernel; axioms allowed: propext, Classical.choice, Quot.sound (audited per theorem)",
                "tools/extract.py (constants regenerated from /repo/src)",
                "Rust harness + Lean driver (correspondence check between model and implementation)"],
            "theorems": obligations,
            "evaluations": max(total_ops, total_eval), "distinct_nontrivial": total_eval,
            "cases": total_eval, "ops_compared": total_ops,
            "rule": spec.get("rule", ""),
            "samples": samples[:3] if samples else [["(replay)"]],
            "traces_validated_against_impl": total_eval,
            "correspondence": coverage_stats,
            "anchors_changed": anchors_changed,
            "consts": consts, "leanchecker_rc": leanchecker,
            "model_disagreements": len(corr_broken), "impl_monitor_failures": len(impl_fail),
            "proof_ok": proof_ok, "notes": verdict["notes"],
        },
        "assumptions": spec.get("assumptions", []),
        "wall_s": round(wall, 2),
        "violations": 1 if reported else 0,
    }
    nt = spec.get("nontrivial")
    if nt:
        ev["coverage"]["distinct_nontrivial"] = min(ev["coverage"]["evaluations"], int(sum(
            coverage_stats.get(e, {}).get("run", {}).get(k, 0) for e, k in nt)))
        ev["coverage"]["rule"] += " (evaluations = ops executed on implementation and model and compared; cases = scenarios; every op is generated from the seed and its case/op index, so ops are distinct up to generator collisions; distinct_nontrivial counts the ops that hit the non-trivial counters named above)"
    if not replay:
        os.makedirs(EVIDENCE_DIR, exist_ok=True)
        with open(os.path.join(EVIDENCE_DIR, prop + ".json"), "w") as f:
            json.dump(ev, f, indent=1)
    for l in out_lines:
        print(l)
    log("%s tier=%s proofs=%s/%s evals=%d ops=%d disagreements=%d monitor_failures=%d wall=%.1fs" % (
        prop, tier, discharged, len(obligations), total_eval, total_ops, len(corr_broken), len(impl_fail), wall))
    return 1 if reported else 0


def setup():
    step_extract()
    mods = sorted({m for s in PROPS.values() for m in s["modules"]})
    rc, broken, lg = lake_build(mods + ["drv"])
    if rc != 0:
        log(lg)
    rcc, cl = cargo_build(sorted({e["name"] for s in PROPS.values() for e in s["engines"]}))
    if rcc != 0:
        log(cl)
    return 1 if (rc or rcc) else 0


def main():
    ap = argparse.ArgumentParser()
    ap.add_argument("prop", nargs="?")
    ap.add_argument("--tier", default=os.environ.get("VERIF_TIER", "quick"))
    ap.add_argument("--replay")
    ap.add_argument("--setup", action="store_true")
    ap.add_argument("--all", action="store_true")
    a = ap.parse_args()
    seed = int(os.environ.get("VERIF_SEED", "20260925"))
    configure_alt()
    if a.setup:
        return setup()
    if a.all:
        rc = 0
        for p in sorted(PROPS):
            rc |= check(p, a.tier, seed)
        return rc
    if a.prop not in PROPS:
        log("unknown property", a.prop)
        return 2
    return check(a.prop, a.tier, seed, a.replay)


if __name__ == "__main__":
    sys.exit(main())

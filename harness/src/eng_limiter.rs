//! limiter engine (ops starting with `l`), property C18.
//!
//! * `lnew/la/lp`: a real `Limiter<u64>` driven with explicit times through the facade.  Next to it
//!   the runner keeps (a) a *shadow* limiter that never sees `lp` (prune must not change any
//!   decision) and (b) an independent ledger of the accepted arrivals per key from which the
//!   window bound (`tokens·t ≤ W + tau` for every window) and "conforming traffic is never
//!   refused" are evaluated directly on the implementation's verdicts.
//! * `lf*`: the real `Filter` (`initial_pass` / `final_pass` / `prune_limiter`) with the global
//!   `PERMIT_BAN_LIST`; quotas are either never or always hit so that the wall clock read by
//!   `RateLimiter::allows` cannot influence a decision.  `lfs` runs the real ban sweep
//!   (`Handler::unban_nodes_check`) by advancing the paused tokio clock of a real `Handler`.
//! * `lr*`: datagrams through the real `RecvHandler::handle_inbound` (exemption short-cut).
#![allow(unused)]
use crate::rng::Rng;
use crate::util::*;
use crate::{Runner, Stats};
use discv5::enr::NodeId;
use discv5::verif::limiter as fx;
use discv5::verif::limiter::{KeyLimiter, PacketFilter, QuotaSpec, RecvOutcome, Verdict, VirtualRecv};
use std::collections::{BTreeMap, BTreeSet, HashMap};
use std::net::{IpAddr, Ipv4Addr, Ipv6Addr, SocketAddr};
use std::time::{Duration, Instant};

const NS: u128 = 1_000_000_000;
const U64: u128 = 1 << 64;

/// Quota that is never hit in a case: burst 10^6, one token per microsecond.
const NEVER: (u64, u128) = (1_000_000, 1_000_000_000);
/// Quota that is hit by every arrival of a key but the first: one token per 10^4 seconds.
const ALWAYS: (u64, u128) = (1, 10_000_000_000_000);
const SHORT_BAN_NS: u128 = 5_000_000;
const LONG_BAN_NS: u128 = 3_600_000_000_000;
/// Two minutes: outlives every case, but ends before the handler's next ban sweep (300 s) is due.
const MID_BAN_NS: u128 = 120_000_000_000;
const SLEEP_MS: u64 = 15;

fn dur(ns: u128) -> Option<Duration> {
    let secs = ns / NS;
    if secs > u64::MAX as u128 {
        return None;
    }
    Some(Duration::new(secs as u64, (ns % NS) as u32))
}

fn ip_of(i: u64) -> IpAddr {
    if i % 7 == 3 {
        // an IPv4-mapped IPv6 address (a different address than the IPv4 one it embeds)
        return IpAddr::V6(Ipv4Addr::new(10, (i >> 16) as u8, (i >> 8) as u8, i as u8).to_ipv6_mapped());
    }
    if i % 5 == 4 {
        IpAddr::V6(Ipv6Addr::new(0xfd00, 0, 0, 0, 0, 0, (i >> 16) as u16, i as u16))
    } else {
        IpAddr::V4(Ipv4Addr::new(10, (i >> 16) as u8, (i >> 8) as u8, i as u8))
    }
}

fn node_of(i: u64) -> NodeId {
    let mut b = [0u8; 32];
    b[0] = 0xa5;
    b[24..].copy_from_slice(&i.to_be_bytes());
    NodeId::new(&b)
}

#[derive(Clone, Copy, PartialEq, Eq, Debug)]
enum QMode {
    Absent,
    Never,
    Always,
    Other,
}

fn qmode(q: &Option<(u64, u128)>) -> QMode {
    match q {
        None => QMode::Absent,
        Some(q) if *q == NEVER => QMode::Never,
        Some(q) if *q == ALWAYS => QMode::Always,
        Some(_) => QMode::Other,
    }
}

#[derive(Clone, Debug)]
struct FCfg {
    enabled: bool,
    /// `None` = no rate limiter at all; otherwise (total, node, ip).
    quotas: Option<[Option<(u64, u128)>; 3]>,
    max_nodes: Option<usize>,
    max_bans: Option<usize>,
    ban: Option<u128>,
}

fn parse_quota(s: &str) -> Option<Option<(u64, u128)>> {
    if s == "x" {
        return Some(None);
    }
    let (a, b) = s.split_once(':')?;
    Some(Some((a.parse().ok()?, b.parse().ok()?)))
}

fn parse_opt<T: std::str::FromStr>(s: &str) -> Option<Option<T>> {
    if s == "x" {
        Some(None)
    } else {
        s.parse().ok().map(Some)
    }
}

fn parse_cfg(en: &str, lim: &str, maxn: &str, maxb: &str, ban: &str) -> Option<FCfg> {
    let quotas = if lim == "x" {
        None
    } else {
        let p: Vec<&str> = lim.split('/').collect();
        if p.len() != 3 {
            return None;
        }
        Some([parse_quota(p[0])?, parse_quota(p[1])?, parse_quota(p[2])?])
    };
    Some(FCfg {
        enabled: en == "1",
        quotas,
        max_nodes: parse_opt(maxn)?,
        max_bans: parse_opt(maxb)?,
        ban: parse_opt(ban)?,
    })
}

fn quota_specs(q: &[Option<(u64, u128)>; 3]) -> Option<(QuotaSpec, QuotaSpec, QuotaSpec)> {
    let f = |q: &Option<(u64, u128)>| -> Option<QuotaSpec> {
        match q {
            None => Some(None),
            Some((n, p)) => Some(Some((*n, dur(*p)?))),
        }
    };
    Some((f(&q[0])?, f(&q[1])?, f(&q[2])?))
}

/// The runner's own account of which keys already used up an always-hit quota.
#[derive(Default)]
struct FLedger {
    seen_ip: BTreeSet<u64>,
    seen_node: BTreeSet<u64>,
    seen_total: bool,
    /// when the previous datagram of a node id was put to the node stage (timed quotas)
    last_node: std::collections::BTreeMap<u64, Instant>,
}

struct Sweeper {
    rt: tokio::runtime::Runtime,
    _handler: Box<dyn std::any::Any>,
}

struct RecvSide {
    rt: tokio::runtime::Runtime,
    recv: VirtualRecv,
}

#[derive(Default)]
pub struct LimiterRunner {
    // --- limiter part
    lim: Option<KeyLimiter>,
    shadow: Option<KeyLimiter>,
    tau: u128,
    t: u128,
    hyp_ok: bool,
    last: u128,
    hist: BTreeMap<u64, Vec<(u128, u128)>>,
    // --- filter part
    cfg: Option<FCfg>,
    filt: Option<PacketFilter>,
    ledger: FLedger,
    ips: BTreeMap<IpAddr, u64>,
    nodes: BTreeMap<[u8; 32], u64>,
    sweeper: Option<Sweeper>,
    recv: Option<RecvSide>,
}

fn barrier_addr() -> SocketAddr {
    SocketAddr::new(IpAddr::V4(Ipv4Addr::new(255, 255, 255, 254)), 1)
}

impl LimiterRunner {
    fn ip(&mut self, i: u64) -> IpAddr {
        let ip = ip_of(i);
        self.ips.insert(ip, i);
        ip
    }

    fn node(&mut self, i: u64) -> NodeId {
        let n = node_of(i);
        self.nodes.insert(n.raw(), i);
        n
    }

    fn snapshot(&self) -> String {
        let s = fx::permit_ban_snapshot();
        let name_ip = |ip: &IpAddr| self.ips.get(ip).map(|i| *i as i128).unwrap_or(-1);
        let name_node = |n: &NodeId| self.nodes.get(&n.raw()).map(|i| *i as i128).unwrap_or(-1);
        let set = |mut v: Vec<i128>| {
            v.sort();
            if v.is_empty() {
                "-".to_string()
            } else {
                v.iter().map(|x| x.to_string()).collect::<Vec<_>>().join(",")
            }
        };
        let map = |mut v: Vec<(i128, bool)>| {
            v.sort();
            if v.is_empty() {
                "-".to_string()
            } else {
                v.iter()
                    .map(|(k, timed)| format!("{}:{}", k, if *timed { "t" } else { "p" }))
                    .collect::<Vec<_>>()
                    .join(",")
            }
        };
        format!(
            "pi={} bi={} pn={} bn={}",
            set(s.permit_ips.iter().map(name_ip).collect()),
            map(s.ban_ips.iter().map(|(k, e)| (name_ip(k), e.is_some())).collect()),
            set(s.permit_nodes.iter().map(name_node).collect()),
            map(s.ban_nodes.iter().map(|(k, e)| (name_node(k), e.is_some())).collect()),
        )
    }

    /// Checks a ban entry created by the filter: present, and not shorter than the configured
    /// duration counted from `before` (a clock reading taken before the call).
    fn ban_entry_ok(entry: Option<Option<Instant>>, before: Instant, ban: Option<u128>) -> bool {
        match (entry, ban) {
            (None, _) => false,
            (Some(None), None) => true,
            (Some(None), Some(_)) => true, // permanent: longer than any duration
            (Some(Some(_)), None) => false,
            (Some(Some(e)), Some(d)) => match dur(d) {
                Some(d) => e >= before + d,
                None => true,
            },
        }
    }

    fn sweep(&mut self) -> bool {
        if self.sweeper.is_none() {
            let rt = match tokio::runtime::Builder::new_current_thread()
                .enable_all()
                .start_paused(true)
                .build()
            {
                Ok(rt) => rt,
                Err(_) => return false,
            };
            let h = rt.block_on(async {
                let h = fx::spawn_sweeping_handler().await;
                for _ in 0..16 {
                    tokio::task::yield_now().await;
                }
                h
            });
            match h {
                Ok(h) => self.sweeper = Some(Sweeper { rt, _handler: h }),
                Err(_) => return false,
            }
        }
        let s = self.sweeper.as_ref().unwrap();
        s.rt.block_on(async {
            tokio::time::advance(Duration::from_secs(fx::SWEEP_PERIOD_SECS + 1)).await;
            for _ in 0..16 {
                tokio::task::yield_now().await;
            }
        });
        true
    }

    fn new_filter(&mut self, cfg: FCfg, behind_recv: bool, out: &mut Vec<String>) {
        fx::permit_ban_reset();
        self.filt = None;
        self.recv = None;
        self.ledger = FLedger::default();
        let specs = match &cfg.quotas {
            None => Some(None),
            Some(q) => quota_specs(q).map(Some),
        };
        let Some(specs) = specs else {
            out.push("err:quota".into());
            return;
        };
        let ban = match cfg.ban {
            None => None,
            Some(d) => match dur(d) {
                Some(d) => Some(d),
                None => {
                    out.push("bad-op".into());
                    return;
                }
            },
        };
        if behind_recv {
            let rt = tokio::runtime::Builder::new_current_thread().enable_all().build().expect("runtime");
            let local = node_of(0xffff_ffff);
            let r = rt.block_on(VirtualRecv::new(cfg.enabled, specs, cfg.max_nodes, cfg.max_bans, ban, local));
            match r {
                Ok(recv) => {
                    recv.expected_responses.write().insert(barrier_addr(), 1);
                    self.recv = Some(RecvSide { rt, recv });
                    self.cfg = Some(cfg);
                    out.push("ok".into());
                }
                Err(_) => out.push("err:quota".into()),
            }
        } else {
            match PacketFilter::new(cfg.enabled, specs, cfg.max_nodes, cfg.max_bans, ban) {
                Ok(f) => {
                    self.filt = Some(f);
                    self.cfg = Some(cfg);
                    out.push("ok".into());
                }
                Err(_) => out.push("err:quota".into()),
            }
        }
    }

    /// Monitors of the IP stage, evaluated from the runner's own reading of the lists before the
    /// call (`permitted`, `banned`) and its ledger.  Returns nothing; pushes `!MON` lines.
    fn monitor_initial(
        &mut self,
        ipi: u64,
        ip: IpAddr,
        permitted: bool,
        banned: bool,
        before: Instant,
        pass: bool,
        out: &mut Vec<String>,
        stats: &mut Stats,
    ) {
        let cfg = self.cfg.clone().unwrap();
        if permitted {
            stats.bump("lf.ip.permitted");
            if !pass {
                out.push(format!("!MON C18 permitted-dropped stage=ip ip={}", ipi));
            }
            return;
        }
        if banned {
            stats.bump("lf.ip.banned");
            if pass {
                out.push(format!("!MON C18 banned-passed stage=ip ip={}", ipi));
            }
            return;
        }
        let Some(q) = cfg.quotas.filter(|_| cfg.enabled) else {
            if !pass {
                out.push(format!("!MON C18 conforming-refused stage=ip ip={} (no limiter in force)", ipi));
            }
            return;
        };
        let (tot, ipq) = (qmode(&q[0]), qmode(&q[2]));
        // per-IP quota
        let ip_excess = match ipq {
            QMode::Always => !self.ledger.seen_ip.insert(ipi),
            QMode::Other => return,
            _ => false,
        };
        if ip_excess {
            stats.bump("lf.ip.excess");
            let entry = fx::permit_ban_snapshot().ban_ips.iter().find(|(k, _)| *k == ip).map(|(_, e)| *e);
            if pass || !Self::ban_entry_ok(entry, before, cfg.ban) {
                out.push(format!("!MON C18 excess-without-ban stage=ip ip={} pass={} entry={:?}", ipi, pass, entry.map(|e| e.is_some())));
            }
            return;
        }
        // total quota
        let tot_excess = match tot {
            QMode::Always => std::mem::replace(&mut self.ledger.seen_total, true),
            QMode::Other => return,
            _ => false,
        };
        if tot_excess {
            stats.bump("lf.total.excess");
            if pass {
                out.push(format!("!MON C18 window-exceeded stage=total ip={}", ipi));
            }
        } else {
            stats.bump("lf.ip.conforming");
            if !pass {
                out.push(format!("!MON C18 conforming-refused stage=ip ip={}", ipi));
            }
        }
    }

    fn monitor_final(
        &mut self,
        ipi: u64,
        ni: u64,
        node: NodeId,
        permitted: bool,
        banned: bool,
        before: Instant,
        pass: bool,
        out: &mut Vec<String>,
        stats: &mut Stats,
    ) {
        let cfg = self.cfg.clone().unwrap();
        if permitted {
            stats.bump("lf.node.permitted");
            if !pass {
                out.push(format!("!MON C18 permitted-dropped stage=node node={}", ni));
            }
            return;
        }
        if banned {
            stats.bump("lf.node.banned");
            if pass {
                out.push(format!("!MON C18 banned-passed stage=node node={}", ni));
            }
            return;
        }
        if !cfg.enabled {
            if !pass {
                out.push(format!("!MON C18 conforming-refused stage=node node={} (filter disabled)", ni));
            }
            return;
        }
        let nq = cfg.quotas.map(|q| qmode(&q[1])).unwrap_or(QMode::Absent);
        let excess = match nq {
            QMode::Always => !self.ledger.seen_node.insert(ni),
            QMode::Other => {
                // a timed quota: a sender whose previous datagram lies at least a whole replenishing period
                // back (or that never sent) has its full allowance - its datagram is within the quota
                let period = cfg.quotas.and_then(|q| q[1]).and_then(|(_, p)| dur(p));
                let prev = self.ledger.last_node.insert(ni, Instant::now());
                let full = match (prev, period) {
                    (None, _) => true,
                    (Some(t), Some(p)) => before.duration_since(t) >= p,
                    _ => false,
                };
                if full && cfg.max_nodes.is_none() {
                    stats.bump("lf.node.timed-conforming");
                    if !pass {
                        out.push(format!("!MON C18 conforming-refused stage=node node={} ip={} (a whole period after its previous datagram)", ni, ipi));
                    }
                }
                return;
            }
            _ => false,
        };
        if excess {
            stats.bump("lf.node.excess");
            let entry = fx::permit_ban_snapshot().ban_nodes.iter().find(|(k, _)| *k == node).map(|(_, e)| *e);
            if pass || !Self::ban_entry_ok(entry, before, cfg.ban) {
                out.push(format!("!MON C18 excess-without-ban stage=node node={} pass={} entry={:?}", ni, pass, entry.map(|e| e.is_some())));
            }
        } else if cfg.max_nodes.is_none() {
            stats.bump("lf.node.conforming");
            if !pass {
                out.push(format!("!MON C18 conforming-refused stage=node node={} ip={}", ni, ipi));
            }
        }
    }
}

impl Runner for LimiterRunner {
    fn reset(&mut self) {
        self.lim = None;
        self.shadow = None;
        self.hist.clear();
        self.hyp_ok = true;
        self.last = 0;
        self.cfg = None;
        self.filt = None;
        self.recv = None;
        self.ledger = FLedger::default();
        self.ips.clear();
        self.nodes.clear();
        fx::permit_ban_reset();
    }

    fn step(&mut self, line: &str, out: &mut Vec<String>, stats: &mut Stats) {
        let tk: Vec<&str> = line.split(' ').collect();
        match tk.as_slice() {
            // ------------------------------------------------------------------ Limiter
            ["lnew", n, period] => {
                let (Ok(n), Ok(period)) = (n.parse::<u64>(), period.parse::<u128>()) else {
                    out.push("bad-op".into());
                    return;
                };
                let Some(d) = dur(period) else {
                    out.push("bad-op".into());
                    return;
                };
                self.hist.clear();
                self.hyp_ok = true;
                self.last = 0;
                match no_panic(move || KeyLimiter::from_quota(n, d)) {
                    None => {
                        self.lim = None;
                        out.push("panic".into());
                    }
                    Some(Err(_)) => {
                        self.lim = None;
                        self.shadow = None;
                        stats.bump("lnew.err");
                        out.push("err:quota".into());
                    }
                    Some(Ok(l)) => {
                        let (tau, t) = l.params();
                        // the runner's own reading of the quota: one token per floor(period / n)
                        self.tau = period;
                        self.t = period / n as u128;
                        if t == 0 {
                            stats.bump("lnew.t-zero");
                        } else if (t as u128) * (n as u128) != tau as u128 {
                            stats.bump("lnew.rounded");
                        } else {
                            stats.bump("lnew.exact");
                        }
                        self.shadow = Some(l.clone());
                        self.lim = Some(l);
                        out.push(format!("ok tau={} t={}", tau, t));
                    }
                }
            }
            ["la", ns, key, tokens] => {
                let (Ok(ns), Ok(key), Ok(tokens)) = (ns.parse::<u128>(), key.parse::<u64>(), tokens.parse::<u64>())
                else {
                    out.push("bad-op".into());
                    return;
                };
                if dur(ns).is_none() {
                    return out.push("bad-op".into());
                }
                let (Some(d), Some(mut l), Some(mut sh)) = (dur(ns), self.lim.take(), self.shadow.take()) else {
                    out.push("bad-op".into());
                    return;
                };
                let r = no_panic(move || {
                    let v = l.allows(d, key, tokens);
                    (l, v)
                });
                let rs = no_panic(move || {
                    let v = sh.allows(d, key, tokens);
                    (sh, v)
                });
                let (Some((l, v)), Some((sh, vs))) = (r, rs) else {
                    out.push("!MON C18 limiter-panic".into());
                    out.push("panic".into());
                    return;
                };
                // hypotheses of the theorems: monotone times, no u64 overflow in reach
                if ns < self.last || ns + 2 * self.tau >= U64 || self.t * tokens as u128 >= U64 {
                    self.hyp_ok = false;
                }
                self.last = self.last.max(ns);
                let k = tokens as u128;
                if self.hyp_ok {
                    stats.bump("la.mon");
                    if v != vs {
                        out.push(format!("!MON C18 prune-changed-decision key={} with-prune={:?} without={:?}", key, v, vs));
                    }
                    // independent window account: S_i = tokens of accepted arrivals i..newest
                    let h = self.hist.entry(key).or_default();
                    let mut fits = k * self.t <= self.tau;
                    let mut worst = None;
                    let mut s = k;
                    for (a, kk) in h.iter().rev() {
                        s += kk;
                        if s * self.t > (ns - a) + self.tau {
                            fits = false;
                            worst = Some((s, ns - a));
                        }
                    }
                    match v {
                        Verdict::Ok => {
                            stats.bump("la.ok");
                            if !fits {
                                let (s, w) = worst.unwrap_or((k, 0));
                                out.push(format!(
                                    "!MON C18 window-exceeded key={} tokens={} window={} tau={} t={}",
                                    key, s, w, self.tau, self.t
                                ));
                            }
                            h.push((ns, k));
                        }
                        Verdict::TooLarge | Verdict::TooSoon(_) => {
                            stats.bump(if v == Verdict::TooLarge { "la.large" } else { "la.soon" });
                            if fits {
                                out.push(format!("!MON C18 conforming-refused key={} ns={} tokens={}", key, ns, k));
                            }
                        }
                    }
                } else {
                    stats.bump("la.wild");
                }
                let dump = l.dump();
                let tat = dump.iter().find(|(kk, _)| *kk == key).map(|(_, t)| t.to_string()).unwrap_or("-".into());
                let vtxt = match v {
                    Verdict::Ok => "ok".to_string(),
                    Verdict::TooLarge => "large".to_string(),
                    Verdict::TooSoon(w) => format!("soon:{}", w),
                };
                out.push(format!("{} tat={} n={}", vtxt, tat, dump.len()));
                self.lim = Some(l);
                self.shadow = Some(sh);
            }
            ["lp", ns] => {
                let Ok(ns) = ns.parse::<u128>() else {
                    out.push("bad-op".into());
                    return;
                };
                if dur(ns).is_none() {
                    return out.push("bad-op".into());
                }
                let (Some(d), Some(mut l)) = (dur(ns), self.lim.take()) else {
                    out.push("bad-op".into());
                    return;
                };
                let Some(l) = no_panic(move || {
                    l.prune(d);
                    l
                }) else {
                    out.push("!MON C18 limiter-panic".into());
                    out.push("panic".into());
                    return;
                };
                if ns < self.last || ns >= U64 {
                    self.hyp_ok = false;
                }
                self.last = self.last.max(ns);
                let dump = l.dump();
                if self.shadow.as_ref().map(|s| s.dump().len()).unwrap_or(0) > dump.len() {
                    stats.bump("lp.removed");
                }
                let body = if dump.is_empty() {
                    "-".to_string()
                } else {
                    dump.iter().map(|(k, t)| format!("{}:{}", k, t)).collect::<Vec<_>>().join(",")
                };
                out.push(format!("n={} {}", dump.len(), body));
                self.lim = Some(l);
            }
            // ------------------------------------------------------------------ Filter
            ["lfnew", en, lim, maxn, maxb, ban] | ["lrnew", en, lim, maxn, maxb, ban] => {
                let Some(cfg) = parse_cfg(en, lim, maxn, maxb, ban) else {
                    out.push("bad-op".into());
                    return;
                };
                let behind = tk[0] == "lrnew";
                stats.bump(if behind { "lrnew" } else { "lfnew" });
                self.new_filter(cfg, behind, out);
            }
            ["lfpi", ip] => {
                let Ok(i) = ip.parse::<u64>() else { return out.push("bad-op".into()) };
                let ip = self.ip(i);
                fx::permit_ip(ip);
                out.push(self.snapshot());
            }
            ["lfpn", node] => {
                let Ok(i) = node.parse::<u64>() else { return out.push("bad-op".into()) };
                let n = self.node(i);
                fx::permit_node(n);
                out.push(self.snapshot());
            }
            ["lfbi", _now, ip, d] => {
                let (Ok(i), Some(d)) = (ip.parse::<u64>(), parse_opt::<u128>(d)) else {
                    return out.push("bad-op".into());
                };
                let ip = self.ip(i);
                fx::ban_ip(ip, d.and_then(dur));
                out.push(self.snapshot());
            }
            ["lfbn", _now, node, d] => {
                let (Ok(i), Some(d)) = (node.parse::<u64>(), parse_opt::<u128>(d)) else {
                    return out.push("bad-op".into());
                };
                let n = self.node(i);
                fx::ban_node(n, d.and_then(dur));
                out.push(self.snapshot());
            }
            ["lfi", _now, ip] => {
                let Ok(i) = ip.parse::<u64>() else { return out.push("bad-op".into()) };
                let ip = self.ip(i);
                let Some(mut f) = self.filt.take() else { return out.push("bad-op".into()) };
                let snap = fx::permit_ban_snapshot();
                let permitted = snap.permit_ips.contains(&ip);
                let banned = snap.ban_ips.iter().any(|(k, _)| *k == ip);
                let before = Instant::now();
                let src = SocketAddr::new(ip, 30303);
                let r = no_panic(std::panic::AssertUnwindSafe(move || {
                    let p = f.initial_pass(&src);
                    (f, p)
                }));
                let Some((f, pass)) = r else {
                    out.push("!MON C18 filter-panic".into());
                    return out.push("panic".into());
                };
                self.filt = Some(f);
                stats.bump(if pass { "lfi.pass" } else { "lfi.drop" });
                self.monitor_initial(i, ip, permitted, banned, before, pass, out, stats);
                out.push(format!("{} {}", if pass { "pass" } else { "drop" }, self.snapshot()));
            }
            ["lff", _now, ip, node] => {
                let (Ok(i), Ok(ni)) = (ip.parse::<u64>(), node.parse::<u64>()) else {
                    return out.push("bad-op".into());
                };
                let ip = self.ip(i);
                let node = self.node(ni);
                let Some(mut f) = self.filt.take() else { return out.push("bad-op".into()) };
                let snap = fx::permit_ban_snapshot();
                let permitted = snap.permit_nodes.contains(&node);
                let banned = snap.ban_nodes.iter().any(|(k, _)| *k == node);
                let before = Instant::now();
                let src = SocketAddr::new(ip, 30303);
                let r = no_panic(std::panic::AssertUnwindSafe(move || {
                    let p = f.final_pass(src, node);
                    (f, p)
                }));
                let Some((f, pass)) = r else {
                    out.push("!MON C18 filter-panic".into());
                    return out.push("panic".into());
                };
                self.filt = Some(f);
                stats.bump(if pass { "lff.pass" } else { "lff.drop" });
                self.monitor_final(i, ni, node, permitted, banned, before, pass, out, stats);
                out.push(format!("{} {}", if pass { "pass" } else { "drop" }, self.snapshot()));
            }
            ["lfp", _now] => {
                let Some(mut f) = self.filt.take() else { return out.push("bad-op".into()) };
                let r = no_panic(std::panic::AssertUnwindSafe(move || {
                    f.prune_limiter();
                    f
                }));
                match r {
                    Some(f) => {
                        self.filt = Some(f);
                        stats.bump("lfp");
                        out.push("ok".into());
                    }
                    None => {
                        out.push("!MON C18 filter-panic".into());
                        out.push("panic".into());
                    }
                }
            }
            ["lfz", _now, ms] => {
                let Ok(ms) = ms.parse::<u64>() else { return out.push("bad-op".into()) };
                std::thread::sleep(Duration::from_millis(ms.min(200)));
                stats.bump("lfz");
                out.push("ok".into());
            }
            ["lfs", _now] => {
                // the sweep may only remove bans whose expiry has passed
                let before = fx::permit_ban_snapshot();
                let t0 = Instant::now();
                if !self.sweep() {
                    return out.push("err:sweeper".into());
                }
                let t1 = Instant::now();
                let after = fx::permit_ban_snapshot();
                for (k, e) in &before.ban_ips {
                    let still = after.ban_ips.iter().any(|(k2, _)| k2 == k);
                    let live = e.map(|e| e > t1).unwrap_or(true);
                    let expired = e.map(|e| e <= t0).unwrap_or(false);
                    if live && !still {
                        out.push(format!("!MON C18 sweep-removed-live-ban ip={}", self.ips.get(k).copied().unwrap_or(0)));
                    }
                    if expired && still {
                        out.push(format!("!MON C18 sweep-kept-expired-ban ip={}", self.ips.get(k).copied().unwrap_or(0)));
                    }
                    if !still {
                        stats.bump("lfs.unbanned");
                    }
                }
                for (k, e) in &before.ban_nodes {
                    let still = after.ban_nodes.iter().any(|(k2, _)| k2 == k);
                    let live = e.map(|e| e > t1).unwrap_or(true);
                    let expired = e.map(|e| e <= t0).unwrap_or(false);
                    if live && !still {
                        out.push(format!("!MON C18 sweep-removed-live-ban node={}", self.nodes.get(&k.raw()).copied().unwrap_or(0)));
                    }
                    if expired && still {
                        out.push(format!("!MON C18 sweep-kept-expired-ban node={}", self.nodes.get(&k.raw()).copied().unwrap_or(0)));
                    }
                    if !still {
                        stats.bump("lfs.unbanned");
                    }
                }
                stats.bump("lfs");
                out.push(self.snapshot());
            }
            // ------------------------------------------------------------------ receive path
            ["lrx", ip, port] | ["lry", ip, port] => {
                let (Ok(i), Ok(port)) = (ip.parse::<u64>(), port.parse::<u16>()) else {
                    return out.push("bad-op".into());
                };
                let ip = self.ip(i);
                let Some(r) = self.recv.as_ref() else { return out.push("bad-op".into()) };
                let addr = SocketAddr::new(ip, port);
                if tk[0] == "lrx" {
                    r.recv.expected_responses.write().insert(addr, 1);
                } else {
                    r.recv.expected_responses.write().remove(&addr);
                }
                out.push("ok".into());
            }
            ["lrin", _now, ip, port, kind, node] => {
                let (Ok(i), Ok(port), Ok(ni)) = (ip.parse::<u64>(), port.parse::<u16>(), node.parse::<u64>()) else {
                    return out.push("bad-op".into());
                };
                let ip = self.ip(i);
                let node = if *kind == "m" || *kind == "h" { self.node(ni) } else { node_of(ni) };
                let Some(r) = self.recv.as_mut() else { return out.push("bad-op".into()) };
                let addr = SocketAddr::new(ip, port);
                let data = match *kind {
                    "g" => vec![0x5a; 80],
                    "w" => r.recv.whoareyou_datagram(),
                    "m" => r.recv.message_datagram(node),
                    // a handshake packet names its sender too: the node stage applies to it alike
                    "h" => r.recv.handshake_datagram(node),
                    _ => return out.push("bad-op".into()),
                };
                let exempt = r.recv.expected_responses.read().contains_key(&addr);
                let snap = fx::permit_ban_snapshot();
                let ip_permit = snap.permit_ips.contains(&ip);
                let ip_ban = snap.ban_ips.iter().any(|(k, _)| *k == ip);
                let n_permit = snap.permit_nodes.contains(&node);
                let n_ban = snap.ban_nodes.iter().any(|(k, _)| *k == node);
                // (the harness treats both kinds that carry a source id as one)
                let kind: &&str = if *kind == "h" { &"m" } else { kind };
                let RecvSide { rt, recv } = r;
                // (no barrier datagram: nothing but the datagram under test passes through the receive path,
                // so whatever it remembers from one datagram to the next stays as the script left it)
                let Some((o, reported)) = rt.block_on(recv.deliver_quiet(addr, data, 24)) else {
                    out.push("!MON C18 recv-handler-stopped".into());
                    return out.push("panic".into());
                };
                // what is handed on is attributed to the address the datagram came from
                if let Some(rs) = reported {
                    if rs != addr {
                        out.push(format!("!MON C02 inbound-datagram-attributed-to-another-source from={} reported={}", addr, rs));
                        out.push(format!("!MON C18 inbound-datagram-attributed-to-another-source from={} reported={}", addr, rs));
                    }
                }
                // C13: an exemption is for one socket address; a datagram from a banned host passes only
                // on an exemption of its own socket
                {
                    let other_port_exempt = recv.expected_responses.read().keys().any(|k| k.ip() == addr.ip() && *k != addr);
                    if !exempt && other_port_exempt && ip_ban && !ip_permit && o != RecvOutcome::Dropped {
                        out.push(format!("!MON C13 datagram-passed-on-the-exemption-of-another-socket ip={} port={}", i, port));
                    }
                    if exempt && o == RecvOutcome::Dropped {
                        out.push(format!("!MON C13 awaited-datagram-dropped ip={} port={}", i, port));
                    }
                }
                let expect_kind = match *kind {
                    "g" => RecvOutcome::Unrecognized,
                    _ => RecvOutcome::Inbound,
                };
                if exempt {
                    stats.bump("lrin.exempt");
                    if o != expect_kind {
                        out.push(format!("!MON C18 exempt-dropped ip={} port={} got={:?}", i, port, o));
                    }
                    // an awaited answer is not unsolicited traffic: it is not charged to any quota, so
                    // it cannot get its sender banned
                    let after = fx::permit_ban_snapshot();
                    let new_ip_ban = !ip_ban && after.ban_ips.iter().any(|(k, _)| *k == ip);
                    let new_node_ban = *kind == "m" && !n_ban && after.ban_nodes.iter().any(|(k, _)| *k == node);
                    if new_ip_ban || new_node_ban {
                        out.push(format!("!MON C18 exempt-datagram-got-sender-banned ip={} node={}", i, ni));
                    }
                } else if ip_permit && (*kind != "m" || n_permit) {
                    stats.bump("lrin.permitted");
                    if o != expect_kind {
                        out.push(format!("!MON C18 permitted-dropped stage=recv ip={} got={:?}", i, o));
                    }
                } else if (ip_ban && !ip_permit) || (*kind == "m" && n_ban && !n_permit) {
                    stats.bump("lrin.banned");
                    if o != RecvOutcome::Dropped {
                        out.push(format!("!MON C18 banned-passed stage=recv ip={} node={} got={:?}", i, ni, o));
                    }
                } else {
                    stats.bump("lrin.other");
                }
                let otxt = match o {
                    RecvOutcome::Dropped => "dropped",
                    RecvOutcome::Unrecognized => "unrec",
                    RecvOutcome::Inbound => "inbound",
                };
                out.push(format!("{} {}", otxt, self.snapshot()));
            }
            _ => out.push("bad-op".into()),
        }
    }
}

// ================================================================================ generator

fn quota_txt(q: Option<(u64, u128)>) -> String {
    match q {
        None => "x".into(),
        Some((n, p)) => format!("{}:{}", n, p),
    }
}

/// A bound for `Rng::below` derived from a (possibly huge) duration.
fn cap(x: u128) -> u64 {
    x.clamp(2, 1 << 50) as u64
}

/// Thousands of distinct senders inside one replenish period: every one of them is within its quota.
fn gen_many_keys_case(rng: &mut Rng, stats: &mut Stats) -> Vec<String> {
    stats.bump("gen.lim.many-keys");
    let n = rng.range(1, 8);
    let period = 60 * NS;
    let mut ops = vec![format!("lnew {} {}", n, period)];
    let keys = rng.range(4200, 5200);
    let mut now: u128 = rng.below(1 << 30) as u128;
    for k in 0..keys {
        now += rng.below(1000) as u128;
        ops.push(format!("la {} {} 1", now, 1000 + k));
        if rng.chance(1, 400) {
            ops.push(format!("lp {}", now));
        }
    }
    // the late-comers again, and a burst of one of them up to its quota
    let k = 1000 + keys - 1;
    for _ in 0..n + 1 {
        now += rng.below(1000) as u128;
        ops.push(format!("la {} {} 1", now, k));
    }
    ops
}

fn gen_limiter_case(rng: &mut Rng, thorough: bool, stats: &mut Stats) -> Vec<String> {
    if rng.chance(1, 50) {
        return gen_many_keys_case(rng, stats);
    }
    let mut ops = Vec::new();
    // ---- quota
    let n: u64 = match rng.below(12) {
        0 => 1,
        1 => 2,
        2 => 3,
        3 => 4,
        4 => 5,
        5 => 8,
        6 => 10,
        7 => 16,
        8 => 100,
        _ => rng.range(1, 50),
    };
    let mut period: u128 = match rng.below(14) {
        0 => 1_000_000,
        1 => NS,
        2 => 2 * NS,
        3 => 10_000_000,
        4 => 7,
        5 => 10,
        6 => (n as u128) * rng.range(1, 1000) as u128,             // exact multiple
        7 => (n as u128) * rng.range(1, 1000) as u128 + rng.below(n) as u128, // rounded
        8 => rng.range(1, 60) as u128,                             // may be < n (t = 0)
        9 => rng.range(1, 5_000_000_000) as u128,
        10 => (n as u128) * rng.range(1, 100_000) as u128,
        11 => 1000,
        12 => 60 * NS,
        _ => rng.range(1, 1_000_000) as u128,
    };
    let mut nq = n;
    let wild = rng.chance(1, 5);
    if wild {
        match rng.below(10) {
            0 => nq = 0,
            1 => period = 0,
            2 => period = U64,
            3 => period = U64 - 1,
            4 => period = (1u128 << 63) + rng.below(10) as u128,
            5 => period = U64 * (n as u128) + rng.below(5) as u128,
            6 => period = (1u128 << 62) - rng.below(3) as u128,
            _ => {}
        }
    }
    ops.push(format!("lnew {} {}", nq, period));
    stats.bump(if wild { "gen.lim.wild" } else { "gen.lim.mono" });
    if nq == 0 || period == 0 || period >= U64 {
        // `from_quota` refuses; one arrival shows that nothing was built
        ops.push("la 5 0 1".to_string());
        return ops;
    }
    let tau = period;
    let t = period / nq as u128;
    // ---- arrivals
    let nkeys = rng.range(1, 4);
    let base: u128 = if wild {
        match rng.below(6) {
            0 => (1u128 << 62) - rng.below(1000) as u128,
            1 => (1u128 << 63) - rng.below(1000) as u128,
            2 => U64 - 1 - rng.below(cap(3 * t) + 5) as u128,
            3 => U64 + rng.below(1000) as u128,
            4 => (U64 - 1).saturating_sub(2 * tau + rng.below(50) as u128),
            _ => rng.below(1 << 40) as u128,
        }
    } else {
        match rng.below(4) {
            0 => 0,
            1 => rng.below(1000) as u128,
            2 => rng.below(1 << 40) as u128,
            _ => (1u128 << 61) + rng.below(1 << 30) as u128,
        }
    };
    let mut now = base;
    // textbook GCRA per key, only used to aim arrivals at the acceptance boundary
    let mut guess: BTreeMap<u64, u128> = BTreeMap::new();
    let total = if thorough { rng.range(60, 140) } else { rng.range(80, 110) };
    let mut pattern = rng.below(7);
    let mut left_in_pattern = rng.range(3, 25);
    for _ in 0..total {
        if left_in_pattern == 0 {
            pattern = rng.below(7);
            left_in_pattern = rng.range(3, 25);
        }
        left_in_pattern -= 1;
        let key = if rng.chance(3, 4) { 0 } else { rng.below(nkeys) };
        let tokens: u64 = if rng.chance(9, 10) {
            1
        } else {
            match rng.below(if wild { 8 } else { 5 }) {
                0 => 0,
                1 => 2,
                2 => nq,
                3 => nq + 1,
                4 => rng.range(1, nq.max(1)),
                5 => u64::MAX,
                6 => ((U64 / t.max(1)) as u64).wrapping_add(rng.below(3)),
                _ => rng.next(),
            }
        };
        let g = *guess.get(&key).unwrap_or(&0);
        let need = (g + t * tokens as u128).saturating_sub(tau); // earliest acceptable time
        let step: u128 = match pattern {
            0 => 0,                                            // burst
            1 => t,                                            // exactly at the rate
            2 => t.saturating_sub(1),                          // just above the rate
            3 => t + 1,                                        // just below the rate
            4 => rng.below(cap(2 * t)) as u128,
            5 => need.saturating_sub(now),                     // exactly the earliest time
            _ => need.saturating_sub(now).saturating_sub(1),   // one ns too early
        };
        let mut at = now + step;
        if at >= 4 * U64 {
            at = now; // aimed beyond what a `Duration` in the op can usefully express
        }
        if wild && rng.chance(1, 10) {
            at = now.saturating_sub(rng.below(1000) as u128); // non-monotone
        }
        now = now.max(at);
        ops.push(format!("la {} {} {}", at, key, tokens));
        // aim update (ideal arithmetic; the verdict itself is never predicted here)
        let add = t * tokens as u128;
        if add <= tau && at + tau >= g + add {
            guess.insert(key, at.max(g) + add);
        }
        if rng.chance(1, 8) {
            let lim = if wild && rng.chance(1, 4) {
                now + rng.below(cap(3 * tau)) as u128
            } else if rng.chance(1, 2) {
                now
            } else {
                // idle for a while, then prune: removes entries whose bucket is full again
                now += rng.below(cap(3 * tau)) as u128;
                now
            };
            ops.push(format!("lp {}", lim));
        }
    }
    ops
}

fn gen_filter_cfg(rng: &mut Rng) -> (String, bool, FCfg) {
    let enabled = rng.chance(9, 10);
    let pick = |rng: &mut Rng, absent_ok: bool| -> Option<(u64, u128)> {
        match rng.below(if absent_ok { 3 } else { 2 }) {
            0 => Some(ALWAYS),
            1 => Some(NEVER),
            _ => None,
        }
    };
    let quotas = if rng.chance(1, 10) {
        None
    } else {
        let tot = if rng.chance(1, 6) { Some(ALWAYS) } else { Some(NEVER) };
        Some([tot, pick(rng, true), pick(rng, true)])
    };
    let max_nodes = match rng.below(4) {
        0 => None,
        1 => Some(2),
        2 => Some(3),
        _ => Some(10),
    };
    let max_bans = match rng.below(4) {
        0 => None,
        1 => Some(1),
        2 => Some(2),
        _ => Some(5),
    };
    let ban = match rng.below(4) {
        0 => None,
        1 => Some(SHORT_BAN_NS),
        2 => Some(MID_BAN_NS),
        _ => Some(LONG_BAN_NS),
    };
    let lim = match &quotas {
        None => "x".to_string(),
        Some(q) => format!("{}/{}/{}", quota_txt(q[0]), quota_txt(q[1]), quota_txt(q[2])),
    };
    let txt = format!(
        "{} {} {} {} {}",
        if enabled { 1 } else { 0 },
        lim,
        max_nodes.map(|x| x.to_string()).unwrap_or("x".into()),
        max_bans.map(|x| x.to_string()).unwrap_or("x".into()),
        ban.map(|x| x.to_string()).unwrap_or("x".into())
    );
    let short = ban == Some(SHORT_BAN_NS);
    (txt, short, FCfg { enabled, quotas, max_nodes, max_bans, ban })
}

/// Seeds the permit/ban lists. Returns whether a short (expiring) ban was used.
fn gen_seed_lists(rng: &mut Rng, ops: &mut Vec<String>, now: u128, nips: u64, nnodes: u64) -> bool {
    let mut short = false;
    let mut d = |rng: &mut Rng, short: &mut bool| match rng.below(4) {
        0 => "x".to_string(),
        1 => {
            *short = true;
            SHORT_BAN_NS.to_string()
        }
        2 => MID_BAN_NS.to_string(),
        _ => LONG_BAN_NS.to_string(),
    };
    for _ in 0..rng.below(4) {
        match rng.below(4) {
            0 => ops.push(format!("lfpi {}", rng.below(nips))),
            1 => ops.push(format!("lfpn {}", rng.below(nnodes))),
            2 => {
                let dd = d(rng, &mut short);
                ops.push(format!("lfbi {} {} {}", now, rng.below(nips), dd))
            }
            _ => {
                let dd = d(rng, &mut short);
                ops.push(format!("lfbn {} {} {}", now, rng.below(nnodes), dd))
            }
        }
    }
    short
}

fn gen_filter_case(rng: &mut Rng, thorough: bool, stats: &mut Stats) -> Vec<String> {
    let mut ops = Vec::new();
    let (cfg_txt, mut short, cfg) = gen_filter_cfg(rng);
    ops.push(format!("lfnew {}", cfg_txt));
    stats.bump("gen.filter");
    let mut now: u128 = rng.below(1000) as u128;
    let many = rng.chance(1, 12);
    let (nips, nnodes) = if many { (60, 120) } else { (rng.range(1, 5), rng.range(1, 8)) };
    short |= gen_seed_lists(rng, &mut ops, now, nips, nnodes);
    if many {
        // more IPs with banned nodes than the per-IP ban counter cache holds
        stats.bump("gen.filter.many");
        for i in 0..nips {
            ops.push(format!("lff {} {} {}", now, i, i));
            ops.push(format!("lff {} {} {}", now, i, i));
        }
        for i in 0..3 {
            ops.push(format!("lff {} {} {}", now, i, 60 + i));
            ops.push(format!("lff {} {} {}", now, i, 60 + i));
            ops.push(format!("lfi {} {}", now, i));
        }
        return ops;
    }
    if rng.chance(1, 10) {
        // directed: a timed per-node quota (2 per 60 ms); one sender, each datagram a whole period after
        // the one before - from a permitted address (exempt from the address stage only), from an
        // ordinary one, with or without other traffic in between
        stats.bump("gen.filter.timed-node-quota");
        ops.clear();
        ops.push(format!("lfnew 1 {}/2:60000000/{} x x {}", quota_txt(Some(NEVER)), quota_txt(Some(NEVER)), LONG_BAN_NS));
        let permitted = rng.chance(2, 3);
        if permitted {
            ops.push("lfpi 0".into());
        }
        let other = rng.chance(1, 3);
        for _ in 0..rng.range(4, 7) {
            ops.push(format!("lfi {} 0", now));
            ops.push(format!("lff {} 0 0", now));
            if other {
                ops.push(format!("lfi {} 1", now));
                ops.push(format!("lff {} 1 1", now));
            }
            ops.push(format!("lfz {} 80", now));
            now += 80_000_000;
        }
        return ops;
    }
    let total = if thorough { rng.range(20, 70) } else { rng.range(25, 45) };
    for _ in 0..total {
        match rng.below(20) {
            0..=7 => ops.push(format!("lfi {} {}", now, rng.below(nips))),
            8..=15 => {
                // a node mostly keeps its IP; sometimes many ids share one IP
                let node = rng.below(nnodes);
                let ip = if rng.chance(3, 4) { node % nips } else { rng.below(nips) };
                ops.push(format!("lff {} {} {}", now, ip, node));
            }
            16 => ops.push(format!("lfp {}", now)),
            17 => {
                short |= gen_seed_lists(rng, &mut ops, now, nips, nnodes);
            }
            _ => {
                if short {
                    // expiring bans around: the sweep directly follows a sleep that outlasts them
                    ops.push(format!("lfz {} {}", now, SLEEP_MS));
                    now += SLEEP_MS as u128 * 1_000_000;
                }
                ops.push(format!("lfs {}", now));
            }
        }
    }
    ops
}

fn gen_recv_case(rng: &mut Rng, thorough: bool, stats: &mut Stats) -> Vec<String> {
    let mut ops = Vec::new();
    let (cfg_txt, mut short, _cfg) = gen_filter_cfg(rng);
    ops.push(format!("lrnew {}", cfg_txt));
    stats.bump("gen.recv");
    let mut now: u128 = rng.below(1000) as u128;
    let (nips, nnodes) = (rng.range(1, 4), rng.range(1, 6));
    short |= gen_seed_lists(rng, &mut ops, now, nips, nnodes);
    if rng.chance(1, 3) {
        // directed: a host is banned, an answer is awaited from one of its ports, and datagrams arrive
        // from that port (pass) and from another port of the same host (refused)
        stats.bump("gen.recv.directed-exempt-port-vs-banned-host");
        let ip = rng.below(nips);
        ops.push(format!("lfbi {} {} {}", now, ip, LONG_BAN_NS));
        ops.push(format!("lrx {} 1000", ip));
        for _ in 0..rng.range(2, 4) {
            let kind = *rng.pick(&["g", "w", "m", "h"]);
            ops.push(format!("lrin {} {} {} {} {}", now, ip, 1000 + rng.below(2), kind, rng.below(nnodes)));
        }
        ops.push(format!("lrin {} {} 1001 m {}", now, ip, rng.below(nnodes)));
        if rng.chance(1, 2) {
            // ... then what was awaited has arrived (or was given up): the very next datagrams from that
            // port are refused again
            stats.bump("gen.recv.directed-exemption-released-then-same-source");
            ops.push(format!("lrin {} {} 1000 m {}", now, ip, rng.below(nnodes)));
            ops.push(format!("lry {} 1000", ip));
            for _ in 0..rng.range(1, 3) {
                let kind = *rng.pick(&["g", "w", "m", "h"]);
                ops.push(format!("lrin {} {} 1000 {} {}", now, ip, kind, rng.below(nnodes)));
            }
        }
    }
    let total = if thorough { rng.range(15, 50) } else { rng.range(15, 30) };
    for _ in 0..total {
        let ip = rng.below(nips);
        let port = 1000 + rng.below(2);
        match rng.below(20) {
            0..=2 => ops.push(format!("lrx {} {}", ip, port)),
            3 => ops.push(format!("lry {} {}", ip, port)),
            4..=16 => {
                let kind = *rng.pick(&["g", "w", "m", "m", "h"]);
                let node = rng.below(nnodes);
                ops.push(format!("lrin {} {} {} {} {}", now, ip, port, kind, node));
            }
            17 => {
                short |= gen_seed_lists(rng, &mut ops, now, nips, nnodes);
            }
            _ => {
                if short {
                    ops.push(format!("lfz {} {}", now, SLEEP_MS));
                    now += SLEEP_MS as u128 * 1_000_000;
                }
                ops.push(format!("lfs {}", now));
            }
        }
    }
    ops
}

pub fn gen_case(rng: &mut Rng, tier: &str, profile: &str, stats: &mut Stats) -> Vec<String> {
    let thorough = tier == "thorough";
    if profile == "C13" || profile == "C02" {
        // the receive path only (exemptions, attribution of what is handed on)
        return gen_recv_case(rng, thorough, stats);
    }
    match rng.below(20) {
        0..=13 => gen_limiter_case(rng, thorough, stats),
        14..=17 => gen_filter_case(rng, thorough, stats),
        _ => gen_recv_case(rng, thorough, stats),
    }
}

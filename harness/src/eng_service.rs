//! service engine (ops starting with `s`): C11 (NODES validation / bans / packet accounting),
//! C12 (routing-table admission and update policy), C14 (served FINDNODE / PING answers),
//! C17 (service half of the IP vote) against the real `Service` started with
//! `Discv5::start_scripted()`: the harness plays the handler.
//!
//! Script vocabulary (X, Y = instance letters):
//!   snew X KEY SEQ SHAPE PAD MODE FILTER MAXN MAXIN ENRUPD   start an instance
//!   sadd X REC | sest X REC ADDR i|o | srm X PEER | sunverifiable X REC
//!   sreq X PEER ADDR RID ping SEQ | findnode D,D,.. | talk PROTO PAYLOAD     request from a peer
//!   sresp X REF SRC nodes TOTAL ITEMS | pong SEQ ADDR | talk PAYLOAD         answer to a request X emitted
//!   sfail X REF | squery X TARGET | sapi X ping REC | findnode REC DS | talk REC PROTO PAYLOAD
//!   shonest X REF Y         deliver X's FINDNODE to instance Y, feed Y's NODES packets back
//!   stable X | sbans | slocal X
//! REC = k<seed>:<seq>:<shape>:<pad>; REF = #<n> | #q | #e | #p | #c | #l | #d.
#![allow(unused)]
use crate::rng::Rng;
use crate::util::*;
use crate::{Runner, Stats};
use discv5::enr::{CombinedKey, EnrKey, NodeId};
use discv5::verif::service::{
    ban_reset, ban_take, response_encode, whoareyou_ref, HandlerIn, HandlerOut, Request, RequestBody, RequestId, Response,
    ResponseBody,
};
use discv5::{
    ConfigBuilder, ConnectionDirection, Discv5, Enr, Event, IpMode, ListenConfig, NodeAddress, NodeContact,
    RequestError, TalkRequest,
};
use std::cell::RefCell;
use std::collections::{BTreeMap, BTreeSet, HashMap, HashSet};
use std::net::{IpAddr, Ipv4Addr, Ipv6Addr, SocketAddr};
use std::num::NonZeroU16;
use std::time::Duration;
use tokio::sync::mpsc;

// ------------------------------------------------------------------------------------------------
// keys, records, canonical forms

thread_local! {
    static KEY_IDS: RefCell<HashMap<u64, [u8; 32]>> = RefCell::new(HashMap::new());
    static REC_CACHE: RefCell<HashMap<String, Enr>> = RefCell::new(HashMap::new());
}

pub fn key_of(seed: u64) -> CombinedKey {
    let mut r = Rng::new(seed.wrapping_mul(0x9E37_79B9_7F4A_7C15) ^ 0x5EED_5EED);
    key_from(&mut r)
}

pub fn id_of_seed(seed: u64) -> [u8; 32] {
    if let Some(v) = KEY_IDS.with(|m| m.borrow().get(&seed).copied()) {
        return v;
    }
    let id = NodeId::from(key_of(seed).public()).raw();
    KEY_IDS.with(|m| m.borrow_mut().insert(seed, id));
    id
}

/// 0-based index of the highest differing bit (`log2 distance - 1`), `None` for equal ids.
pub fn log2_idx(a: &[u8; 32], b: &[u8; 32]) -> Option<usize> {
    for i in 0..32 {
        let x = a[i] ^ b[i];
        if x != 0 {
            return Some(255 - (i * 8 + x.leading_zeros() as usize));
        }
    }
    None
}

/// log2 distance by byte arithmetic: 0 for equal ids.
pub fn dist(a: &[u8; 32], b: &[u8; 32]) -> u64 {
    log2_idx(a, b).map(|i| i as u64 + 1).unwrap_or(0)
}

pub fn xor_dist(a: &[u8; 32], b: &[u8; 32]) -> [u8; 32] {
    let mut d = [0u8; 32];
    for i in 0..32 {
        d[i] = a[i] ^ b[i];
    }
    d
}

/// Finds a key seed `base*8192 + i` whose node id satisfies `pred`.
pub fn mine(base: u64, pred: impl Fn(&[u8; 32]) -> bool) -> Option<u64> {
    for i in 0..8192u64 {
        let s = 1_000_000 + base.wrapping_mul(8192).wrapping_add(i) % 4_000_000_000;
        if pred(&id_of_seed(s)) {
            return Some(s);
        }
    }
    None
}

pub fn ip4_of(seed: u64, alt: bool) -> (Ipv4Addr, u16) {
    (
        Ipv4Addr::new(10, (seed >> 8) as u8, seed as u8, if alt { 8 } else { 7 }),
        9000 + (seed % 500) as u16 + if alt { 1000 } else { 0 },
    )
}

pub fn ip6_of(seed: u64, alt: bool) -> (Ipv6Addr, u16) {
    (
        Ipv6Addr::new(0x2001, 0xdb8, 0, 0, 0, if alt { 1 } else { 0 }, (seed >> 16) as u16, seed as u16),
        9100 + (seed % 500) as u16,
    )
}

/// Builds the record of `k<seed>:<seq>:<shape>:<pad>`.  Shape flags: `4` ip4+udp4, `i` ip4 without
/// port, `6` canonical ip6+udp6, `m` IPv4-mapped ip6+udp6, `r` carries the key "rej" (refused by the
/// rejecting table filter), `x` alternative addresses.
pub fn build_rec(seed: u64, seq: u64, shape: &str, pad: usize) -> Option<Enr> {
    // record signatures are randomised: one spec must always denote the same signed object
    let ck = format!("k{}:{}:{}:{}", seed, seq, shape, pad);
    if let Some(e) = REC_CACHE.with(|m| m.borrow().get(&ck).cloned()) {
        return Some(e);
    }
    let e = build_rec_uncached(seed, seq, shape, pad)?;
    REC_CACHE.with(|m| m.borrow_mut().insert(ck, e.clone()));
    Some(e)
}

fn build_rec_uncached(seed: u64, seq: u64, shape: &str, pad: usize) -> Option<Enr> {
    let key = key_of(seed);
    let alt = shape.contains('x');
    let mut pad = pad;
    loop {
        let mut b = Enr::builder();
        b.seq(seq);
        if shape.contains('s') {
            // one /24 shared by all such records (IP-diversity limits)
            b.ip4(Ipv4Addr::new(10, 250, 250, if seed % 7 == 0 { 255 } else if seed % 11 == 0 { 0 } else { (seed % 250 + 1) as u8 }));
            b.udp4(9000 + (seed % 500) as u16);
        } else if shape.contains('u') {
            // an address no datagram is delivered to (unspecified / a multicast group): as admissible
            // and as contactable as any other, the protocol does not judge addresses
            b.ip4(if seed % 2 == 0 { Ipv4Addr::new(0, 0, 0, 0) } else { Ipv4Addr::new(224, 0, 0, (seed % 250) as u8) });
            b.udp4(9000 + (seed % 500) as u16);
        } else if shape.contains('4') {
            let (ip, port) = ip4_of(seed, alt);
            b.ip4(ip);
            b.udp4(port);
        } else if shape.contains('i') {
            b.ip4(ip4_of(seed, alt).0);
        }
        if shape.contains('6') {
            let (ip, port) = ip6_of(seed, alt);
            b.ip6(ip);
            b.udp6(port);
        } else if shape.contains('m') {
            let (ip, port) = ip4_of(seed, alt);
            b.ip6(ip.to_ipv6_mapped());
            b.udp6(port);
        }
        if shape.contains('r') {
            b.add_value("rej", &1u8);
        }
        if pad > 0 {
            b.add_value("pad", &alloy_rlp::bytes::Bytes::from(vec![0xabu8; pad]));
        }
        match b.build(&key) {
            Ok(e) => return Some(e),
            Err(_) if pad > 0 => pad = pad.saturating_sub(4),
            Err(_) => return None,
        }
    }
}

pub fn parse_rec(tok: &str) -> Option<Enr> {
    let f: Vec<&str> = tok.split(':').collect();
    if f.len() != 4 {
        return None;
    }
    let seed: u64 = f[0].strip_prefix('k')?.parse().ok()?;
    build_rec(seed, f[1].parse().ok()?, f[2], f[3].parse().ok()?)
}

pub fn rec_size(e: &Enr) -> usize {
    alloy_rlp::encode(e).len()
}

pub fn sock_num(a: &SocketAddr) -> String {
    match a {
        SocketAddr::V4(s) => format!("4~{}", (u32::from(*s.ip()) as u128) * 65536 + s.port() as u128),
        SocketAddr::V6(s) => format!("6~{}", sock6_hex(s)),
    }
}

/// `ip * 65536 + port` of an IPv6 socket as 36 hex digits (it does not fit 128 bits).
pub fn sock6_hex(s: &std::net::SocketAddrV6) -> String {
    format!("{}{:04x}", hex::encode(s.ip().octets()), s.port())
}

pub fn ip_num(a: &IpAddr) -> String {
    match a {
        IpAddr::V4(s) => format!("4~{}", u32::from(*s)),
        IpAddr::V6(s) => format!("6~{}", hex::encode(s.octets())),
    }
}

pub fn is_mapped(ip: &Ipv6Addr) -> bool {
    let o = ip.octets();
    o[..10].iter().all(|b| *b == 0) && o[10] == 0xff && o[11] == 0xff
}

#[derive(Clone, Copy, PartialEq, Eq, Debug)]
pub enum Filter {
    All,
    Rej,
}

pub fn filter_rej(e: &Enr) -> bool {
    e.get_raw_rlp("rej").is_none()
}

pub fn passes(f: Filter, e: &Enr) -> bool {
    match f {
        Filter::All => true,
        Filter::Rej => filter_rej(e),
    }
}

/// The harness's own reading of `get_contactable_addr`.
pub fn contactable_addr(mode: IpMode, e: &Enr) -> Option<SocketAddr> {
    let v4 = e.udp4_socket().map(SocketAddr::V4);
    let v6 = e.udp6_socket().filter(|s| !is_mapped(s.ip())).map(SocketAddr::V6);
    match mode {
        IpMode::Ip4 => v4,
        IpMode::Ip6 => v6,
        IpMode::DualStack => v6.or(v4),
    }
}

/// Abstract record of the model: id:seq:udp4:udp6:mapped:size:passesFilter:sig
pub fn rec_abs(e: &Enr, f: Filter) -> String {
    let u4 = e
        .udp4_socket()
        .map(|s| ((u32::from(*s.ip()) as u128) * 65536 + s.port() as u128).to_string())
        .unwrap_or_else(|| "-".into());
    let u6 = e
        .udp6_socket()
        .map(|s| sock6_hex(&s))
        .unwrap_or_else(|| "-".into());
    let mapped = e.udp6_socket().map(|s| is_mapped(s.ip())).unwrap_or(false);
    let sig = e.signature();
    let mut sg: u64 = 0;
    for b in sig.iter().take(6) {
        sg = sg * 256 + *b as u64;
    }
    format!(
        "{}:{}:{}:{}:{}:{}:{}:{}",
        hex::encode(e.node_id().raw()),
        e.seq(),
        u4,
        u6,
        mapped as u8,
        rec_size(e),
        passes(f, e) as u8,
        sg
    )
}

pub fn id8(id: &[u8; 32]) -> String {
    hex::encode(&id[..4])
}

pub fn rec_short(e: &Enr) -> String {
    format!("{}/{}", id8(&e.node_id().raw()), e.seq())
}

/// The third item (recipient ip) of an encoded PONG: `02 ‖ rlp([id, enr-seq, ip, port])`.
pub fn pong_ip_field(enc: &[u8]) -> Option<Vec<u8>> {
    fn item(b: &[u8]) -> Option<(&[u8], &[u8])> {
        // (payload of the first item, rest)
        let h = *b.first()?;
        match h {
            0..=0x7f => Some((&b[..1], &b[1..])),
            0x80..=0xb7 => { let n = (h - 0x80) as usize; Some((b.get(1..1 + n)?, b.get(1 + n..)?)) }
            0xb8..=0xbf => { let l = (h - 0xb7) as usize; let n = b.get(1..1 + l)?.iter().fold(0usize, |a, x| a * 256 + *x as usize); Some((b.get(1 + l..1 + l + n)?, b.get(1 + l + n..)?)) }
            0xc0..=0xf7 => { let n = (h - 0xc0) as usize; Some((b.get(1..1 + n)?, b.get(1 + n..)?)) }
            _ => { let l = (h - 0xf7) as usize; let n = b.get(1..1 + l)?.iter().fold(0usize, |a, x| a * 256 + *x as usize); Some((b.get(1 + l..1 + l + n)?, b.get(1 + l + n..)?)) }
        }
    }
    if *enc.first()? != 2 {
        return None;
    }
    let (list, _) = item(&enc[1..])?;
    let (_, rest) = item(list)?;
    let (_, rest) = item(rest)?;
    let (ip, _) = item(rest)?;
    Some(ip.to_vec())
}

pub fn parse_addr(tok: &str) -> Option<SocketAddr> {
    let (ip, port) = tok.rsplit_once('/')?;
    let port: u16 = port.parse().ok()?;
    if ip.contains('.') {
        Some(SocketAddr::new(IpAddr::V4(ip.parse().ok()?), port))
    } else {
        let b: [u8; 16] = hex::decode(ip).ok()?.try_into().ok()?;
        Some(SocketAddr::new(IpAddr::V6(Ipv6Addr::from(b)), port))
    }
}

pub fn show_addr_tok(a: &SocketAddr) -> String {
    match a {
        SocketAddr::V4(s) => format!("{}/{}", s.ip(), s.port()),
        SocketAddr::V6(s) => format!("{}/{}", hex::encode(s.ip().octets()), s.port()),
    }
}

/// `k<seed>` or 64 hex digits.
pub fn parse_peer(tok: &str) -> Option<[u8; 32]> {
    if let Some(s) = tok.strip_prefix('k') {
        return Some(id_of_seed(s.parse().ok()?));
    }
    hex::decode(tok).ok()?.try_into().ok()
}

pub fn parse_dists(tok: &str) -> Option<Vec<u64>> {
    if tok == "-" {
        return Some(vec![]);
    }
    tok.split(',').map(|d| d.parse().ok()).collect()
}

pub fn show_dists(ds: &[u64], sep: &str) -> String {
    if ds.is_empty() {
        "-".into()
    } else {
        ds.iter().map(|d| d.to_string()).collect::<Vec<_>>().join(sep)
    }
}

// ------------------------------------------------------------------------------------------------
// instances

pub struct EmittedReq {
    pub id: RequestId,
    pub contact: NodeContact,
    pub body: RequestBody,
    pub is_query: bool,
    pub callback: bool,
    /// harness's own belief (used to resolve symbolic references and by the C11 monitors)
    pub outstanding: bool,
    /// NODES accounting recomputed by the harness
    pub count: usize,
    pub received: usize,
    /// ids sent per processed packet (1-based packet index = position + 1) and whether on-distance
    pub packets: Vec<Vec<([u8; 32], bool)>>,
    pub completed_seen: bool,
    /// the lookup (by number) that was running when the request was emitted
    pub epoch: u64,
    /// with two lookups at once (profile C10shared): which of them the request belongs to, as far as the
    /// harness can tell (emitted by the step that started lookup 1 / 2, or by a step that answered or failed
    /// a request of that lookup); 0 = unknown
    pub lookup: u8,
}

#[derive(Clone, PartialEq, Eq, Debug)]
pub struct SnapNode {
    pub id: [u8; 32],
    pub enr: Enr,
    pub conn: bool,
    pub incoming: bool,
}

#[derive(Clone, Default, Debug)]
pub struct SnapBucket {
    pub nodes: Vec<SnapNode>,
    pub pending: Option<SnapNode>,
}

pub enum Obs {
    Req(usize),
    Resp(NodeAddress, Response),
    Way(String),
    Ev(Event),
}

pub struct Inst {
    pub name: char,
    pub discv5: Discv5,
    pub hin: Option<mpsc::UnboundedReceiver<HandlerIn>>,
    pub hout: mpsc::Sender<HandlerOut>,
    pub events: mpsc::Receiver<Event>,
    /// the application does not read its event stream for a while (the bounded stream overflows)
    pub events_paused: bool,
    /// the node was configured with `ip_limit` (at most 2 per bucket / 10 per table of one /24)
    pub ip_limit: bool,
    pub local_id: [u8; 32],
    pub local_seed: u64,
    pub mode: IpMode,
    pub filter: Filter,
    pub max_nodes: usize,
    pub enr_update: bool,
    pub reqs: Vec<EmittedReq>,
    pub req_ids: HashMap<Vec<u8>, usize>,
    pub api: Vec<(usize, tokio::task::JoinHandle<String>)>,
    pub query: Option<tokio::task::JoinHandle<String>>,
    /// number of nodes the running lookup was asked for (predicate lookups)
    pub query_k: Option<usize>,
    pub prev: BTreeMap<usize, SnapBucket>,
    /// the harness's own ledger of eligible latest IP votes (C17)
    pub votes4: HashMap<[u8; 32], SocketAddr>,
    pub votes6: HashMap<[u8; 32], SocketAddr>,
    /// when each ledger vote was cast, and the configured life time of votes (None: longer than any case)
    pub vote_times: HashMap<[u8; 32], std::time::Instant>,
    pub vote_ttl: Option<Duration>,
    pub vote_min: usize,
    /// the routing-table entries when the running lookup was started (kept only when they all fit
    /// into the lookup's candidate list), and the nodes the lookup has sent its request to so far
    pub query_start: Vec<[u8; 32]>,
    pub query_asked: std::collections::HashSet<[u8; 32]>,
    /// number of the running (or last) lookup; nodes whose answer (any NODES packet) to a request of
    /// the running lookup was processed; a request of the running lookup was dropped without the
    /// lookup being told (answer of the wrong kind / from another address, failure after packets
    /// that held nothing acceptable); nodes the running lookup was seen to ask a second time
    /// a second lookup runs next to the first (profile C09conc): the per-lookup ledgers above do not apply
    pub query2: Option<tokio::task::JoinHandle<String>>,
    pub concurrent: bool,
    pub query_epoch: u64,
    pub query_answered: std::collections::HashSet<[u8; 32]>,
    /// nodes the running lookup certainly learned of from answers (see `nodes_packet`)
    pub query_learned: std::collections::HashSet<[u8; 32]>,
    /// profile C17race: while a PONG is processed, the application writes to the local record from a thread of its own
    pub race: bool,
    /// profile C10shared: the lookup the step in progress belongs to; the stranger both lookups are told
    /// of; which of the two lookups has taken an answer naming it
    pub cur_lookup: u8,
    pub shared: Option<[u8; 32]>,
    pub shared_next: Option<usize>,
    pub shared_seen: [bool; 2],
    pub query_lost: bool,
    pub query_dup: Vec<[u8; 32]>,
    /// `auto_nat_listen_duration` as the built configuration has it
    pub auto_nat: Option<Duration>,
    /// the connectivity timer of a family ran out (its socket was taken out of the record): votes of
    /// that family are not counted for the next six hours of the real clock, i.e. for the rest of the case
    pub revoked4: bool,
    pub revoked6: bool,
}

pub fn parse_mode(s: &str) -> Option<IpMode> {
    match s {
        "ip4" => Some(IpMode::Ip4),
        "ip6" => Some(IpMode::Ip6),
        "dual" => Some(IpMode::DualStack),
        _ => None,
    }
}

impl Inst {
    /// Must be called inside the runtime context.
    pub fn start(
        rt: &tokio::runtime::Runtime,
        name: char,
        seed: u64,
        enr: Enr,
        mode: IpMode,
        filter: Filter,
        max_nodes: usize,
        max_in: usize,
        enr_update: bool,
        vote_min: usize,
    ) -> Option<Inst> {
        let _g = rt.enter();
        let listen = match mode {
            IpMode::Ip4 => ListenConfig::Ipv4 { ip: Ipv4Addr::UNSPECIFIED, port: 9000 },
            IpMode::Ip6 => ListenConfig::Ipv6 { ip: Ipv6Addr::UNSPECIFIED, port: 9000 },
            IpMode::DualStack => ListenConfig::DualStack {
                ipv4: Ipv4Addr::UNSPECIFIED,
                ipv4_port: 9000,
                ipv6: Ipv6Addr::UNSPECIFIED,
                ipv6_port: 9001,
            },
        };
        let mut cb = ConfigBuilder::new(listen);
        cb.max_nodes_response(max_nodes);
        cb.incoming_bucket_limit(max_in.min(16));
        cb.ping_interval(Duration::from_secs(1_000_000));
        // (the lookups' own timeouts read the real clock; a case takes milliseconds, but on a loaded
        // machine it may take seconds: keep them out of reach)
        // (the scripted handler has no use for the request timeout; the application may hold on to a
        // TALK request for longer than the peer will wait - here that is 120 ms)
        cb.request_timeout(Duration::from_millis(60));
        cb.query_peer_timeout(Duration::from_secs(3600));
        cb.query_timeout(Duration::from_secs(7200));
        // local identities k…996 cut their lookups off after 250 ms (of the real clock: profile C09cutoff)
        if seed % 1000 == 996 {
            cb.query_timeout(Duration::from_millis(250));
        }
        cb.enr_peer_update_min(vote_min.max(2));
        if filter == Filter::Rej {
            cb.table_filter(filter_rej);
        }
        if !enr_update {
            cb.disable_enr_update();
        }
        // local identities k…998 let IP votes live for 400 ms only
        if seed % 1000 == 998 {
            cb.vote_duration(Duration::from_millis(400));
        }
        // local identities k…999 run with the IP-diversity limits of the routing table
        if seed % 1000 == 999 {
            cb.ip_limit();
        }
        // every third local identity bans for ever (`ban_duration = None`), the others for an hour
        if seed % 3 == 0 {
            cb.ban_duration(None);
        }
        // local identities k…997 wait 5 s (of the paused tokio clock) for incoming sessions after a
        // socket change before they take the socket out of the record again
        if seed % 1000 == 997 {
            cb.auto_nat_listen_duration(Some(Duration::from_millis(5000)));
        }
        let config = cb.build();
        let auto_nat = config.auto_nat_listen_duration;
        let key = key_of(seed);
        let local_id = enr.node_id().raw();
        let mut d = Discv5::new(enr, key, config).ok()?;
        let (hin, hout) = d.start_scripted().ok()?;
        let events = rt.block_on(d.event_stream()).ok()?;
        ban_reset();
        Some(Inst {
            name,
            discv5: d,
            hin: Some(hin),
            hout,
            events,
            events_paused: false,
            query_k: None,
            ip_limit: seed % 1000 == 999,
            local_id,
            local_seed: seed,
            mode,
            filter,
            max_nodes,
            enr_update,
            reqs: Vec::new(),
            req_ids: HashMap::new(),
            api: Vec::new(),
            query: None,
            prev: BTreeMap::new(),
            votes4: HashMap::new(),
            votes6: HashMap::new(),
            vote_times: HashMap::new(),
            vote_ttl: if seed % 1000 == 998 { Some(Duration::from_millis(400)) } else { None },
            vote_min: vote_min.max(2),
            query_start: Vec::new(),
            query_asked: Default::default(),
            query2: None,
            concurrent: false,
            query_epoch: 0,
            query_answered: Default::default(),
            query_learned: Default::default(),
            race: false,
            cur_lookup: 0,
            shared: None,
            shared_next: None,
            shared_seen: [false; 2],
            query_lost: false,
            query_dup: Vec::new(),
            auto_nat,
            revoked4: false,
            revoked6: false,
        })
    }

    /// The harness's reading of `require_more_ip_votes` from its own vote ledger.
    pub fn require_more(&self, is_v6: bool) -> bool {
        if self.mode != IpMode::DualStack || !self.enr_update {
            return false;
        }
        let have4 = self.votes4.len() >= self.vote_min;
        let have6 = self.votes6.len() >= self.vote_min;
        match ((have4, have6), is_v6) {
            ((false, true), false) | ((true, false), true) | ((false, false), _) => true,
            _ => false,
        }
    }

    /// Clear majority of the ledger for one family: at least the minimum, every rival below
    /// round(0.7 * count).
    pub fn ledger_majority(&self, v6: bool) -> Option<SocketAddr> {
        let votes = if v6 { &self.votes6 } else { &self.votes4 };
        let mut counts: HashMap<SocketAddr, usize> = HashMap::new();
        let now = std::time::Instant::now();
        for (id, v) in votes.iter() {
            // votes older than the configured life time no longer count
            if let (Some(ttl), Some(t)) = (self.vote_ttl, self.vote_times.get(id)) {
                if *t + ttl <= now {
                    continue;
                }
            }
            *counts.entry(*v).or_insert(0) += 1;
        }
        let (best, n) = counts.iter().max_by_key(|(_, c)| **c).map(|(a, c)| (*a, *c))?;
        if n < self.vote_min {
            return None;
        }
        let thr = ((n as f64) * 0.7).round() as usize;
        if counts.iter().any(|(a, c)| *a != best && *c >= thr) {
            return None;
        }
        Some(best)
    }

    /// Keys, connection state and direction of every entry (pending included), bucket by bucket.
    pub fn snapshot_digest(&self) -> String {
        let mut s = String::new();
        for (i, b) in self.snapshot() {
            s.push_str(&format!("{}:", i));
            for n in b.nodes.iter() {
                s.push_str(&format!("{}/{}{}/{},", id8(&n.id), n.conn as u8, n.incoming as u8, n.enr.seq()));
            }
            if let Some(p) = &b.pending {
                s.push_str(&format!("p{}/{}{},", id8(&p.id), p.conn as u8, p.incoming as u8));
            }
            s.push(';');
        }
        s
    }

    pub fn snapshot(&self) -> BTreeMap<usize, SnapBucket> {
        let t = self.discv5.kbuckets();
        let mut out = BTreeMap::new();
        for (i, b) in t.buckets_iter().enumerate() {
            let nodes: Vec<SnapNode> = b
                .iter()
                .map(|n| SnapNode {
                    id: n.key.preimage().raw(),
                    enr: n.value.clone(),
                    conn: n.status.is_connected(),
                    incoming: n.status.is_incoming(),
                })
                .collect();
            let pending = b.pending().map(|p| SnapNode {
                id: p.value().node_id().raw(),
                enr: p.value().clone(),
                conn: p.status().is_connected(),
                incoming: p.status().is_incoming(),
            });
            if !nodes.is_empty() || pending.is_some() {
                out.insert(i, SnapBucket { nodes, pending });
            }
        }
        out
    }

    pub fn digest(snap: &BTreeMap<usize, SnapBucket>, full: bool) -> String {
        if snap.is_empty() {
            return "empty".into();
        }
        let show = |n: &SnapNode| {
            format!(
                "{}/{}/{}/{}",
                if full { hex::encode(n.id) } else { id8(&n.id) },
                if n.conn { "c" } else { "d" },
                if n.incoming { "i" } else { "o" },
                n.enr.seq()
            )
        };
        snap.iter()
            .map(|(i, b)| {
                format!(
                    "{}:[{}]p={}",
                    i,
                    b.nodes.iter().map(show).collect::<Vec<_>>().join(","),
                    b.pending.as_ref().map(show).unwrap_or_else(|| "-".into())
                )
            })
            .collect::<Vec<_>>()
            .join(";")
    }

    /// Drains everything the service emitted.
    pub fn drain(&mut self, op_is_query: bool, op_is_api: bool) -> Vec<Obs> {
        let mut out = Vec::new();
        if let Some(hin) = self.hin.as_mut() {
            while let Ok(m) = hin.try_recv() {
                match m {
                    HandlerIn::Request(contact, req) => {
                        let k = self.reqs.len() + 1;
                        let is_findnode = matches!(req.body, RequestBody::FindNode { .. });
                        let first_api = op_is_api && !out.iter().any(|o| matches!(o, Obs::Req(_)));
                        self.req_ids.insert(req.id.0.clone(), k);
                        if op_is_query && is_findnode && !self.query_asked.insert(contact.node_id().raw()) {
                            self.query_dup.push(contact.node_id().raw());
                        }
                        self.reqs.push(EmittedReq {
                            id: req.id.clone(),
                            contact,
                            body: req.body.clone(),
                            is_query: op_is_query && is_findnode,
                            callback: first_api,
                            outstanding: true,
                            count: 1,
                            received: 0,
                            packets: Vec::new(),
                            completed_seen: false,
                            epoch: self.query_epoch,
                            lookup: if op_is_query && is_findnode { self.cur_lookup } else { 0 },
                        });
                        out.push(Obs::Req(k));
                    }
                    HandlerIn::Response(addr, resp) => out.push(Obs::Resp(addr, *resp)),
                    HandlerIn::WhoAreYou(r, enr) => out.push(Obs::Way(format!(
                        "way:{}@{}:{}",
                        id8(&r.0.node_id.raw()),
                        sock_num(&r.0.socket_addr),
                        enr.map(|e| rec_short(&e)).unwrap_or_else(|| "-".into())
                    ))),
                }
            }
        }
        if !self.events_paused {
            while let Ok(e) = self.events.try_recv() {
                out.push(Obs::Ev(e));
            }
        }
        out
    }

    pub fn resolve_ref(&self, tok: &str) -> Option<usize> {
        let t = tok.strip_prefix('#')?;
        // `#q@<id hex>` / `#e@<id hex>`: restricted to requests sent to that node
        let (t, only) = match t.split_once('@') {
            Some((a, b)) => (a, hex::decode(b).ok()),
            None => (t, None),
        };
        let find = |pred: &dyn Fn(&EmittedReq) -> bool| {
            self.reqs
                .iter()
                .position(|r| pred(r) && only.as_ref().map(|o| r.contact.node_id().raw()[..] == o[..]).unwrap_or(true))
                .map(|i| i + 1)
        };
        match t {
            "q" => find(&|r| r.outstanding && r.is_query),
            "q1" => find(&|r| r.outstanding && r.is_query && r.lookup == 1),
            "q2" => find(&|r| r.outstanding && r.is_query && r.lookup == 2),
            // the request of the other lookup that the shared stranger was chosen for
            "qs" => self.shared_next.filter(|k| self.reqs.get(*k - 1).map(|r| r.outstanding).unwrap_or(false)),
            "e" => find(&|r| {
                r.outstanding && !r.is_query && !r.callback && matches!(r.body, RequestBody::FindNode { .. })
            }),
            "p" => find(&|r| r.outstanding && !r.callback && matches!(r.body, RequestBody::Ping { .. })),
            "c" => find(&|r| r.outstanding && r.callback),
            "l" => {
                if self.reqs.is_empty() {
                    None
                } else {
                    Some(self.reqs.len())
                }
            }
            "d" => self
                .reqs
                .iter()
                .rposition(|r| !r.outstanding && !r.callback && matches!(r.body, RequestBody::FindNode { .. }))
                .map(|i| i + 1),
            n => {
                let k: usize = n.parse().ok()?;
                if k >= 1 && k <= self.reqs.len() {
                    Some(k)
                } else {
                    None
                }
            }
        }
    }
}

pub fn show_req_body(b: &RequestBody) -> String {
    match b {
        RequestBody::Ping { enr_seq } => format!("ping:{}", enr_seq),
        RequestBody::FindNode { distances } => format!("findnode:{}", show_dists(distances, ".")),
        RequestBody::Talk { protocol, request } => format!("talk:{}:{}", hx(protocol), hx(request)),
    }
}

pub fn show_resp(addr: &NodeAddress, r: &Response) -> String {
    let head = format!("resp:{}@{}:{}", id8(&addr.node_id.raw()), sock_num(&addr.socket_addr), hx(&r.id.0));
    match &r.body {
        ResponseBody::Pong { enr_seq, ip, port } => {
            format!("{}:pong:{}:{}", head, enr_seq, sock_num(&SocketAddr::new(*ip, port.get())))
        }
        ResponseBody::Nodes { total, nodes } => format!(
            "{}:nodes:{}:{}:{}",
            head,
            total,
            if nodes.is_empty() { "-".into() } else { nodes.iter().map(rec_short).collect::<Vec<_>>().join(",") },
            nodes.iter().map(rec_size).sum::<usize>()
        ),
        ResponseBody::Talk { response } => format!("{}:talk:{}", head, hx(response)),
    }
}

/// Wire size of the message packet that would carry this response: masking IV + static header +
/// auth-data (source id) + ciphertext (= plaintext length) + AES-GCM tag.
pub fn datagram_len(r: &Response) -> usize {
    16 + 23 + 32 + response_encode(r.clone()).len() + 16
}

// ------------------------------------------------------------------------------------------------
// runner

pub struct ServiceRunner {
    pub rt: Option<tokio::runtime::Runtime>,
    pub insts: BTreeMap<char, Inst>,
    pub seeds: HashMap<[u8; 32], u64>,
    pub bans: BTreeSet<String>,
    /// the ban list as it was left by the previous observation (entries with an expiry stay on the list
    /// between operations, as in a running node; permanent ones are taken off so that a repeated
    /// permanent ban shows up as a new entry)
    pub ban_prev_ips: HashMap<IpAddr, Option<std::time::Instant>>,
    pub ban_prev_nodes: HashMap<[u8; 32], Option<std::time::Instant>>,
    /// talk engine: request objects held by the "application"
    pub talks: Vec<Option<TalkRequest>>,
    pub talk_meta: Vec<(Vec<u8>, NodeAddress)>,
    pub hold_talks: bool,
    /// reading of the (paused) tokio clock when the runtime of the case was created
    pub t0: Option<tokio::time::Instant>,
}

impl Default for ServiceRunner {
    fn default() -> Self {
        ServiceRunner {
            rt: None,
            insts: BTreeMap::new(),
            seeds: HashMap::new(),
            bans: BTreeSet::new(),
            ban_prev_ips: HashMap::new(),
            ban_prev_nodes: HashMap::new(),
            talks: Vec::new(),
            talk_meta: Vec::new(),
            hold_talks: false,
            t0: None,
        }
    }
}

fn new_rt() -> tokio::runtime::Runtime {
    tokio::runtime::Builder::new_current_thread().enable_all().start_paused(true).build().expect("runtime")
}

pub struct StepOut {
    pub items: Vec<String>,
    pub discovered: Vec<[u8; 32]>,
    pub responses: Vec<(NodeAddress, Response)>,
    pub new_reqs: Vec<usize>,
    pub bans_ip: Vec<IpAddr>,
    pub bans_node: Vec<NodeId>,
    pub socket_updated: Vec<SocketAddr>,
    pub talk_events: usize,
}

impl ServiceRunner {
    /// Milliseconds of the paused tokio clock since the first reading in this case.
    pub fn tok_ms(&mut self) -> u128 {
        let Some(rt) = self.rt.as_ref() else { return 0 };
        let now = rt.block_on(async { tokio::time::Instant::now() });
        let t0 = *self.t0.get_or_insert(now);
        now.duration_since(t0).as_millis()
    }

    pub fn settle(&self) {
        if let Some(rt) = self.rt.as_ref() {
            rt.block_on(async {
                for _ in 0..3 {
                    tokio::time::sleep(Duration::from_millis(1)).await;
                }
            });
        }
    }

    pub fn remember(&mut self, tok: &str) {
        if let Some(s) = tok.split(':').next().and_then(|k| k.strip_prefix('k')).and_then(|s| s.parse::<u64>().ok()) {
            self.seeds.insert(id_of_seed(s), s);
        }
    }

    pub fn rec(&mut self, tok: &str) -> Option<Enr> {
        self.remember(tok);
        parse_rec(tok)
    }

    /// Settles, drains instance `x`, canonicalises what was observed.
    pub fn observe(&mut self, x: char, op_is_query: bool, op_is_api: bool) -> StepOut {
        self.settle();
        let mut so = StepOut {
            items: vec![],
            discovered: vec![],
            responses: vec![],
            new_reqs: vec![],
            bans_ip: vec![],
            bans_node: vec![],
            socket_updated: vec![],
            talk_events: 0,
        };
        let hold = self.hold_talks;
        let mut dropped_talks = false;
        let Some(inst) = self.insts.get_mut(&x) else { return so };
        let obs = inst.drain(op_is_query, op_is_api);
        let mut evs = Vec::new();
        for o in obs {
            match o {
                Obs::Req(k) => {
                    let r = &inst.reqs[k - 1];
                    so.items.push(format!(
                        "req:r{}:{}@{}:{}",
                        k,
                        id8(&r.contact.node_id().raw()),
                        sock_num(&r.contact.socket_addr()),
                        show_req_body(&r.body)
                    ));
                    so.new_reqs.push(k);
                }
                Obs::Resp(a, r) => {
                    so.items.push(show_resp(&a, &r));
                    so.responses.push((a, r));
                }
                Obs::Way(s) => so.items.push(s),
                Obs::Ev(e) => match e {
                    Event::Discovered(enr) => {
                        so.discovered.push(enr.node_id().raw());
                        evs.push(format!("ev:discovered:{}", rec_short(&enr)));
                    }
                    Event::NodeInserted { node_id, replaced } => evs.push(format!(
                        "ev:inserted:{}:{}",
                        id8(&node_id.raw()),
                        replaced.map(|r| id8(&r.raw())).unwrap_or_else(|| "-".into())
                    )),
                    Event::SessionEstablished(enr, a) => {
                        evs.push(format!("ev:established:{}@{}", rec_short(&enr), sock_num(&a)))
                    }
                    Event::SocketUpdated(a) => {
                        so.socket_updated.push(a);
                        evs.push(format!("ev:socket:{}", sock_num(&a)))
                    }
                    Event::UnverifiableEnr { node_id, .. } => evs.push(format!("ev:unverifiable:{}", id8(&node_id.raw()))),
                    Event::TalkRequest(t) => {
                        evs.push(format!(
                            "ev:talkreq:{}:{}:{}:{}",
                            hx(&t.id().0),
                            id8(&t.node_id().raw()),
                            hx(t.protocol()),
                            hx(t.body())
                        ));
                        so.talk_events += 1;
                        if hold {
                            self.talks.push(Some(t));
                        } else {
                            // the "application" of the service engine drops the request at once
                            drop(t);
                            dropped_talks = true;
                        }
                    }
                    _ => {}
                },
            }
        }
        if dropped_talks {
            // the empty TALKRESP sent by `Drop`
            if let Some(hin) = inst.hin.as_mut() {
                while let Ok(m) = hin.try_recv() {
                    if let HandlerIn::Response(a, r) = m {
                        so.items.push(show_resp(&a, &r));
                        so.responses.push((a, *r));
                    }
                }
            }
        }
        so.items.extend(evs);
        // what this step banned: entries that are new or whose expiry was set afresh
        let (ips, nodes) = {
            let snap = discv5::verif::limiter::permit_ban_snapshot();
            let mut ips: Vec<IpAddr> = Vec::new();
            let mut nodes: Vec<NodeId> = Vec::new();
            for (ip, exp) in &snap.ban_ips {
                if self.ban_prev_ips.get(ip) != Some(exp) {
                    ips.push(*ip);
                }
            }
            for (n, exp) in &snap.ban_nodes {
                if self.ban_prev_nodes.get(&n.raw()) != Some(exp) {
                    nodes.push(*n);
                }
            }
            self.ban_prev_ips.clear();
            self.ban_prev_nodes.clear();
            for (ip, exp) in &snap.ban_ips {
                match exp {
                    None => inst.discv5.ban_ip_remove(ip),
                    Some(_) => {
                        self.ban_prev_ips.insert(*ip, *exp);
                    }
                }
            }
            for (n, exp) in &snap.ban_nodes {
                match exp {
                    None => inst.discv5.ban_node_remove(n),
                    Some(_) => {
                        self.ban_prev_nodes.insert(n.raw(), *exp);
                    }
                }
            }
            (ips, nodes)
        };
        let mut b: Vec<String> = Vec::new();
        for n in &nodes {
            b.push(format!("ban:{}", id8(&n.raw())));
        }
        for i in &ips {
            b.push(format!("banip:{}", ip_num(i)));
        }
        b.sort();
        for s in &b {
            self.bans.insert(s.clone());
        }
        so.items.extend(b);
        so.bans_ip = ips;
        so.bans_node = nodes;
        // finished user-level calls
        let rt = self.rt.as_ref().unwrap();
        let mut i = 0;
        while i < inst.api.len() {
            if inst.api[i].1.is_finished() {
                let (k, h) = inst.api.remove(i);
                let s = rt.block_on(h).unwrap_or_else(|_| "panic".into());
                so.items.push(format!("cb:r{}:{}", k, s));
            } else {
                i += 1;
            }
        }
        so
    }

    /// C12 monitors + table digest of instance `x` after an op.
    pub fn table_monitors(&mut self, x: char, op: &str, op_id: Option<[u8; 32]>, out: &mut Vec<String>, stats: &mut Stats) -> String {
        let Some(inst) = self.insts.get_mut(&x) else { return "T=none".into() };
        let snap = inst.snapshot();
        let mut prev_vals: HashMap<[u8; 32], Enr> = HashMap::new();
        for b in inst.prev.values() {
            for n in b.nodes.iter().chain(b.pending.iter()) {
                prev_vals.insert(n.id, n.enr.clone());
            }
        }
        if inst.ip_limit {
            // C16 through the service: whatever path changed the table, at most 2 nodes per bucket and
            // 10 per table share a /24 (pending nodes count for the table)
            let mut table: HashMap<[u8; 3], usize> = HashMap::new();
            for (i, b) in &snap {
                let mut bucket: HashMap<[u8; 3], usize> = HashMap::new();
                for n in b.nodes.iter() {
                    if let Some(ip) = n.enr.ip4() { let o = ip.octets(); *bucket.entry([o[0], o[1], o[2]]).or_insert(0) += 1; }
                }
                for n in b.nodes.iter().chain(b.pending.iter()) {
                    if let Some(ip) = n.enr.ip4() { let o = ip.octets(); *table.entry([o[0], o[1], o[2]]).or_insert(0) += 1; }
                }
                for (sn, c) in bucket {
                    if c > 2 {
                        out.push(format!("!MON C16 bucket-subnet-limit-exceeded-through-the-service bucket={} subnet={:?} n={} op={}", i, sn, c, op));
                    }
                }
            }
            for (sn, c) in table {
                if c > 10 {
                    out.push(format!("!MON C16 table-subnet-limit-exceeded-through-the-service subnet={:?} n={} op={}", sn, c, op));
                }
                if c >= 10 { stats.bump("s.c16.table-subnet-saturated"); }
            }
        }
        let admits = op == "sest" || op == "sadd";
        let mut full = false;
        for (i, b) in &snap {
            if b.nodes.len() >= 16 {
                full = true;
            }
            for n in b.nodes.iter().chain(b.pending.iter()) {
                if contactable_addr(inst.mode, &n.enr).is_none() {
                    out.push(format!("!MON C12 entry-not-contactable id={} op={}", id8(&n.id), op));
                }
                if !passes(inst.filter, &n.enr) {
                    out.push(format!("!MON C12 entry-fails-table-filter id={} op={}", id8(&n.id), op));
                }
                if n.id == inst.local_id {
                    out.push(format!("!MON C12 local-node-in-table op={}", op));
                }
                if n.enr.node_id().raw() != n.id {
                    out.push(format!("!MON C12 value-under-foreign-key id={} op={}", id8(&n.id), op));
                }
                if log2_idx(&inst.local_id, &n.id) != Some(*i) {
                    out.push(format!("!MON C12 entry-in-wrong-bucket id={} op={}", id8(&n.id), op));
                }
                match prev_vals.get(&n.id) {
                    None => {
                        if !admits {
                            out.push(format!("!MON C12 entry-appeared-without-session-or-add id={} op={}", id8(&n.id), op));
                        } else if op_id != Some(n.id) {
                            out.push(format!("!MON C12 foreign-entry-appeared id={} op={}", id8(&n.id), op));
                        }
                    }
                    Some(old) => {
                        if *old != n.enr && !admits {
                            stats.bump("s.network-update");
                            if n.enr.seq() <= old.seq() || n.enr.node_id() != old.node_id() {
                                out.push(format!(
                                    "!MON C12 stored-record-replaced-by-not-newer id={} old={} new={} op={}",
                                    id8(&n.id),
                                    old.seq(),
                                    n.enr.seq(),
                                    op
                                ));
                            }
                        }
                    }
                }
            }
        }
        if full {
            stats.bump("s.ops-with-full-bucket");
        }
        if snap.values().any(|b| b.pending.is_some()) {
            stats.bump("s.ops-with-pending");
        }
        let d = Inst::digest(&snap, false);
        inst.prev = snap;
        format!("T={}", d)
    }

    fn finish(&mut self, x: char, op: &str, op_id: Option<[u8; 32]>, so: StepOut, extra: Option<String>, out: &mut Vec<String>, stats: &mut Stats) {
        let t = self.table_monitors(x, op, op_id, out, stats);
        // C12: a lookup dials a node it has in its routing table with the stored record, not with an
        // older one picked up elsewhere (whatever the handler then reports established is written
        // into the table)
        if let Some(inst) = self.insts.get(&x) {
            for k in &so.new_reqs {
                let r = &inst.reqs[*k - 1];
                if !r.is_query {
                    continue;
                }
                let nid = r.contact.node_id().raw();
                let stored = inst.prev.values().flat_map(|b| b.nodes.iter()).find(|n| n.id == nid).map(|n| n.enr.clone());
                if let (Some(st), Some(used)) = (stored, r.contact.enr()) {
                    stats.bump("s.c12.lookup-dials-stored-node");
                    if used.seq() < st.seq() {
                        out.push(format!("!MON C12 lookup-dials-stored-node-with-an-older-record id={} used-seq={} stored-seq={}", id8(&nid), used.seq(), st.seq()));
                    }
                }
            }
        }
        // canonical grouping: handler-channel messages, events, new bans (sorted), callbacks
        let class = |s: &String| {
            if s.starts_with("ev:") {
                1
            } else if s.starts_with("ban") {
                2
            } else if s.starts_with("cb:") {
                3
            } else if s.starts_with("qres:") {
                4
            } else {
                0
            }
        };
        let mut items: Vec<String> = Vec::new();
        for c in 0..5 {
            let mut g: Vec<String> = so.items.iter().filter(|s| class(s) == c).cloned().collect();
            if c == 2 {
                g.sort();
                g.dedup();
            }
            items.extend(g);
        }
        if let Some(e) = extra {
            items.insert(0, e);
        }
        let body = if items.is_empty() { "-".to_string() } else { items.join(" ") };
        out.push(format!("{} | {}", body, t));
    }

    /// Suffix of a resolved op: peers of the query-originated requests emitted, query finished.
    fn query_suffix(&mut self, x: char, so: &mut StepOut) -> String {
        let mut s = String::new();
        let Some(inst) = self.insts.get_mut(&x) else { return s };
        let q: Vec<String> = so
            .new_reqs
            .iter()
            .filter(|k| inst.reqs[**k - 1].is_query)
            .map(|k| hex::encode(inst.reqs[*k - 1].contact.node_id().raw()))
            .collect();
        if !q.is_empty() {
            s.push_str(&format!(" q={}", q.join(",")));
        }
        // C09: a lookup never sends its request to the same node twice
        if inst.concurrent {
            inst.query_dup.clear();
        }
        for d in inst.query_dup.drain(..) {
            s.push_str(&format!("\n!MON C09 lookup-sent-its-request-to-the-same-node-twice id={}", id8(&d)));
        }
        if let Some(h) = inst.query.as_ref() {
            if h.is_finished() {
                let h = inst.query.take().unwrap();
                let r = self.rt.as_ref().unwrap().block_on(h).unwrap_or_else(|_| "panic".into());
                // (the result as a compared item of the reply: how many records, which nodes, in which order)
                let (r, ids) = match r.split_once('|') {
                    Some((a, b)) => (a.to_string(), b.to_string()),
                    None => (r, "-".to_string()),
                };
                if let Some(n) = r.strip_prefix("ok:").and_then(|n| n.split(':').next().unwrap_or("").parse::<usize>().ok()) {
                    so.items.push(format!("qres:{}:{}", n, ids));
                }
                // C10: every node of the result answered a request of *this* lookup
                if ids != "-" && !inst.concurrent {
                    let answered: std::collections::HashSet<String> = inst.query_answered.iter().map(|i| id8(i)).collect();
                    for id in ids.split(',') {
                        if !answered.contains(id) {
                            s.push_str(&format!("\n!MON C10 lookup-result-names-a-node-that-did-not-answer-this-lookup id={}", id));
                        }
                    }
                }
                s.push_str(" qfin");
                // C09: a lookup that ends hands its result (possibly empty) to the caller
                if r == "err" || r == "panic" {
                    s.push_str(&format!("\n!MON C09 lookup-ended-without-handing-over-a-result outcome={}", r));
                }
                // C10: a lookup for at most k nodes returns at most k
                if r.ends_with(":unsorted") {
                    s.push_str("\n!MON C10 lookup-result-not-in-increasing-distance-to-the-target");
                }
                if let (Some(k), Some(n)) = (inst.query_k, r.strip_prefix("ok:").and_then(|n| n.split(':').next().unwrap_or("").parse::<usize>().ok())) {
                    if n > k {
                        s.push_str(&format!("\n!MON C10 lookup-returned-more-than-asked-for got={} k={}", n, k));
                    }
                }
                // C10: a lookup that returns fewer nodes than it was asked for has sent its request to
                // every candidate it knew of - the routing-table entries it started from among them
                // (whatever happened to their entries while it ran)
                if let Some(n) = r.strip_prefix("ok:").and_then(|n| n.split(':').next().unwrap_or("").parse::<usize>().ok()) {
                    let k = inst.query_k.unwrap_or(16);
                    if n < k && !inst.concurrent {
                        if let Some(miss) = inst.query_start.iter().find(|id| !inst.query_asked.contains(*id)) {
                            s.push_str(&format!(
                                "\n!MON C10 lookup-short-although-a-start-candidate-was-never-asked id={} got={} k={}",
                                id8(miss), n, k
                            ));
                        }
                    }
                }
                if let Some(n) = r.strip_prefix("ok:").and_then(|n| n.split(':').next().unwrap_or("").parse::<usize>().ok()) {
                    let k = inst.query_k.unwrap_or(16);
                    if n < k && !inst.concurrent {
                        if let Some(miss) = inst.query_learned.iter().find(|id| !inst.query_asked.contains(*id)) {
                            s.push_str(&format!(
                                "\n!MON C10 lookup-short-although-a-node-it-learned-of-was-never-asked id={} got={} k={}",
                                id8(miss), n, k
                            ));
                        }
                    }
                }
                inst.query_start.clear();
                inst.query_learned.clear();
                inst.query_k = None;
                s.push_str(&format!("\n!INFO query-result {}", r));
            }
        }
        // C09: a lookup whose requests have all been answered or have failed goes on (another request,
        // or its result) - it is not left waiting for something that will never come
        if inst.query.is_some()
            && !inst.concurrent
            && !inst.query_lost
            && !inst.reqs.iter().any(|r| r.is_query && r.epoch == inst.query_epoch && r.outstanding)
        {
            s.push_str("\n!MON C09 lookup-left-waiting-with-nothing-in-flight");
        }
        s
    }

    /// Resolves the ITEMS of a NODES answer into records.
    fn items(&mut self, x: char, k: usize, toks: &str) -> Vec<Enr> {
        let mut v = Vec::new();
        if toks == "-" {
            return v;
        }
        let (resp_id, resp_enr, requested, local_enr) = {
            let inst = &self.insts[&x];
            let r = &inst.reqs[k - 1];
            let ds = match &r.body {
                RequestBody::FindNode { distances } => distances.clone(),
                _ => vec![],
            };
            (r.contact.node_id().raw(), r.contact.enr(), ds, inst.discv5.local_enr())
        };
        for it in toks.split(',') {
            let f: Vec<&str> = it.split(':').collect();
            match f[0] {
                "@in" | "@at" => {
                    // a record at a requested (or given) distance from the responder
                    let (d, base, pad) = if f[0] == "@in" {
                        let d = requested.iter().copied().filter(|d| *d >= 246 && *d <= 256).max();
                        (d, f.get(1).and_then(|s| s.parse::<u64>().ok()).unwrap_or(0), f.get(2).and_then(|s| s.parse::<usize>().ok()).unwrap_or(0))
                    } else {
                        (
                            f.get(1).and_then(|s| s.parse::<u64>().ok()),
                            f.get(2).and_then(|s| s.parse::<u64>().ok()).unwrap_or(0),
                            f.get(3).and_then(|s| s.parse::<usize>().ok()).unwrap_or(0),
                        )
                    };
                    if let Some(d) = d {
                        if d >= 246 {
                            if let Some(s) = mine(base, |id| dist(&resp_id, id) == d) {
                                self.seeds.insert(id_of_seed(s), s);
                                if let Some(e) = build_rec(s, 1 + base % 5, if base % 11 == 7 { "u" } else { "4" }, pad) {
                                    v.push(e);
                                }
                            }
                        }
                    }
                }
                "@shared" => {
                    // one and the same stranger for whoever is answered with this token: a node at a requested
                    // distance from this responder; kept if it also suits the next responder
                    let base = f.get(1).and_then(|s| s.parse::<u64>().ok()).unwrap_or(0);
                    let known = self.insts[&x].shared;
                    let fits = |id: &[u8; 32]| {
                        let d = dist(&resp_id, id);
                        d != 0 && requested.contains(&d)
                    };
                    // (chosen so that it also suits a request of the other lookup, which is the one to be answered
                    // next - `#qs`; log2 distances are an ultrametric, not every pair of requests has a common node)
                    let others: Vec<(usize, [u8; 32], Vec<u64>)> = {
                        let inst = &self.insts[&x];
                        let me = inst.reqs[k - 1].lookup;
                        inst.reqs
                            .iter()
                            .enumerate()
                            .filter(|(_, r)| r.outstanding && r.is_query && r.lookup != 0 && r.lookup != me && me != 0)
                            .map(|(i, r)| (i + 1, r.contact.node_id().raw(), match &r.body { RequestBody::FindNode { distances } => distances.clone(), _ => vec![] }))
                            .collect()
                    };
                    let mut next: Option<usize> = None;
                    let seed = match known.and_then(|id| self.seeds.get(&id).copied()) {
                        Some(s) if fits(&id_of_seed(s)) => Some(s),
                        Some(_) => None,
                        None => {
                            let mut found = None;
                            for (k2, rid, ds) in others.iter() {
                                let fits_other = |id: &[u8; 32]| {
                                    let d = dist(rid, id);
                                    d != 0 && ds.contains(&d)
                                };
                                if let Some(sd) = mine(base, |id| fits(id) && fits_other(id)) {
                                    found = Some(sd);
                                    next = Some(*k2);
                                    break;
                                }
                            }
                            found
                        }
                    };
                    if next.is_some() {
                        self.insts.get_mut(&x).unwrap().shared_next = next;
                    }
                    if let Some(sd) = seed {
                        self.seeds.insert(id_of_seed(sd), sd);
                        self.insts.get_mut(&x).unwrap().shared = Some(id_of_seed(sd));
                        if let Some(e) = build_rec(sd, 1, "4", 0) {
                            v.push(e);
                        }
                    }
                }
                "@off" => {
                    let base = f.get(1).and_then(|s| s.parse::<u64>().ok()).unwrap_or(0);
                    if let Some(s) = mine(base, |id| {
                        let d = dist(&resp_id, id);
                        d != 0 && !requested.contains(&d)
                    }) {
                        self.seeds.insert(id_of_seed(s), s);
                        if let Some(e) = build_rec(s, 1, "4", 0) {
                            v.push(e);
                        }
                    }
                }
                "@own" => {
                    // the responder's own record: seq delta and shape
                    let dseq: i64 = f.get(1).and_then(|s| s.parse().ok()).unwrap_or(0);
                    let shape = f.get(2).copied().unwrap_or("same");
                    if let Some(seed) = self.seeds.get(&resp_id).copied() {
                        // (sequence numbers run over the whole u64 range)
                        let base_seq = resp_enr.as_ref().map(|e| e.seq()).unwrap_or(1) as i128;
                        let seq = (base_seq + dseq as i128).clamp(0, u64::MAX as i128) as u64;
                        if shape == "same" && dseq == 0 {
                            if let Some(e) = resp_enr.clone() {
                                v.push(e);
                            }
                        } else {
                            let sh = if shape == "same" { "4" } else { shape };
                            if let Some(e) = build_rec(seed, seq, sh, 0) {
                                v.push(e);
                            }
                        }
                    }
                }
                "@me" => v.push(local_enr.clone()),
                _ => {
                    if let Some(e) = self.rec(it) {
                        v.push(e);
                    }
                }
            }
        }
        v
    }

    /// Injects one NODES packet for request `k` of `x` and evaluates the C11 monitors on what the
    /// service did with it.  Returns the observation.
    fn inject_nodes(
        &mut self,
        x: char,
        k: usize,
        from: NodeAddress,
        total: u64,
        nodes: Vec<Enr>,
        honest: bool,
        out: &mut Vec<String>,
        stats: &mut Stats,
    ) -> StepOut {
        let (id, right_addr, requested, resp_id, callback, is_findnode, max_nodes, local_id) = {
            let inst = &self.insts[&x];
            let r = &inst.reqs[k - 1];
            let ds = match &r.body {
                RequestBody::FindNode { distances } => distances.clone(),
                _ => vec![],
            };
            (
                r.id.clone(),
                r.contact.node_address() == from,
                ds,
                r.contact.node_id().raw(),
                r.callback,
                matches!(r.body, RequestBody::FindNode { .. }),
                inst.max_nodes,
                inst.local_id,
            )
        };
        // the harness's own recomputation of which records are on-distance
        let enr_only = requested.len() == 1 && requested[0] == 0;
        let flags: Vec<([u8; 32], bool)> = nodes
            .iter()
            .map(|e| {
                let nid = e.node_id().raw();
                (nid, requested.contains(&dist(&resp_id, &nid)))
            })
            .collect();
        let conforming = flags.iter().all(|(_, ok)| *ok) && !(enr_only && nodes.len() > 1);
        let was_active = self.insts[&x].reqs[k - 1].outstanding;
        let resp = Response { id, body: ResponseBody::Nodes { total, nodes: nodes.clone() } };
        let _ = self.insts[&x].hout.try_send(HandlerOut::Response(from.clone(), Box::new(resp)));
        {
            let inst = self.insts.get_mut(&x).unwrap();
            inst.cur_lookup = if inst.concurrent { inst.reqs[k - 1].lookup } else { 0 };
        }
        let so = self.observe(x, self.insts[&x].reqs[k - 1].is_query, false);
        {
            // (profile C10shared: the lookup this request belongs to has taken an answer naming the stranger)
            let inst = self.insts.get_mut(&x).unwrap();
            inst.cur_lookup = 0;
            let l = inst.reqs[k - 1].lookup;
            if let Some(sh) = inst.shared {
                if (l == 1 || l == 2) && so.discovered.contains(&sh) {
                    inst.shared_seen[l as usize - 1] = true;
                }
            }
        }
        let banned = so.bans_node.iter().any(|n| n.raw() == from.node_id.raw()) || so.bans_ip.contains(&from.socket_addr.ip());
        // C10: records of this packet that the lookup certainly took up as candidates - reported as
        // discovered, admissible (table filter, contactable in this node's IP mode), not the responder's
        // own, and not refused as an update of a stored older record (the one way admission can still fail;
        // nodes with IP limits are left out, there a parked node's update can be refused unseen)
        let learn_cand: Vec<[u8; 32]> = {
            let inst = &self.insts[&x];
            if inst.ip_limit || so.discovered.is_empty() {
                Vec::new()
            } else {
                let table = inst.discv5.table_entries_enr();
                nodes
                    .iter()
                    .filter(|e| {
                        let nid = e.node_id().raw();
                        so.discovered.contains(&nid)
                            && nid != from.node_id.raw()
                            && nid != inst.local_id
                            && passes(inst.filter, e)
                            && contactable_addr(inst.mode, e).is_some()
                            && !table.iter().any(|t| t.node_id() == e.node_id() && t.seq() < e.seq())
                    })
                    .map(|e| e.node_id().raw())
                    .collect()
            }
        };
        let inst = self.insts.get_mut(&x).unwrap();
        let cur_epoch = inst.query_epoch;
        let q_lost = &mut inst.query_lost;
        let q_answered = &mut inst.query_answered;
        let q_learned = &mut inst.query_learned;
        let r = &mut inst.reqs[k - 1];
        let processed = was_active && right_addr && is_findnode && !callback;
        if !was_active || !right_addr {
            // a packet for a completed / unknown request, or from another address, must be ignored
            if !so.discovered.is_empty() {
                let at_limit = r.completed_seen && r.packets.len() >= 15;
                out.push(format!(
                    "!MON C11 {} req=r{}",
                    if at_limit { "too-many-packets-collected" } else { "packet-after-completion-processed" },
                    k
                ));
            }
            if banned && !was_active {
                stats.bump("s.c11.late-packet-banned");
            }
            if was_active && !right_addr {
                r.outstanding = false; // the service drops the request (see report)
                if r.is_query && r.epoch == cur_epoch {
                    *q_lost = true;
                }
            }
            stats.bump("s.c11.ignored-packet");
            return so;
        }
        if !is_findnode || callback {
            r.outstanding = false;
            return so;
        }
        stats.bump("s.c11.nodes-packets");
        if r.is_query && r.epoch == cur_epoch {
            q_answered.insert(resp_id);
            for id in learn_cand {
                q_learned.insert(id);
            }
        }
        // a ban hits the party that misbehaved - the node id it proved and the address it sent from -,
        // never an address that party merely claims (in its record)
        for ip in &so.bans_ip {
            if *ip != from.socket_addr.ip() {
                out.push(format!("!MON C11 address-banned-that-the-responder-did-not-send-from banned={} responder={}", ip, from.socket_addr.ip()));
            }
        }
        for nid in &so.bans_node {
            if nid.raw() != from.node_id.raw() {
                out.push(format!("!MON C11 node-banned-that-did-not-respond banned={}", id8(&nid.raw())));
            }
        }
        // bans
        if conforming && banned {
            out.push(format!(
                "!MON C11 {} req=r{} requested={}",
                if honest { "honest-responder-banned" } else { "conforming-responder-banned" },
                k,
                show_dists(&requested, ".")
            ));
        }
        if !conforming && !banned {
            out.push(format!("!MON C11 not-banned-for-off-distance req=r{} requested={}", k, show_dists(&requested, ".")));
        }
        if !conforming {
            stats.bump("s.c11.off-distance-packets");
        }
        if banned {
            stats.bump("s.c11.bans");
        }
        // packet accounting, recomputed
        r.packets.push(flags.clone());
        let kept = flags.iter().filter(|(_, ok)| *ok).count();
        let waits = total > 1 && r.received < max_nodes && (r.count as u64) < total && r.count < 15;
        if waits {
            r.count += 1;
            r.received += kept;
            if !so.discovered.is_empty() {
                out.push(format!("!MON C11 records-processed-before-completion req=r{}", k));
            }
        } else {
            r.outstanding = false;
            r.completed_seen = true;
            stats.bump("s.c11.completions");
            if r.packets.len() > 1 {
                stats.bump("s.c11.multi-packet-completions");
            }
            if r.packets.len() >= 15 {
                stats.bump("s.c11.completions-at-packet-limit");
            }
            // accepted records = Discovered events (the local id is dropped silently)
            let mut expect: Vec<[u8; 32]> = Vec::new();
            let npk = r.packets.len();
            for (pi, p) in r.packets.iter().enumerate() {
                // a final packet with total <= 1 discards what was collected before it
                if total <= 1 && pi + 1 != npk {
                    continue;
                }
                for (nid, ok) in p {
                    if *ok && *nid != local_id && pi < 15 {
                        expect.push(*nid);
                    }
                }
            }
            let mut got = so.discovered.clone();
            let mut exp_sorted = expect.clone();
            exp_sorted.sort();
            got.sort();
            if got != exp_sorted {
                for g in &got {
                    if !expect.contains(g) {
                        let off = r.packets.iter().any(|p| p.iter().any(|(n, ok)| n == g && !*ok));
                        out.push(format!(
                            "!MON C11 {} req=r{} id={}",
                            if off { "accepted-off-distance-record" } else { "accepted-unexpected-record" },
                            k,
                            id8(g)
                        ));
                    }
                }
                for e in &expect {
                    if !got.contains(e) {
                        out.push(format!("!MON C11 on-distance-record-dropped req=r{} id={}", k, id8(e)));
                    }
                }
                if got.len() != exp_sorted.len() && got.iter().all(|g| expect.contains(g)) && expect.iter().all(|e| got.contains(e)) {
                    out.push(format!("!MON C11 accepted-multiset-differs req=r{}", k));
                }
            }
        }
        if r.packets.len() > 15 {
            out.push(format!("!MON C11 too-many-packets-collected req=r{} n={}", k, r.packets.len()));
        }
        so
    }

    /// C14 monitors on the answers to a FINDNODE served by instance `y`.
    fn c14_findnode(
        &mut self,
        y: char,
        requester: &[u8; 32],
        rid: &[u8],
        ds: &[u64],
        before: &BTreeMap<usize, SnapBucket>,
        so: &StepOut,
        out: &mut Vec<String>,
        stats: &mut Stats,
    ) {
        let inst = &self.insts[&y];
        let local = inst.discv5.local_enr();
        let packets: Vec<&(NodeAddress, Response)> = so.responses.iter().collect();
        if packets.is_empty() {
            out.push("!MON C14 findnode-not-answered".into());
            return;
        }
        let mut recs: Vec<Enr> = Vec::new();
        for (_, r) in &packets {
            if r.id.0 != rid {
                out.push("!MON C14 response-with-other-request-id".into());
            }
            match &r.body {
                ResponseBody::Nodes { total, nodes } => {
                    if *total != packets.len() as u64 {
                        out.push(format!("!MON C14 total-differs-from-packet-count total={} packets={}", total, packets.len()));
                    }
                    let len = datagram_len(r);
                    if len > 1280 {
                        out.push(format!("!MON C14 response-exceeds-datagram size={} records={}", len, nodes.len()));
                    }
                    if len > 1200 {
                        stats.bump("s.c14.packets-over-1200");
                    }
                    recs.extend(nodes.iter().cloned());
                }
                _ => out.push("!MON C14 findnode-answered-with-other-type".into()),
            }
        }
        if packets.len() > 1 {
            stats.bump("s.c14.multi-packet-answers");
        }
        let want_own = ds.contains(&0);
        let mut eligible: Vec<Enr> = Vec::new();
        let mut sorted: Vec<u64> = ds.to_vec();
        sorted.sort();
        sorted.dedup();
        let mut eligible_incl_requester = 0usize;
        for d in &sorted {
            if *d >= 1 && *d <= 256 {
                if let Some(b) = before.get(&((*d - 1) as usize)) {
                    for n in &b.nodes {
                        eligible_incl_requester += 1;
                        if &n.id != requester {
                            eligible.push(n.enr.clone());
                        }
                    }
                }
            }
        }
        let mut rest: Vec<Enr> = recs.clone();
        if want_own {
            if rest.first().map(|e| *e == local).unwrap_or(false) {
                rest.remove(0);
            } else {
                out.push("!MON C14 own-record-missing-for-distance-0".into());
            }
        }
        if rest.iter().any(|e| *e == local) && !eligible.iter().any(|e| *e == local) {
            out.push("!MON C14 own-record-without-distance-0".into());
        }
        if recs.iter().any(|e| &e.node_id().raw() == requester) {
            out.push("!MON C14 requester-record-returned".into());
        }
        for e in &rest {
            if !eligible.contains(e) {
                out.push(format!("!MON C14 record-not-at-requested-distance id={}", id8(&e.node_id().raw())));
            }
        }
        let mut seen = HashSet::new();
        for e in &rest {
            if !seen.insert(e.node_id().raw()) {
                out.push(format!("!MON C14 record-returned-twice id={}", id8(&e.node_id().raw())));
            }
        }
        if eligible_incl_requester <= inst.max_nodes {
            for e in &eligible {
                if !rest.contains(e) {
                    out.push(format!("!MON C14 table-entry-missing-from-answer id={}", id8(&e.node_id().raw())));
                }
            }
        } else {
            stats.bump("s.c14.capped-answers");
            if rest.len() + 1 < inst.max_nodes.min(eligible.len()) {
                out.push(format!("!MON C14 capped-answer-too-short n={}", rest.len()));
            }
        }
        if rest.len() > inst.max_nodes {
            out.push(format!("!MON C14 more-records-than-configured-maximum n={}", rest.len()));
        }
        if !rest.is_empty() {
            stats.bump("s.c14.nonempty-answers");
        }
    }
}

fn parse_u64_tok(t: &str) -> Option<u64> {
    t.parse().ok()
}

impl Runner for ServiceRunner {
    fn reset(&mut self) {
        self.insts.clear();
        self.talks.clear();
        self.talk_meta.clear();
        self.rt = None;
        self.seeds.clear();
        self.bans.clear();
        self.ban_prev_ips.clear();
        self.ban_prev_nodes.clear();
        self.rt = Some(new_rt());
        self.t0 = None;
    }

    fn step(&mut self, line: &str, out: &mut Vec<String>, stats: &mut Stats) {
        if self.rt.is_none() {
            self.rt = Some(new_rt());
        }
        let t: Vec<&str> = line.split(' ').collect();
        let noop = |out: &mut Vec<String>| {
            out.push("!OP snop".into());
            out.push("noop".into());
        };
        let x = t.get(1).and_then(|s| s.chars().next()).unwrap_or('?');
        match t.as_slice() {
            ["snew", _, key, seq, shape, pad, mode_tok, filter, maxn, maxin, enrupd, rest @ ..] => {
                let (Some(seed), Some(seq), Some(pad), Some(mode), Some(maxn), Some(maxin)) = (
                    key.strip_prefix('k').and_then(|s| s.parse::<u64>().ok()),
                    parse_u64_tok(seq),
                    pad.parse::<usize>().ok(),
                    parse_mode(mode_tok),
                    maxn.parse::<usize>().ok(),
                    maxin.parse::<usize>().ok(),
                ) else {
                    return noop(out);
                };
                let filter = if *filter == "rej" { Filter::Rej } else { Filter::All };
                let enr_update = *enrupd == "1";
                let vote_min = rest.first().and_then(|s| s.parse::<usize>().ok()).unwrap_or(10);
                let Some(enr) = build_rec(seed, seq, shape, pad) else { return noop(out) };
                self.seeds.insert(id_of_seed(seed), seed);
                self.insts.remove(&x);
                let rt = self.rt.as_ref().unwrap();
                let Some(inst) = Inst::start(rt, x, seed, enr.clone(), mode, filter, maxn, maxin, enr_update, vote_min) else {
                    return noop(out);
                };
                let an = match inst.auto_nat {
                    Some(d) => d.as_millis().to_string(),
                    None => "-".to_string(),
                };
                if inst.auto_nat.map(|d| d < Duration::from_secs(60)).unwrap_or(false) {
                    stats.bump("s.instances-with-short-listen-duration");
                }
                self.insts.insert(x, inst);
                let _ = self.tok_ms();
                stats.bump("s.instances");
                out.push(format!(
                    "!OP snew {} {} {} {} {} {} an={}",
                    x,
                    rec_abs(&enr, filter),
                    mode_tok,
                    maxn,
                    maxin.min(16),
                    enr_update as u8,
                    an
                ));
                out.push("ok".into());
            }
            // profile C10shared, at the end: two lookups have both taken an answer naming the same stranger and
            // have both ended (with fewer nodes than they were asked for - the whole case knows fewer than 16):
            // each of them has sent the stranger its request
            ["sshared", _] => {
                let inst = &self.insts[&x];
                let done2 = inst.query2.as_ref().map(|h| h.is_finished()).unwrap_or(true);
                if inst.shared.is_none() { stats.bump("s.c10.shared.no-stranger"); }
                if !inst.shared_seen[0] { stats.bump("s.c10.shared.lookup-1-did-not-take-it"); }
                if !inst.shared_seen[1] { stats.bump("s.c10.shared.lookup-2-did-not-take-it"); }
                if inst.query.is_some() { stats.bump("s.c10.shared.lookup-1-not-ended"); }
                if !done2 { stats.bump("s.c10.shared.lookup-2-not-ended"); }
                if let (Some(sh), true, true, true) = (inst.shared, inst.shared_seen[0] && inst.shared_seen[1], inst.query.is_none(), done2) {
                    stats.bump("s.c10.two-lookups-learned-of-one-stranger-and-ended");
                    let asked = inst.reqs.iter().filter(|r| r.is_query && r.contact.node_id().raw() == sh && matches!(r.body, RequestBody::FindNode { .. })).count();
                    if asked < 2 {
                        out.push(format!("!MON C10 of-two-lookups-that-learned-of-a-node-only-{}-asked-it id={}", asked, id8(&sh)));
                    }
                }
                out.push("!OP snop".into());
                out.push("ok".into());
            }
            // the life of the process-wide permit / ban lists around the start of a node: entries made through
            // the node's own API after it was constructed are there when it has been started, and when it has
            // been shut down and started again
            ["sboot", seed] => {
                let seed: u64 = seed.parse().unwrap_or(1);
                let Some(enr) = build_rec(seed, 1, "4", 0) else { return noop(out) };
                let rt = self.rt.as_ref().unwrap();
                let _g = rt.enter();
                discv5::verif::limiter::permit_ban_reset();
                let cfg = ConfigBuilder::new(ListenConfig::Ipv4 { ip: Ipv4Addr::UNSPECIFIED, port: 9000 }).build();
                let Ok(mut d) = Discv5::new(enr, key_of(seed), cfg) else { return noop(out) };
                let n1 = NodeId::new(&id_of_seed(seed + 1));
                let n2 = NodeId::new(&id_of_seed(seed + 2));
                let ip1 = IpAddr::V4(Ipv4Addr::new(192, 0, 2, (seed % 200 + 1) as u8));
                let ip2 = IpAddr::V4(Ipv4Addr::new(198, 51, 100, (seed % 200 + 1) as u8));
                d.ban_node(&n1, if seed % 2 == 0 { None } else { Some(Duration::from_secs(3600)) });
                d.ban_ip(ip1, Some(Duration::from_secs(3600)));
                d.permit_node(&n2);
                d.permit_ip(ip2);
                let complete = |stage: &str, out: &mut Vec<String>| {
                    let snap = discv5::verif::limiter::permit_ban_snapshot();
                    let ok = snap.ban_nodes.iter().any(|(n, _)| *n == n1)
                        && snap.ban_ips.iter().any(|(i, _)| *i == ip1)
                        && snap.permit_nodes.contains(&n2)
                        && snap.permit_ips.contains(&ip2);
                    if !ok {
                        out.push(format!("!MON C18 bans-or-permits-made-through-the-api-lost-{}", stage));
                    }
                };
                complete("before-the-start", out);
                let started = d.start_scripted().is_ok();
                complete("when-the-node-was-started", out);
                d.shutdown();
                rt.block_on(async { tokio::task::yield_now().await });
                let restarted = d.start_scripted().is_ok();
                complete("when-the-node-was-started-again", out);
                d.shutdown();
                discv5::verif::limiter::permit_ban_reset();
                self.ban_prev_ips.clear();
                self.ban_prev_nodes.clear();
                stats.bump("s.c18.node-booted-with-api-made-entries");
                if started && restarted { stats.bump("s.c18.node-started-twice"); }
                out.push("!OP snop".into());
                out.push("ok".into());
            }
            _ if !self.insts.contains_key(&x) && t[0] != "sbans" => noop(out),
            // an address is put on the permit list (packets from it always pass the filter; misbehaviour
            // is recorded all the same)
            ["spermit", _, addr, rest @ ..] => {
                let Some(a) = parse_addr(addr) else { return noop(out) };
                discv5::verif::limiter::permit_ip(a.ip());
                stats.bump("s.permitted-ip");
                // `ban=<peer>`: the same address and that node id also carry a ban entry (an operator permits a
                // peer the rate limiter banned a minute ago).  The permit lists take precedence in the packet
                // filter, so this peer's requests still reach the service - and are owed their answers.
                if let Some(pid) = rest.first().and_then(|r| r.strip_prefix("ban=")).and_then(parse_peer) {
                    discv5::verif::limiter::permit_node(NodeId::new(&pid));
                    discv5::verif::limiter::ban_ip(a.ip(), Some(Duration::from_secs(3600)));
                    discv5::verif::limiter::ban_node(NodeId::new(&pid), Some(Duration::from_secs(3600)));
                    let snap = discv5::verif::limiter::permit_ban_snapshot();
                    for (ip, exp) in &snap.ban_ips {
                        self.ban_prev_ips.insert(*ip, *exp);
                    }
                    for (nid, exp) in &snap.ban_nodes {
                        self.ban_prev_nodes.insert(nid.raw(), *exp);
                    }
                    stats.bump("s.permitted-peer-that-is-also-banned");
                }
                out.push(format!("!OP spermit {}", x));
                out.push("ok".into());
            }
            // the handler asks who a sender is (a packet it could not attribute to a session arrived):
            // the service answers with the record it knows, and nothing else changes - the packet
            // proves nothing about its claimed sender
            ["sway", _, peer, addr] => {
                let (Some(id), Some(a)) = (parse_peer(peer), parse_addr(addr)) else { return noop(out) };
                let na = NodeAddress { socket_addr: a, node_id: NodeId::new(&id) };
                let before = self.insts[&x].snapshot_digest();
                let stored = self.insts[&x].discv5.table_entries_enr().into_iter().find(|e| e.node_id().raw() == id);
                let _ = self.insts[&x].hout.try_send(HandlerOut::WhoAreYou(whoareyou_ref(na, [7u8; 12])));
                let so = self.observe(x, false, false);
                stats.bump("s.whoareyou-queries");
                // C12: the transport keeps the newer of the record a peer attaches and the one the service
                // knows - so the service has to say what it has stored for that node, wherever the packet
                // came from (otherwise an older record rides in on the next handshake and replaces it)
                if let Some(st) = stored {
                    stats.bump("s.whoareyou-queries-for-a-stored-node");
                    let want = format!("way:{}@{}:{}", id8(&id), sock_num(&a), rec_short(&st));
                    if !so.items.iter().any(|i| *i == want) {
                        out.push(format!("!MON C12 who-are-you-query-not-answered-with-the-stored-record id={} stored-seq={} from={}", id8(&id), st.seq(), a));
                    }
                }
                let after = self.insts[&x].snapshot_digest();
                if before != after {
                    out.push(format!("!MON C01 routing-table-changed-by-a-who-are-you-query peer={}", id8(&id)));
                    out.push(format!("!MON C12 routing-table-changed-by-a-who-are-you-query peer={}", id8(&id)));
                }
                out.push(format!("!OP sway {} {} {}", x, hex::encode(id), sock_num(&a)));
                self.finish(x, "sway", None, so, None, out, stats);
            }
            // time of the (paused) tokio clock passes: the connectivity timers may run out
            ["sidle", _, ms] => {
                let ms: u64 = ms.parse().unwrap_or(0).min(600_000);
                let (f, before) = (self.insts[&x].filter, self.insts[&x].discv5.local_enr());
                if let Some(rt) = self.rt.as_ref() {
                    rt.block_on(async { tokio::time::sleep(Duration::from_millis(ms)).await });
                }
                let so = self.observe(x, false, false);
                let tok = self.tok_ms();
                let after = self.insts[&x].discv5.local_enr();
                let mut sfx = String::new();
                if after != before {
                    stats.bump("s.c17.idle-changed-local-record");
                    sfx.push_str(&format!(" local={}", rec_abs(&after, f)));
                    let inst = self.insts.get_mut(&x).unwrap();
                    if before.udp4_socket().is_some() && after.udp4_socket().is_none() {
                        inst.revoked4 = true;
                        stats.bump("s.c17.socket-revoked");
                    }
                    if before.udp6_socket().is_some() && after.udp6_socket().is_none() {
                        inst.revoked6 = true;
                        stats.bump("s.c17.socket-revoked");
                    }
                    // C17: a change of the record is never a new or another socket unless a PONG caused it
                    if (after.udp4_socket().is_some() && after.udp4_socket() != before.udp4_socket())
                        || (after.udp6_socket().is_some() && after.udp6_socket() != before.udp6_socket())
                    {
                        out.push("!MON C17 socket-changed-without-clear-majority idle".into());
                    }
                    if !after.verify() {
                        out.push("!MON C17 local-record-signature-invalid".into());
                    }
                    if after.seq() <= before.seq() {
                        out.push("!MON C17 seq-not-increased".into());
                    }
                } else {
                    stats.bump("s.c17.idle-left-local-record");
                }
                out.push(format!("!OP sidle {} t={}{}", x, tok, sfx));
                self.finish(x, "sidle", None, so, None, out, stats);
            }
            // nothing happens for MS milliseconds - of the real clock (the lookups' deadlines) and of the
            // runtime's clock alike; the service is not woken
            ["srealsleep", _, ms] => {
                let ms: u64 = ms.parse().unwrap_or(0).min(5_000);
                std::thread::sleep(Duration::from_millis(ms));
                if let Some(rt) = self.rt.as_ref() {
                    rt.block_on(async { tokio::time::sleep(Duration::from_millis(ms)).await });
                }
                stats.bump("s.c09.silence-on-both-clocks");
                out.push(format!("!OP srealsleep {}", x));
                out.push("ok".into());
            }
            // from now on the application writes to the local record (a field of its own, through the shared
            // `external_enr`) from another thread while PONGs are processed
            ["srace", _] => {
                self.insts.get_mut(&x).unwrap().race = true;
                stats.bump("s.c17.application-writes-concurrently");
                out.push(format!("!OP srace {}", x));
                out.push("ok".into());
            }
            // the ban lists already hold N entries that are in force (an operator's block list, an hour of
            // rate-limit bans)
            ["sbanfill", _, n] => {
                let n: u32 = n.parse().unwrap_or(0).min(5000);
                for i in 0..n {
                    let ip = IpAddr::V4(Ipv4Addr::new(172, 16 + (i >> 16) as u8, (i >> 8) as u8, i as u8));
                    discv5::verif::limiter::ban_ip(ip, Some(Duration::from_secs(3600)));
                    let mut raw = [0xb0u8; 32];
                    raw[28..32].copy_from_slice(&i.to_be_bytes());
                    discv5::verif::limiter::ban_node(NodeId::new(&raw), Some(Duration::from_secs(3600)));
                }
                // (they are there from the start: not reported as new bans)
                let snap = discv5::verif::limiter::permit_ban_snapshot();
                for (ip, exp) in &snap.ban_ips {
                    self.ban_prev_ips.insert(*ip, *exp);
                }
                for (nid, exp) in &snap.ban_nodes {
                    self.ban_prev_nodes.insert(nid.raw(), *exp);
                }
                stats.bump("s.ban-lists-prefilled");
                out.push(format!("!OP sbanfill {}", x));
                out.push("ok".into());
            }
            // the application sets the advertised UDP socket itself (`Discv5::update_local_enr_socket`)
            ["ssetsock", _, addr] => {
                let Some(a) = parse_addr(addr) else { return noop(out) };
                let f = self.insts[&x].filter;
                let changed = self.insts[&x].discv5.update_local_enr_socket(a, false);
                let after = self.insts[&x].discv5.local_enr();
                if changed {
                    stats.bump("s.c17.socket-set-by-the-application");
                }
                out.push(format!("!OP ssetsock {} local={}", x, rec_abs(&after, f)));
                out.push("ok".into());
            }
            // real time passes
            ["ssleep", _, ms] => {
                let ms: u64 = ms.parse().unwrap_or(0).min(3000);
                std::thread::sleep(Duration::from_millis(ms));
                out.push(format!("!OP ssleep {}", x));
                out.push("ok".into());
            }
            // the application drops its event stream and subscribes again: events flow to the new one
            ["sevresub", _] => {
                let rt = self.rt.as_ref().unwrap();
                let inst = self.insts.get_mut(&x).unwrap();
                // (close the old receiver first: the service only notices on its next event)
                inst.events.close();
                match rt.block_on(inst.discv5.event_stream()) {
                    Ok(ev) => inst.events = ev,
                    Err(_) => return noop(out),
                }
                stats.bump("s.event-stream-resubscribed");
                out.push(format!("!OP sevresub {}", x));
                out.push("ok".into());
            }
            // the application stops / resumes reading its event stream; what piled up is discarded
            ["sevpause", _] => {
                self.insts.get_mut(&x).unwrap().events_paused = true;
                stats.bump("s.events-paused");
                out.push(format!("!OP sevpause {}", x));
                out.push("ok".into());
            }
            ["sevresume", _] => {
                let inst = self.insts.get_mut(&x).unwrap();
                inst.events_paused = false;
                let mut n = 0;
                while inst.events.try_recv().is_ok() {
                    n += 1;
                }
                if n >= 100 {
                    stats.bump("s.event-stream-overflowed");
                }
                out.push(format!("!OP sevresume {}", x));
                out.push("ok".into());
            }
            ["sadd", _, rec] => {
                let Some(enr) = self.rec(rec) else { return noop(out) };
                let f = self.insts[&x].filter;
                let r = self.insts[&x].discv5.add_enr(enr.clone());
                stats.bump(if r.is_ok() { "s.add.ok" } else { "s.add.err" });
                let so = self.observe(x, false, false);
                out.push(format!("!OP sadd {} {}", x, rec_abs(&enr, f)));
                let res = if r.is_ok() { "ok".to_string() } else { "err:add".to_string() };
                self.finish(x, "sadd", Some(enr.node_id().raw()), so, Some(res), out, stats);
            }
            ["sest", _, rec, addr, dir] => {
                let Some(enr) = self.rec(rec) else { return noop(out) };
                let (f, mode) = (self.insts[&x].filter, self.insts[&x].mode);
                let a = if *addr == "=" {
                    contactable_addr(mode, &enr).unwrap_or_else(|| "10.9.9.9:9999".parse().unwrap())
                } else {
                    match parse_addr(addr) {
                        Some(a) => a,
                        None => return noop(out),
                    }
                };
                let d = if *dir == "i" { ConnectionDirection::Incoming } else { ConnectionDirection::Outgoing };
                let stored_before = self.insts[&x].discv5.table_entries_enr().into_iter().find(|e| e.node_id() == enr.node_id());
                let _ = self.insts[&x].hout.try_send(HandlerOut::Established(enr.clone(), a, d));
                stats.bump("s.established");
                let rm = if self.insts[&x].require_more(enr.udp6_socket().is_some()) { " rm=1" } else { "" };
                let so = self.observe(x, false, false);
                // C12: the record the handler reports is the one it checked against the source of the
                // packets; if the report creates or changes the node's entry, that record is what is stored
                let stored_after = self.insts[&x].discv5.table_entries_enr().into_iter().find(|e| e.node_id() == enr.node_id());
                if let Some(after) = &stored_after {
                    if stored_before.as_ref() != Some(after) && *after != enr {
                        out.push(format!(
                            "!MON C12 session-report-stored-another-record-than-the-one-reported id={} reported-seq={} stored-seq={} stored-addr={:?}",
                            id8(&enr.node_id().raw()), enr.seq(), after.seq(), contactable_addr(mode, after)
                        ));
                    }
                }
                out.push(format!("!OP sest {} {} {} {}{}", x, rec_abs(&enr, f), sock_num(&a), dir, rm));
                self.finish(x, "sest", Some(enr.node_id().raw()), so, None, out, stats);
            }
            ["srm", _, peer] => {
                let Some(id) = parse_peer(peer) else { return noop(out) };
                let r = self.insts[&x].discv5.remove_node(&NodeId::new(&id));
                let so = self.observe(x, false, false);
                out.push(format!("!OP srm {} {}", x, hex::encode(id)));
                self.finish(x, "srm", None, so, Some(format!("removed={}", r)), out, stats);
            }
            // `sunverifiable X REC [PEER]`: the handler reports that the party which proved to be PEER
            // (default: the record's own id) presented the record REC, which does not verify
            ["sunverifiable", _, rec, rest @ ..] => {
                let Some(enr) = self.rec(rec) else { return noop(out) };
                let proven: [u8; 32] = match rest.first().and_then(|p| parse_peer(p)) {
                    Some(id) => id,
                    None => enr.node_id().raw(),
                };
                let a: SocketAddr = "10.9.9.8:9998".parse().unwrap();
                let before: Vec<[u8; 32]> = self.insts[&x].discv5.table_entries_id().iter().map(|i| i.raw()).collect();
                let _ = self.insts[&x].hout.try_send(HandlerOut::UnverifiableEnr { enr: enr.clone(), socket: a, node_id: NodeId::new(&proven) });
                let so = self.observe(x, false, false);
                // C01 (service half): only the entry of the id that was actually proven may be removed
                let after: Vec<[u8; 32]> = self.insts[&x].discv5.table_entries_id().iter().map(|i| i.raw()).collect();
                for gone in before.iter().filter(|i| !after.contains(i)) {
                    if *gone != proven {
                        out.push(format!("!MON C01 table-entry-removed-for-unproven-id removed={} proven={}", hex::encode(&gone[..4]), hex::encode(&proven[..4])));
                    }
                }
                if proven != enr.node_id().raw() {
                    stats.bump("s.unverifiable-foreign-record");
                }
                out.push(format!("!OP sunverifiable {} {}", x, hex::encode(proven)));
                self.finish(x, "sunverifiable", None, so, None, out, stats);
            }
            ["sreq", _, peer, addr, rid, kind, args @ ..] => {
                let (Some(id), Some(a), Some(ridb)) = (parse_peer(peer), parse_addr(addr), unhx(rid)) else { return noop(out) };
                let body = match (*kind, args) {
                    ("ping", [seq]) => match parse_u64_tok(seq) {
                        Some(s) => RequestBody::Ping { enr_seq: s },
                        None => return noop(out),
                    },
                    ("findnode", [ds]) => match parse_dists(ds) {
                        Some(d) => RequestBody::FindNode { distances: d },
                        None => return noop(out),
                    },
                    ("talk", [p, q]) => match (unhx(p), unhx(q)) {
                        (Some(p), Some(q)) => RequestBody::Talk { protocol: p, request: q },
                        _ => return noop(out),
                    },
                    _ => return noop(out),
                };
                let na = NodeAddress { socket_addr: a, node_id: NodeId::new(&id) };
                let before = self.insts[&x].prev.clone();
                let local_seq = self.insts[&x].discv5.local_enr().seq();
                let req = Request { id: RequestId(ridb.clone()), body: body.clone() };
                let _ = self.insts[&x].hout.try_send(HandlerOut::Request(na.clone(), Box::new(req)));
                let so = self.observe(x, false, false);
                match &body {
                    RequestBody::FindNode { distances } => {
                        stats.bump("s.c14.findnode-served");
                        self.c14_findnode(x, &id, &ridb, distances, &before, &so, out, stats);
                    }
                    RequestBody::Ping { .. } => {
                        stats.bump("s.c14.ping-served");
                        let pongs: Vec<&(NodeAddress, Response)> =
                            so.responses.iter().filter(|(_, r)| matches!(r.body, ResponseBody::Pong { .. })).collect();
                        if a.port() == 0 {
                            if !pongs.is_empty() {
                                out.push("!MON C14 pong-to-port-zero".into());
                            }
                        } else if pongs.len() != 1 {
                            out.push(format!("!MON C14 ping-answered-{}-times", pongs.len()));
                        } else {
                            let (to, r) = pongs[0];
                            if let ResponseBody::Pong { enr_seq, ip, port } = &r.body {
                                if *enr_seq != local_seq {
                                    out.push(format!("!MON C14 pong-wrong-seq got={} local={}", enr_seq, local_seq));
                                }
                                if *ip != a.ip() || port.get() != a.port() {
                                    out.push(format!("!MON C14 pong-not-observed-source got={}:{} src={}", ip, port, a));
                                }
                            }
                            if r.id.0 != ridb || *to != na {
                                out.push("!MON C14 pong-wrong-id-or-destination".into());
                            }
                            // on the wire too: message type 2, list [id, enr-seq, ip, port] with the ip
                            // field holding exactly the observed address (4 bytes for IPv4, 16 for IPv6,
                            // IPv4-mapped ones included)
                            let enc = response_encode(r.clone());
                            let want: Vec<u8> = match a.ip() {
                                IpAddr::V4(v) => v.octets().to_vec(),
                                IpAddr::V6(v) => v.octets().to_vec(),
                            };
                            match pong_ip_field(&enc) {
                                Some(f) if f == want => {}
                                other => out.push(format!("!MON C14 encoded-pong-ip-field-is-not-the-observed-address field={:?} src={}", other.map(|f| hex::encode(f)), a)),
                            }
                        }
                        if so.new_reqs.len() == 1 {
                            stats.bump("s.enr-request-after-ping");
                        }
                    }
                    RequestBody::Talk { .. } => {
                        stats.bump("s.talk-served");
                        let n = so.responses.iter().filter(|(to, r)| r.id.0 == ridb && *to == na && matches!(&r.body, ResponseBody::Talk { response } if response.is_empty())).count();
                        if n != 1 || so.responses.len() != 1 {
                            out.push(format!("!MON C20 dropped-talk-request-answered-{}-times", so.responses.len()));
                        }
                    }
                }
                out.push(format!(
                    "!OP sreq {} {} {} {} {}",
                    x,
                    hex::encode(id),
                    sock_num(&a),
                    rid,
                    match &body {
                        RequestBody::Ping { enr_seq } => format!("ping {}", enr_seq),
                        RequestBody::FindNode { distances } => format!("findnode {}", show_dists(distances, ",")),
                        RequestBody::Talk { protocol, request } => format!("talk {} {}", hx(protocol), hx(request)),
                    }
                ));
                self.finish(x, "sreq", None, so, None, out, stats);
            }
            ["sresp", _, rf, src, kind, args @ ..] => {
                let Some(k) = self.insts[&x].resolve_ref(rf) else { return noop(out) };
                let contact_addr = self.insts[&x].reqs[k - 1].contact.node_address();
                let from = if *src == "ok" {
                    contact_addr.clone()
                } else if let Some(a) = src.strip_prefix("addr:").and_then(parse_addr) {
                    NodeAddress { socket_addr: a, node_id: contact_addr.node_id }
                } else if let Some(p) = src.strip_prefix("id:").and_then(parse_peer) {
                    NodeAddress { socket_addr: contact_addr.socket_addr, node_id: NodeId::new(&p) }
                } else {
                    return noop(out);
                };
                // A response attributed to another node address than the request went to is something
                // the real handler never hands over; the service declares it unreachable
                // (`debug_unreachable!`), and this harness is built with the crate's assertions active.
                if cfg!(debug_assertions) && from != contact_addr {
                    stats.bump("s.skipped-response-from-foreign-node-address");
                    return noop(out);
                }
                let f = self.insts[&x].filter;
                let head = format!("sresp {} r{} {} {}", x, k, hex::encode(from.node_id.raw()), sock_num(&from.socket_addr));
                match (*kind, args) {
                    ("nodes", [total, items]) => {
                        let Some(total) = parse_u64_tok(total) else { return noop(out) };
                        let nodes = self.items(x, k, items);
                        let table_before = self.insts[&x].discv5.table_entries_enr();
                        let mut so = self.inject_nodes(x, k, from, total, nodes.clone(), false, out, stats);
                        // C12: of two records of one node offered in one answer that differ in nothing but
                        // the sequence number, both newer than the stored one, the older is never what stays
                        for after in self.insts[&x].discv5.table_entries_enr() {
                            let before = table_before.iter().find(|e| e.node_id() == after.node_id());
                            if before == Some(&after) {
                                continue;
                            }
                            let same_shape = |a: &Enr, b: &Enr| a.udp4_socket() == b.udp4_socket() && a.udp6_socket() == b.udp6_socket() && a.tcp4() == b.tcp4() && a.tcp6() == b.tcp6();
                            if nodes.iter().any(|r| r.node_id() == after.node_id() && r.seq() > after.seq() && same_shape(r, &after))
                                && nodes.iter().any(|r| *r == after)
                            {
                                out.push(format!("!MON C12 older-of-two-records-offered-in-one-answer-kept id={} stored-seq={}", id8(&after.node_id().raw()), after.seq()));
                            }
                        }
                        let sfx = self.query_suffix(x, &mut so);
                        let recs = if nodes.is_empty() { "-".to_string() } else { nodes.iter().map(|e| rec_abs(e, f)).collect::<Vec<_>>().join(",") };
                        out.push(format!("!OP {} nodes {} {}{}", head, total, recs, sfx));
                        self.finish(x, "sresp", None, so, None, out, stats);
                    }
                    ("pong", [seq, addr]) => {
                        let base = self.insts[&x].reqs[k - 1].contact.enr().map(|e| e.seq()).unwrap_or(0);
                        let seq = if let Some(d) = seq.strip_prefix('+') { base + d.parse::<u64>().unwrap_or(0) } else { seq.parse::<u64>().unwrap_or(0) };
                        // `self4` / `self6`: the socket the local record advertises right now (a confirmation)
                        let a = match *addr {
                            "self4" => self.insts[&x].discv5.local_enr().udp4_socket().map(SocketAddr::V4),
                            "self6" => self.insts[&x].discv5.local_enr().udp6_socket().map(SocketAddr::V6),
                            _ => parse_addr(addr),
                        };
                        let Some(a) = a else { return noop(out) };
                        if addr.starts_with("self") { stats.bump("s.c17.vote-for-advertised-socket"); }
                        let Some(port) = NonZeroU16::new(a.port()) else { return noop(out) };
                        let id = self.insts[&x].reqs[k - 1].id.clone();
                        let resp = Response { id, body: ResponseBody::Pong { enr_seq: seq, ip: a.ip(), port } };
                        let local_before = self.insts[&x].discv5.local_enr();
                        // eligibility of the vote, from the state before the PONG
                        let (processed, conn_out, rm) = {
                            let inst = &self.insts[&x];
                            let r = &inst.reqs[k - 1];
                            let processed = r.outstanding && !r.callback && matches!(r.body, RequestBody::Ping { .. }) && r.contact.node_address() == from;
                            let vid = from.node_id.raw();
                            let conn_out = inst.prev.values().any(|b| b.nodes.iter().any(|n| n.id == vid && n.conn && !n.incoming));
                            (processed, conn_out, inst.require_more(a.is_ipv6()))
                        };
                        let tok = self.tok_ms();
                        let racing = self.insts[&x].race;
                        let racer = if racing {
                            use std::sync::atomic::{AtomicBool, AtomicU64, Ordering};
                            let arc = self.insts[&x].discv5.external_enr();
                            let key = key_of(self.insts[&x].local_seed);
                            let stop = std::sync::Arc::new(AtomicBool::new(false));
                            let done = std::sync::Arc::new(AtomicU64::new(0));
                            let (st, dn) = (stop.clone(), done.clone());
                            let h = std::thread::spawn(move || {
                                let (mut undone, mut same_seq) = (false, false);
                                let mut i: u64 = 0;
                                let mut last: Option<(u64, Vec<u8>)> = None;
                                let check = |e: &Enr, i: u64, last: &Option<(u64, Vec<u8>)>, undone: &mut bool, same_seq: &mut bool| {
                                    if let Some((sq, sig)) = last {
                                        // only the application writes this field: it still holds what was written last
                                        if !matches!(e.get_decodable::<u64>("ctr"), Some(Ok(v)) if v == i) {
                                            *undone = true;
                                        }
                                        if e.seq() == *sq && e.signature() != &sig[..] {
                                            *same_seq = true;
                                        }
                                        if e.seq() < *sq {
                                            *same_seq = true;
                                        }
                                    }
                                };
                                loop {
                                    let halt = st.load(Ordering::SeqCst);
                                    {
                                        let e = arc.read();
                                        check(&e, i, &last, &mut undone, &mut same_seq);
                                    }
                                    if halt {
                                        break;
                                    }
                                    i += 1;
                                    let mut w = arc.write();
                                    let _ = w.insert("ctr", &i, &key);
                                    last = Some((w.seq(), w.signature().to_vec()));
                                    drop(w);
                                    dn.fetch_add(1, Ordering::SeqCst);
                                }
                                (undone, same_seq)
                            });
                            // (the writer is at work before the PONG goes in)
                            while done.load(Ordering::SeqCst) < 3 {
                                std::thread::yield_now();
                            }
                            Some((stop, h))
                        } else { None };
                        let _ = self.insts[&x].hout.try_send(HandlerOut::Response(from.clone(), Box::new(resp)));
                        let so = self.observe(x, false, false);
                        if let Some((stop, h)) = racer {
                            stop.store(true, std::sync::atomic::Ordering::SeqCst);
                            if let Ok((undone, same_seq)) = h.join() {
                                if undone {
                                    out.push("!MON C17 application-s-change-to-the-record-undone-by-the-vote-driven-update".into());
                                }
                                if same_seq {
                                    out.push("!MON C17 two-different-records-under-one-sequence-number".into());
                                }
                            }
                        }
                        let inst = self.insts.get_mut(&x).unwrap();
                        if inst.reqs[k - 1].outstanding {
                            inst.reqs[k - 1].outstanding = false;
                            stats.bump("s.pong-processed");
                            if inst.reqs[k - 1].is_query && inst.reqs[k - 1].epoch == inst.query_epoch {
                                inst.query_lost = true;
                            }
                        }
                        // (votes of a family whose connectivity test failed are not counted)
                        let revoked = if a.is_ipv6() { inst.revoked6 } else { inst.revoked4 };
                        if processed && inst.enr_update && (conn_out || rm) && revoked {
                            stats.bump("s.c17.votes-for-a-revoked-family");
                        }
                        let eligible = processed && inst.enr_update && (conn_out || rm) && !revoked;
                        if eligible {
                            stats.bump("s.c17.votes-counted");
                            if a.is_ipv6() {
                                inst.vote_times.insert(from.node_id.raw(), std::time::Instant::now());
                                inst.votes6.insert(from.node_id.raw(), a);
                            } else {
                                inst.vote_times.insert(from.node_id.raw(), std::time::Instant::now());
                                inst.votes4.insert(from.node_id.raw(), a);
                            }
                        } else if processed && inst.enr_update {
                            stats.bump("s.c17.votes-ineligible");
                        }
                        let local_after = inst.discv5.local_enr();
                        let mut vote = String::new();
                        if rm {
                            vote.push_str(" rm=1");
                        }
                        {
                            // the advertised socket may only move to a clear majority of the eligible latest votes
                            let s4b = local_before.udp4_socket().map(SocketAddr::V4);
                            let s4a = local_after.udp4_socket().map(SocketAddr::V4);
                            let s6b = local_before.udp6_socket().map(SocketAddr::V6);
                            let s6a = local_after.udp6_socket().map(SocketAddr::V6);
                            if s4a != s4b && (s4a.is_none() || s4a != inst.ledger_majority(false)) {
                                out.push(format!("!MON C17 socket-changed-without-clear-majority family=4 new={:?}", s4a));
                            }
                            if s6a != s6b && (s6a.is_none() || s6a != inst.ledger_majority(true)) {
                                out.push(format!("!MON C17 socket-changed-without-clear-majority family=6 new={:?}", s6a));
                            }
                            // (with the application writing at the same time, only the sockets are the vote's business)
                            let changed = if racing { s4a != s4b || s6a != s6b } else { local_after != local_before };
                            if !eligible && changed {
                                out.push("!MON C17 record-changed-by-ineligible-vote".into());
                            }
                            // a clear majority that differs from the advertised socket must be adopted
                            if eligible {
                                let m = inst.ledger_majority(a.is_ipv6());
                                let cur = if a.is_ipv6() { s6a } else { s4a };
                                if m.is_some() && m != cur {
                                    out.push(format!("!MON C17 clear-majority-not-adopted majority={:?} advertised={:?}", m, cur));
                                }
                            }
                        }
                        let changed_now = if racing {
                            local_after.udp4_socket() != local_before.udp4_socket() || local_after.udp6_socket() != local_before.udp6_socket()
                        } else { local_after != local_before };
                        if changed_now {
                            stats.bump("s.c17.local-record-changed");
                            vote.push_str(&format!(" local={}", rec_abs(&local_after, f)));
                            if !local_after.verify() {
                                out.push("!MON C17 local-record-signature-invalid".into());
                            }
                            if local_after.seq() <= local_before.seq() {
                                out.push("!MON C17 seq-not-increased".into());
                            }
                            if so.socket_updated.is_empty() && !self.insts[&x].events_paused {
                                out.push("!MON C17 no-socket-updated-event".into());
                            }
                        } else if !so.socket_updated.is_empty() {
                            out.push("!MON C17 socket-updated-event-without-record-change".into());
                        }
                        out.push(format!("!OP {} pong {} {}{} t={}", head, seq, sock_num(&a), vote, tok));
                        self.finish(x, "sresp", None, so, None, out, stats);
                    }
                    ("talk", [payload]) => {
                        let Some(p) = unhx(payload) else { return noop(out) };
                        let id = self.insts[&x].reqs[k - 1].id.clone();
                        let resp = Response { id, body: ResponseBody::Talk { response: p.clone() } };
                        let _ = self.insts[&x].hout.try_send(HandlerOut::Response(from.clone(), Box::new(resp)));
                        let so = self.observe(x, false, false);
                        {
                            let inst = self.insts.get_mut(&x).unwrap();
                            if inst.reqs[k - 1].outstanding && inst.reqs[k - 1].is_query && inst.reqs[k - 1].epoch == inst.query_epoch {
                                inst.query_lost = true;
                            }
                            inst.reqs[k - 1].outstanding = false;
                        }
                        out.push(format!("!OP {} talk {}", head, hx(&p)));
                        self.finish(x, "sresp", None, so, None, out, stats);
                    }
                    _ => noop(out),
                }
            }
            ["sfail", _, rf] => {
                let Some(k) = self.insts[&x].resolve_ref(rf) else { return noop(out) };
                let id = self.insts[&x].reqs[k - 1].id.clone();
                let is_q = self.insts[&x].reqs[k - 1].is_query;
                let _ = self.insts[&x].hout.try_send(HandlerOut::RequestFailed(id, RequestError::Timeout));
                {
                    let inst = self.insts.get_mut(&x).unwrap();
                    inst.cur_lookup = if inst.concurrent { inst.reqs[k - 1].lookup } else { 0 };
                }
                let mut so = self.observe(x, is_q, false);
                self.insts.get_mut(&x).unwrap().cur_lookup = 0;
                {
                    let inst = self.insts.get_mut(&x).unwrap();
                    let cur = inst.query_epoch;
                    let r = &mut inst.reqs[k - 1];
                    if r.outstanding && !r.callback && r.received > 0 {
                        stats.bump("s.fail-with-partial-nodes");
                    }
                    // (a request that fails after packets which held nothing acceptable is reported to
                    // the lookup neither as an answer nor as a failure)
                    let partial = r.outstanding && r.is_query && r.epoch == cur && !r.packets.is_empty();
                    r.outstanding = false;
                    if partial {
                        inst.query_lost = true;
                    }
                }
                stats.bump("s.failures");
                // C09: a failed request frees one place in one lookup: at most one further request goes
                // out because of it, however many lookups are running
                {
                    let inst = &self.insts[&x];
                    let newq = so.new_reqs.iter().filter(|k| inst.reqs[**k - 1].is_query).count();
                    // (a failure after packets of the answer were collected is processed as an answer)
                    if is_q && inst.reqs[k - 1].packets.is_empty() && newq > 1 {
                        out.push(format!("!MON C09 one-failed-request-let-{}-further-lookup-requests-out", newq));
                    }
                }
                let sfx = self.query_suffix(x, &mut so);
                out.push(format!("!OP sfail {} r{}{}", x, k, sfx));
                self.finish(x, "sfail", None, so, None, out, stats);
            }
            // a second lookup next to the running one (monitors-only profile: the model runs one at a time)
            ["squery2", _, target] => {
                let Some(tg) = parse_peer(target) else { return noop(out) };
                if self.insts[&x].query2.is_some() {
                    return noop(out);
                }
                let d = &self.insts[&x].discv5;
                let fut = d.find_node(NodeId::new(&tg));
                let h = self.rt.as_ref().unwrap().spawn(async move {
                    match fut.await {
                        Ok(v) => format!("ok:{}", v.len()),
                        Err(_) => "err".to_string(),
                    }
                });
                {
                    let inst = self.insts.get_mut(&x).unwrap();
                    inst.query2 = Some(h);
                    inst.concurrent = true;
                    inst.cur_lookup = 2;
                }
                let so = self.observe(x, true, false);
                self.insts.get_mut(&x).unwrap().cur_lookup = 0;
                stats.bump("s.second-lookup-started");
                out.push(format!("!OP squery2 {}", x));
                self.finish(x, "squery2", None, so, None, out, stats);
            }
            // `squery X TARGET` plain lookup; `squery X TARGET K` predicate lookup (predicate: any
            // record) for at most K nodes
            ["squery", _, target, rest @ ..] => {
                let Some(tg) = parse_peer(target) else { return noop(out) };
                if self.insts[&x].query.is_some() {
                    return noop(out);
                }
                let k: Option<usize> = rest.first().and_then(|s| s.parse().ok());
                let d = &self.insts[&x].discv5;
                let fut: std::pin::Pin<Box<dyn std::future::Future<Output = Result<Vec<Enr>, discv5::QueryError>> + Send>> = match k {
                    Some(k) => Box::pin(d.find_node_predicate(NodeId::new(&tg), Box::new(|_| true), k)),
                    None => Box::pin(d.find_node(NodeId::new(&tg))),
                };
                if k.is_some() { stats.bump("s.predicate-queries"); }
                let h = self.rt.as_ref().unwrap().spawn(async move {
                    match fut.await {
                        Ok(v) => {
                            // the result comes in increasing distance to the target, no node twice
                            let ds: Vec<[u8; 32]> = v.iter().map(|e| xor_dist(&e.node_id().raw(), &tg)).collect();
                            let sorted = ds.windows(2).all(|w| w[0] < w[1]);
                            let ids: Vec<String> = v.iter().map(|e| id8(&e.node_id().raw())).collect();
                            format!("ok:{}{}|{}", v.len(), if sorted { "" } else { ":unsorted" }, if ids.is_empty() { "-".to_string() } else { ids.join(",") })
                        }
                        Err(_) => "err".to_string(),
                    }
                });
                {
                    let inst = self.insts.get_mut(&x).unwrap();
                    let start: Vec<[u8; 32]> = inst.discv5.table_entries_id().into_iter().map(|id| id.raw()).collect();
                    inst.query_start = if start.len() <= k.unwrap_or(16) { start } else { Vec::new() };
                    inst.query_asked.clear();
                    inst.query_epoch += 1;
                    inst.query_answered.clear();
                    inst.query_learned.clear();
                    inst.query_lost = false;
                    inst.query_dup.clear();
                    if !inst.query_start.is_empty() {
                        stats.bump("s.c10.lookups-with-start-set-tracked");
                    }
                }
                self.insts.get_mut(&x).unwrap().query = Some(h);
                self.insts.get_mut(&x).unwrap().query_k = k;
                self.insts.get_mut(&x).unwrap().cur_lookup = 1;
                let mut so = self.observe(x, true, false);
                self.insts.get_mut(&x).unwrap().cur_lookup = 0;
                stats.bump("s.queries");
                for k in &so.new_reqs {
                    if let RequestBody::FindNode { distances } = &self.insts[&x].reqs[*k - 1].body {
                        let d = distances.first().copied().unwrap_or(0);
                        stats.bump(&format!("s.query-distance-class.{}", if d == 0 { "0".into() } else if d == 1 { "1".into() } else if d <= 8 { "2-8".into() } else if d <= 245 { "9-245".to_string() } else { "246-256".into() }));
                    }
                }
                let sfx = self.query_suffix(x, &mut so);
                let ktok = match k { Some(k) => format!(" k={}", k), None => String::new() };
                out.push(format!("!OP squery {} {}{}{}", x, hex::encode(tg), ktok, sfx));
                self.finish(x, "squery", None, so, None, out, stats);
            }
            ["sapi", _, kind, rec, args @ ..] => {
                let Some(enr) = self.rec(rec) else { return noop(out) };
                let f = self.insts[&x].filter;
                let mode = self.insts[&x].mode;
                let rt = self.rt.as_ref().unwrap();
                let d = &self.insts[&x].discv5;
                let (h, desc) = match (*kind, args) {
                    ("ping", []) => {
                        let fut = d.send_ping(enr.clone());
                        (
                            rt.spawn(async move {
                                match fut.await {
                                    Ok(p) => format!("pong:{}:{}", p.enr_seq, sock_num(&SocketAddr::new(p.ip, p.port))),
                                    Err(_) => "err".to_string(),
                                }
                            }),
                            "ping".to_string(),
                        )
                    }
                    ("findnode", [ds]) => {
                        let Some(dv) = parse_dists(ds) else { return noop(out) };
                        let fut = d.find_node_designated_peer(enr.clone(), dv.clone());
                        (
                            rt.spawn(async move {
                                match fut.await {
                                    Ok(v) => format!("nodes:{}", if v.is_empty() { "-".to_string() } else { v.iter().map(rec_short).collect::<Vec<_>>().join(",") }),
                                    Err(_) => "err".to_string(),
                                }
                            }),
                            format!("findnode {}", show_dists(&dv, ",")),
                        )
                    }
                    ("talk", [p, q]) => {
                        let (Some(p), Some(q)) = (unhx(p), unhx(q)) else { return noop(out) };
                        let Ok(contact) = NodeContact::try_from_enr(enr.clone(), mode) else {
                            out.push(format!("!OP sapi {} talk {} {} {}", x, rec_abs(&enr, f), hx(&p), hx(&q)));
                            let so = self.observe(x, false, true);
                            self.finish(x, "sapi", None, so, None, out, stats);
                            return;
                        };
                        let fut = d.talk_req(contact, p.clone(), q.clone());
                        (
                            rt.spawn(async move {
                                match fut.await {
                                    Ok(v) => format!("talk:{}", hx(&v)),
                                    Err(_) => "err".to_string(),
                                }
                            }),
                            format!("talk {} {}", hx(&p), hx(&q)),
                        )
                    }
                    _ => return noop(out),
                };
                self.settle();
                let nreq = self.insts[&x].reqs.len();
                let inst = self.insts.get_mut(&x).unwrap();
                inst.api.push((nreq + 1, h));
                let mut so = self.observe(x, false, true);
                // a call that did not produce a request finishes with an error that belongs to no request
                so.items.retain(|i| !(i.starts_with("cb:") && so.new_reqs.is_empty()));
                stats.bump("s.api-calls");
                let (dk, dargs) = desc.split_once(' ').map(|(a, b)| (a.to_string(), format!(" {}", b))).unwrap_or((desc.clone(), String::new()));
                out.push(format!("!OP sapi {} {} {}{}", x, dk, rec_abs(&enr, f), dargs));
                self.finish(x, "sapi", None, so, None, out, stats);
            }
            ["shonest", _, rf, y] => {
                let y = y.chars().next().unwrap_or('?');
                let Some(k) = self.insts[&x].resolve_ref(rf) else { return noop(out) };
                if !self.insts.contains_key(&y) || y == x {
                    return noop(out);
                }
                let (rid, body, contact_addr) = {
                    let r = &self.insts[&x].reqs[k - 1];
                    (r.id.clone(), r.body.clone(), r.contact.node_address())
                };
                let RequestBody::FindNode { distances } = body.clone() else { return noop(out) };
                if contact_addr.node_id.raw() != self.insts[&y].local_id {
                    return noop(out);
                }
                // deliver to the honest responder
                let x_enr = self.insts[&x].discv5.local_enr();
                let from_addr = contactable_addr(IpMode::DualStack, &x_enr).unwrap_or_else(|| "10.0.0.1:9000".parse().unwrap());
                let xa = NodeAddress { socket_addr: from_addr, node_id: x_enr.node_id() };
                let before = self.insts[&y].snapshot();
                let _ = self.insts[&y].hout.try_send(HandlerOut::Request(xa.clone(), Box::new(Request { id: rid.clone(), body })));
                let so_y = self.observe(y, false, false);
                stats.bump("s.c11.honest-exchanges");
                self.c14_findnode(y, &x_enr.node_id().raw(), &rid.0, &distances, &before, &so_y, out, stats);
                if let Some(inst) = self.insts.get_mut(&y) {
                    inst.prev = inst.snapshot();
                }
                // feed the packets back
                let mut all = StepOut { items: vec![], discovered: vec![], responses: vec![], new_reqs: vec![], bans_ip: vec![], bans_node: vec![], socket_updated: vec![], talk_events: 0 };
                let mut npk = 0;
                for (_, r) in so_y.responses.iter() {
                    if let ResponseBody::Nodes { total, nodes } = &r.body {
                        npk += 1;
                        if !nodes.is_empty() {
                            stats.bump("s.c11.honest-nonempty-packets");
                        }
                        let so = self.inject_nodes(x, k, contact_addr.clone(), *total, nodes.clone(), true, out, stats);
                        all.items.extend(so.items);
                        all.new_reqs.extend(so.new_reqs);
                        all.bans_ip.extend(so.bans_ip);
                        all.bans_node.extend(so.bans_node);
                    }
                }
                if all.bans_node.iter().any(|n| n.raw() == contact_addr.node_id.raw()) || all.bans_ip.contains(&contact_addr.socket_addr.ip()) {
                    out.push(format!("!MON C11 honest-responder-banned req=r{} requested={}", k, show_dists(&distances, ".")));
                }
                let sfx = self.query_suffix(x, &mut all);
                out.push(format!("!OP shonest {} r{} {} {} {}{}", x, k, y, sock_num(&from_addr), hx(&rid.0), sfx));
                self.finish(x, "shonest", None, all, Some(format!("pk={}", npk)), out, stats);
            }
            ["stable", _] => {
                let snap = self.insts[&x].snapshot();
                out.push(format!("!OP stable {}", x));
                out.push(Inst::digest(&snap, true));
            }
            ["slocal", _] => {
                let e = self.insts[&x].discv5.local_enr();
                out.push(format!("!OP slocal {}", x));
                out.push(format!(
                    "{}:{}:{}:{}",
                    hex::encode(e.node_id().raw()),
                    e.seq(),
                    e.udp4_socket().map(|s| sock_num(&SocketAddr::V4(s))).unwrap_or_else(|| "-".into()),
                    e.udp6_socket().map(|s| sock_num(&SocketAddr::V6(s))).unwrap_or_else(|| "-".into())
                ));
            }
            ["sbans"] => {
                out.push("!OP sbans".into());
                out.push(if self.bans.is_empty() { "-".into() } else { self.bans.iter().cloned().collect::<Vec<_>>().join(" ") });
            }
            _ => noop(out),
        }
    }
}

// ------------------------------------------------------------------------------------------------
// generator

struct Peer {
    seed: u64,
    seq: u64,
    shape: String,
    pad: usize,
}

impl Peer {
    fn spec(&self) -> String {
        format!("k{}:{}:{}:{}", self.seed, self.seq, self.shape, self.pad)
    }
}

fn flip_target(id: &[u8; 32], d: u64, rng: &mut Rng) -> [u8; 32] {
    // an id at log2 distance `d` from `id` (d = 0: the id itself)
    let mut t = *id;
    if d == 0 {
        return t;
    }
    let bit = (d - 1) as usize; // 0-based from the least significant bit
    let byte = 31 - bit / 8;
    t[byte] ^= 1 << (bit % 8);
    // randomise everything below that bit
    let noise = rng.bytes(32);
    for b in 0..bit {
        let by = 31 - b / 8;
        if noise[by] & (1 << (b % 8)) != 0 {
            t[by] ^= 1 << (b % 8);
        }
    }
    t
}

fn contact_shape(mode: &str, rng: &mut Rng) -> &'static str {
    match mode {
        "ip4" => *rng.pick(&["4", "4", "46", "4m"]),
        "ip6" => *rng.pick(&["6", "6", "46"]),
        _ => *rng.pick(&["4", "6", "46", "4m"]),
    }
}

fn any_shape(rng: &mut Rng) -> &'static str {
    *rng.pick(&["4", "4", "6", "46", "n", "m", "4m", "i", "4r", "6r", "46r", "4x", "6x", "i6"])
}

fn rid_tok(rng: &mut Rng) -> String {
    let n = match rng.below(6) {
        0 => 0,
        1 => 1,
        2 => 8,
        _ => rng.range(1, 8) as usize,
    };
    let mut b = rng.bytes(n);
    if n == 1 && rng.chance(1, 2) {
        b[0] &= 0x7f;
    }
    hx(&b)
}

fn peer_addr(seed: u64, mode: &str) -> String {
    if mode == "ip6" {
        let (ip, port) = ip6_of(seed, false);
        format!("{}/{}", hex::encode(ip.octets()), port)
    } else {
        let (ip, port) = ip4_of(seed, false);
        format!("{}/{}", ip, port)
    }
}

fn total_tok(rng: &mut Rng) -> String {
    match rng.below(10) {
        0 => "0".into(),
        1 | 2 | 3 => "1".into(),
        4 | 5 => "2".into(),
        6 => "3".into(),
        7 => "16".into(),
        8 => "18446744073709551615".into(),
        _ => rng.range(2, 20).to_string(),
    }
}

fn gen_c12(rng: &mut Rng, ops: &mut Vec<String>, stats: &mut Stats) {
    let mode = *rng.pick(&["ip4", "ip4", "ip6", "dual"]);
    let filter = *rng.pick(&["all", "rej"]);
    let lshape = match mode {
        "ip4" => "4",
        "ip6" => "6",
        _ => "46",
    };
    let lseed = rng.range(1, 40);
    let maxin = *rng.pick(&[16u64, 16, 16, 2]);
    let enrupd = rng.chance(1, 3) as u8;
    ops.push(format!("snew A k{} {} {} 0 {} {} 16 {} {}", lseed, rng.range(1, 5), lshape, mode, filter, maxin, enrupd));
    let local_id = id_of_seed(lseed);
    let mut peers: Vec<Peer> = Vec::new();
    let fill = rng.chance(1, 5);
    if fill {
        // more than 16 nodes for one bucket: full bucket, pending slot
        stats.bump("gen.c12.fill");
        let d = *rng.pick(&[256u64, 256, 255]);
        let n = rng.range(17, 21);
        for i in 0..n {
            let base = rng.below(1 << 30);
            if let Some(s) = mine(base, |id| dist(&local_id, id) == d) {
                let p = Peer { seed: s, seq: rng.range(1, 4), shape: contact_shape(mode, rng).to_string(), pad: 0 };
                let dir = if rng.chance(1, 3) { "o" } else { "i" };
                if rng.chance(1, 4) {
                    ops.push(format!("sadd A {}", p.spec()));
                } else {
                    ops.push(format!("sest A {} = {}", p.spec(), dir));
                }
                if i == 10 && rng.chance(1, 2) {
                    ops.push("sfail A #p".into());
                }
                peers.push(p);
            }
        }
    }
    if fill && peers.len() >= 4 && rng.chance(2, 3) {
        // the nodes inserted last (one of them waits in the pending slot, if there is one) are
        // reported by a lookup with a newer record: contactable, or not (then the stored / pending
        // entry has to go)
        stats.bump("gen.c12.fill-discovered-newer");
        let last = peers[peers.len() - 1].seed;
        let tid = flip_target(&id_of_seed(last), 256, rng);
        ops.push(format!("squery A {}", hex::encode(tid)));
        let mut items: Vec<String> = Vec::new();
        for q in peers.iter().rev().take(4) {
            let sh = if rng.chance(1, 2) { contact_shape(mode, rng).to_string() } else { "n".to_string() };
            items.push(format!("k{}:{}:{}:0", q.seed, q.seq + rng.range(1, 2), sh));
        }
        ops.push(format!("sresp A #q ok nodes 1 {}", items.join(",")));
        ops.push("stable A".into());
    }
    let npeers = rng.range(4, 9);
    // (one case in six: the peers' records carry sequence numbers in the upper half of the u64 range;
    // "older" records offered later then have small numbers - older by more than 2^63)
    let high = rng.chance(1, 6);
    if high {
        stats.bump("gen.c12.sequence-numbers-above-2^63");
    }
    for _ in 0..npeers {
        let seq = if high { (1u64 << 63) + rng.range(0, 6) } else { rng.range(1, 6) };
        peers.push(Peer { seed: rng.range(50, 400), seq, shape: contact_shape(mode, rng).to_string(), pad: 0 });
    }
    let n = if fill { rng.range(10, 30) } else { rng.range(20, 55) };
    for _ in 0..n {
        let pi = rng.below(peers.len() as u64) as usize;
        let c = rng.below(100);
        if c < 22 {
            // session with a (new version of a) peer record, any shape
            let p = &mut peers[pi];
            if rng.chance(1, 2) {
                p.seq = match rng.below(4) {
                    0 => p.seq.saturating_sub(1),
                    1 => p.seq,
                    _ => p.seq + rng.range(1, 2),
                };
                p.shape = if rng.chance(2, 3) { contact_shape(mode, rng).to_string() } else { any_shape(rng).to_string() };
            }
            let addr = if rng.chance(5, 6) { "=".to_string() } else { peer_addr(p.seed + 1, mode) };
            ops.push(format!("sest A {} {} {}", p.spec(), addr, if rng.chance(1, 2) { "i" } else { "o" }));
        } else if c < 30 {
            let p = &peers[pi];
            let sh = if rng.chance(1, 2) { p.shape.clone() } else { any_shape(rng).to_string() };
            ops.push(format!("sadd A k{}:{}:{}:0", p.seed, p.seq + rng.below(2), sh));
        } else if c < 44 {
            // PING from a peer advertising a (possibly) higher sequence number
            let p = &peers[pi];
            let seq = match rng.below(4) {
                0 => p.seq,
                1 => if high { rng.range(1, 5) } else { p.seq.saturating_sub(1) },
                _ => p.seq + rng.range(1, 3),
            };
            ops.push(format!("sreq A k{} {} {} ping {}", p.seed, peer_addr(p.seed, mode), rid_tok(rng), seq));
        } else if c < 60 {
            // answer to an ENR request: the peer's own record in a new version
            let dseq = *rng.pick(&["-1", "0", "1", "1", "2", "3"]);
            let shape = if rng.chance(1, 2) { contact_shape(mode, rng).to_string() } else { any_shape(rng).to_string() };
            let shape = if dseq == "0" && rng.chance(1, 2) { "same".to_string() } else { shape };
            let extra = match rng.below(8) {
                0 => format!(",@off:{}", rng.below(1000)),
                1 => ",@me".to_string(),
                2 => format!(",@own:{}:{}", rng.range(1, 4), contact_shape(mode, rng)),
                _ => String::new(),
            };
            ops.push(format!("sresp A #e ok nodes {} @own:{}:{}{}", if rng.chance(5, 6) { "1".to_string() } else { total_tok(rng) }, dseq, shape, extra));
        } else if c < 70 {
            let d = *rng.pick(&["+0", "+0", "+1", "+2", "0"]);
            ops.push(format!("sresp A #p ok pong {} {}", d, peer_addr(rng.range(1, 5), mode)));
        } else if c < 77 {
            ops.push(format!("sfail A {}", rng.pick(&["#p", "#e", "#l", "#q"])));
        } else if c < 80 {
            if rng.chance(1, 2) {
                // the record of some (possibly stored) node Z presented by a party that proved to be M
                let other = &peers[rng.below(peers.len() as u64) as usize];
                ops.push(format!("sunverifiable A {} k{}", other.spec(), peers[pi].seed));
            } else {
                ops.push(format!("sunverifiable A {}", peers[pi].spec()));
            }
        } else if c < 83 {
            ops.push(format!("srm A k{}", peers[pi].seed));
        } else if c < 90 {
            // lookup: answers carry new versions of known peers and strangers
            let resp_like = &peers[rng.below(peers.len() as u64) as usize];
            let tid = flip_target(&id_of_seed(resp_like.seed), *rng.pick(&[256u64, 256, 255, 1, 0, 200]), rng);
            ops.push(format!("squery A {}", hex::encode(tid)));
            let k = rng.range(1, 3);
            for _ in 0..k {
                let mut items: Vec<String> = Vec::new();
                for _ in 0..rng.range(1, 4) {
                    let q = &peers[rng.below(peers.len() as u64) as usize];
                    let sh = if rng.chance(2, 3) { contact_shape(mode, rng).to_string() } else { any_shape(rng).to_string() };
                    // (newer, same or - one in four - older than what was seen of that peer before)
                    let seq = if high && rng.chance(1, 3) {
                        rng.range(1, 5)
                    } else if rng.chance(1, 4) {
                        q.seq.saturating_sub(rng.range(1, 2)).max(1)
                    } else {
                        q.seq + rng.below(3)
                    };
                    items.push(format!("k{}:{}:{}:0", q.seed, seq, sh));
                }
                if rng.chance(1, 4) {
                    items.push(format!("k{}:1:{}:0", rng.range(500, 600), any_shape(rng)));
                }
                ops.push(format!("sresp A #q ok nodes {} {}", total_tok(rng), items.join(",")));
            }
            for _ in 0..rng.range(0, 4) {
                ops.push("sfail A #q".into());
            }
        } else if c < 95 {
            let p = &peers[pi];
            match rng.below(3) {
                0 => ops.push(format!("sapi A ping {}", p.spec())),
                1 => ops.push(format!("sapi A findnode {} {}", p.spec(), rng.pick(&["0", "256,255", "-"]))),
                _ => ops.push(format!("sapi A talk {} aa 0102", p.spec())),
            }
            if rng.chance(2, 3) {
                match rng.below(4) {
                    0 => ops.push("sresp A #c ok pong 3 10.0.0.1/9000".into()),
                    1 => ops.push(format!("sresp A #c ok nodes 1 @off:{}", rng.below(100))),
                    2 => ops.push("sresp A #c ok talk 0a0b".into()),
                    _ => ops.push("sfail A #c".into()),
                }
            }
        } else if c < 98 {
            // a packet claiming to come from a (known or unknown) node arrived from somewhere: the
            // handler asks who that is
            let who = if rng.chance(3, 4) { peers[pi].seed } else { rng.range(700, 720) };
            let from = if rng.chance(1, 2) { peer_addr(who, mode) } else { peer_addr(rng.range(800, 820), mode) };
            ops.push(format!("sway A k{} {}", who, from));
        } else {
            ops.push(format!("sreq A k{} {} {} findnode {}", peers[pi].seed, peer_addr(peers[pi].seed, mode), rid_tok(rng), rng.pick(&["0", "256", "256,255,254", "0,256,255"])));
        }
    }
    ops.push("stable A".into());
}

fn gen_c11(rng: &mut Rng, ops: &mut Vec<String>, stats: &mut Stats) {
    let a = rng.range(1, 40);
    let b = rng.range(41, 80);
    let maxn_a = *rng.pick(&[16u64, 16, 16, 5, 40]);
    let maxn_b = *rng.pick(&[16u64, 16, 3, 40]);
    let bseq = rng.range(1, 9);
    // (one in four: the requester is dual-stack and knows the responder under a record with both an
    // IPv4 and an IPv6 socket; it talks to it over one of them)
    let dual = rng.chance(1, 4);
    if dual {
        ops.push(format!("snew A k{} 1 46 0 dual all {} 16 0", a, maxn_a));
    } else {
        ops.push(format!("snew A k{} 1 4 0 ip4 all {} 16 0", a, maxn_a));
    }
    ops.push(format!("snew B k{} {} 4 0 ip4 all {} 16 0", b, bseq, maxn_b));
    if rng.chance(1, 12) {
        stats.bump("gen.c11.ban-lists-prefilled");
        ops.push(format!("sbanfill A {}", rng.range(1000, 1300)));
    }
    let bid = id_of_seed(b);
    let bhex = hex::encode(bid);
    // the honest responder's table: records at distances 256..249 from it
    let nb = rng.range(4, 26);
    for _ in 0..nb {
        let d = 256 - [0u64, 0, 0, 1, 1, 2, 2, 3, 4, 5, 6, 7][rng.below(12) as usize];
        if let Some(s) = mine(rng.below(1 << 30), |id| dist(&bid, id) == d) {
            let pad = *rng.pick(&[0usize, 0, 100, 200]);
            let spec = format!("k{}:{}:4:{}", s, rng.range(1, 3), pad);
            if rng.chance(1, 2) {
                ops.push(format!("sadd B {}", spec));
            } else {
                ops.push(format!("sest B {} = {}", spec, if rng.chance(1, 2) { "i" } else { "o" }));
            }
        }
    }
    if rng.chance(1, 3) {
        // the responder also knows the requester
        ops.push(format!("sest B k{}:1:4:0 = i", a));
    }
    // A knows B and a few others
    ops.push(format!("sest A k{}:{}:{}:0 = o", b, bseq, if dual { "46" } else { "4" }));
    if rng.chance(1, 4) {
        // the responder's address is on A's permit list
        ops.push(format!("spermit A {}", peer_addr(b, "ip4")));
    }
    let mut others: Vec<u64> = Vec::new();
    for _ in 0..rng.range(0, 4) {
        let s = rng.range(100, 300);
        others.push(s);
        ops.push(format!("sest A k{}:1:4:0 = {}", s, if rng.chance(1, 2) { "i" } else { "o" }));
    }
    if !others.is_empty() && rng.chance(1, 6) {
        // directed: a lookup for one node ends on its first answer with requests to other nodes still
        // in flight; the next lookup asks those nodes again; the answer to the *old* request arrives,
        // the new lookup's own request to that node fails - that node did not answer the new lookup
        stats.bump("gen.c11.directed-late-answer-to-an-earlier-lookup");
        // (the target is closer to B than to anybody else, and B knows of nobody closer)
        // and the one node it names, closer to the target than the rest of the table, knows nobody)
        let tid = flip_target(&bid, rng.range(200, 250), rng);
        ops.push(format!("squery A {} 2", hex::encode(tid)));
        ops.push(format!("sresp A #q@{} ok nodes 1 @in:{}", bhex, rng.below(1000)));
        ops.push("sresp A #l ok nodes 1 -".into());
        let tid2 = flip_target(&bid, rng.range(200, 250), rng);
        ops.push(format!("squery A {}", hex::encode(tid2)));
        for o in others.iter() {
            let oh = hex::encode(id_of_seed(*o));
            ops.push(format!("sresp A #q@{} ok nodes 1 @in:{}", oh, rng.below(1000)));
            ops.push(format!("sfail A #q@{}", oh));
        }
        ops.push(format!("shonest A #q@{} B", bhex));
        for _ in 0..8 {
            ops.push("sfail A #q".into());
        }
    }
    let rounds = rng.range(2, 5);
    for _ in 0..rounds {
        match rng.below(10) {
            0 | 1 => {
                // ENR update: PING / PONG with a higher sequence number, then `[0]`
                if rng.chance(1, 2) {
                    ops.push(format!("sreq A k{} {} {} ping {}", b, peer_addr(b, "ip4"), rid_tok(rng), bseq + rng.range(1, 3)));
                } else {
                    ops.push(format!("sapi A ping k{}:{}:4:0", b, bseq));
                    ops.push(format!("sest A k{}:{}:4:0 = o", b, bseq));
                    ops.push(format!("sresp A #p@{} ok pong +{} 10.0.0.1/9000", bhex, rng.range(1, 2)));
                }
                match rng.below(6) {
                    0 | 1 | 2 => ops.push(format!("shonest A #e@{} B", bhex)),
                    3 => ops.push(format!("sresp A #e@{} ok nodes 1 @off:{}", bhex, rng.below(1000))),
                    4 => ops.push(format!("sresp A #e@{} ok nodes 1 @own:1:4,@own:2:4", bhex)),
                    _ => ops.push(format!("sresp A #e@{} ok nodes {} @own:1:4,@off:{}", bhex, total_tok(rng), rng.below(1000))),
                }
                if rng.chance(1, 3) {
                    ops.push(format!("sresp A #d ok nodes 1 @own:3:4"));
                }
            }
            _ => {
                let d = match rng.below(20) {
                    0 | 1 | 2 => 1,
                    3 | 4 => 0,
                    5 => 2,
                    6 => rng.range(3, 8),
                    7 | 8 => rng.range(9, 245),
                    9 => rng.range(246, 249),
                    _ => rng.range(250, 256),
                };
                stats.bump(&format!("gen.c11.class.{}", if d <= 2 { d.to_string() } else if d <= 245 { "3-245".into() } else { "246-256".into() }));
                let tid = flip_target(&bid, d, rng);
                ops.push(format!("squery A {}{}", hex::encode(tid), match rng.below(8) { 0 => " 0", 1 => " 1", 2 => " 2", 3 => " 16", 4 => " 18446744073709551615", 5 => " 1000000", _ => "" }));
                if !others.is_empty() && rng.chance(1, 3) {
                    // the application takes a node the lookup started from out of the routing table
                    // while the lookup runs (it may not have been asked yet)
                    stats.bump("gen.c11.start-candidate-removed-mid-lookup");
                    for o in others.iter() {
                        if rng.chance(2, 3) {
                            ops.push(format!("srm A k{}", o));
                        }
                    }
                }
                // the honest answer first or a malicious one in its place
                match rng.below(8) {
                    0 => {
                        // off-distance record among valid ones
                        ops.push(format!("sresp A #q@{} ok nodes 1 @in:{},@off:{},@in:{}", bhex, rng.below(1000), rng.below(1000), rng.below(1000)));
                    }
                    1 => {
                        // many packets with an enormous total
                        let total = *rng.pick(&["18446744073709551615", "17", "16", "15", "30"]);
                        let n = rng.range(14, 19);
                        for i in 0..n {
                            ops.push(format!("sresp A #q@{} ok nodes {} @in:{}", bhex, total, 1000 + i + 100 * rng.below(1000)));
                        }
                        ops.push(format!("sresp A #d ok nodes {} @in:{}", total, 5000 + rng.below(1000)));
                    }
                    2 => {
                        // multi-packet answer, then packets after completion
                        let t = rng.range(2, 4);
                        for i in 0..t {
                            let it = match rng.below(5) {
                                0 => "@me".to_string(),
                                1 => "@own:0:same".to_string(),
                                2 => format!("@in:{},@in:{}", rng.below(1000), rng.below(1000)),
                                3 => "-".to_string(),
                                _ => format!("@in:{}", rng.below(1000)),
                            };
                            ops.push(format!("sresp A #q@{} ok nodes {} {}", bhex, t, it));
                            let _ = i;
                        }
                        ops.push(format!("sresp A #d ok nodes {} @in:{}", t, rng.below(1000)));
                    }
                    3 => {
                        // duplicates / wrong source / wrong type
                        let it = format!("@in:{}", rng.below(1000));
                        ops.push(format!("sresp A #q@{} ok nodes 2 {},{}", bhex, it, it));
                        match rng.below(3) {
                            0 => ops.push(format!("sresp A #q@{} addr:10.1.1.1/9 nodes 2 {}", bhex, it)),
                            1 => ops.push(format!("sresp A #q@{} ok pong 1 10.0.0.1/9000", bhex)),
                            _ => ops.push(format!("sresp A #q@{} ok nodes 2 {}", bhex, it)),
                        }
                        ops.push(format!("sresp A #d ok nodes 2 {}", it));
                    }
                    4 => {
                        // partial answer, then failure
                        ops.push(format!("sresp A #q@{} ok nodes 3 @in:{}", bhex, rng.below(1000)));
                        ops.push(format!("sfail A #q@{}", bhex));
                    }
                    _ => {
                        ops.push(format!("shonest A #q@{} B", bhex));
                        if rng.chance(1, 4) {
                            ops.push("shonest A #d B".into());
                        }
                    }
                }
                // the other peers of the lookup: malicious answers or failures
                for _ in 0..rng.range(2, 6) {
                    match rng.below(6) {
                        0 => ops.push(format!("sresp A #q ok nodes {} @off:{}", total_tok(rng), rng.below(1000))),
                        1 => ops.push(format!("sresp A #q ok nodes 1 @in:{},@in:{}", rng.below(1000), rng.below(1000))),
                        2 => ops.push("sresp A #q ok nodes 1 @me".into()),
                        3 => ops.push(format!("shonest A #q@{} B", bhex)),
                        _ => ops.push("sfail A #q".into()),
                    }
                }
                if rng.chance(1, 3) {
                    // what the lookup still has in flight is left unanswered: the answers (or failures)
                    // arrive while the next lookup runs, and are none of its business
                    stats.bump("gen.c11.requests-left-in-flight-after-the-lookup");
                } else {
                    for _ in 0..6 {
                        ops.push("sfail A #q".into());
                    }
                }
            }
        }
    }
    for _ in 0..8 {
        ops.push("sfail A #q".into());
    }
    ops.push("sbans".into());
}

fn gen_c14(rng: &mut Rng, ops: &mut Vec<String>, stats: &mut Stats) {
    let mode = *rng.pick(&["ip4", "ip4", "ip6", "dual"]);
    // (one node in four has a record nobody can dial it by: no socket at all - none voted in yet, or taken out
    // again -, or one of the family it does not listen on; it is its record all the same)
    let lshape = match (mode, rng.below(8)) {
        (_, 0) => "n",
        ("ip4", 1) => "6",
        ("ip6", 1) => "4",
        ("ip4", _) => "4",
        ("ip6", _) => "6",
        ("dual", 1) => "4",
        _ => "46",
    };
    let a = rng.range(1, 40);
    let maxn = *rng.pick(&[16u64, 16, 16, 1, 3, 40, 125]);
    let lpad = *rng.pick(&[0usize, 0, 100, 200]);
    ops.push(format!("snew A k{} {} {} {} {} all {} 16 0", a, rng.range(1, 300), lshape, lpad, mode, maxn));
    let aid = id_of_seed(a);
    let n = rng.range(6, 40);
    let mut members: Vec<u64> = Vec::new();
    let mut member_seq: std::collections::HashMap<u64, u64> = std::collections::HashMap::new();
    // (a node configured to serve up to 125 records, with a table of 60-90 records of the maximum
    // size: its answers run to more than 15 packets)
    let large = maxn == 125 && rng.chance(2, 3);
    let n = if large { rng.range(64, 90) } else { n };
    if large {
        stats.bump("gen.c14.answers-of-more-than-15-packets");
    }
    for _ in 0..n {
        let d = if large { 256 - rng.below(6) } else { 256 - [0u64, 0, 0, 0, 1, 1, 1, 2, 2, 3, 4, 5][rng.below(12) as usize] };
        if let Some(s) = mine(rng.below(1 << 30), |id| dist(&aid, id) == d) {
            // record sizes from the minimum up to the 300-byte limit
            let pad = if large { 200 } else { *rng.pick(&[0usize, 40, 100, 130, 150, 156, 160, 200, 200, 200]) };
            let sh = contact_shape(mode, rng);
            let mseq = rng.range(1, 70000);
            let spec = format!("k{}:{}:{}:{}", s, mseq, sh, pad);
            members.push(s);
            member_seq.insert(s, mseq);
            if rng.chance(1, 2) {
                ops.push(format!("sadd A {}", spec));
            } else {
                ops.push(format!("sest A {} = {}", spec, if rng.chance(2, 3) { "i" } else { "o" }));
            }
        }
    }
    let nreq = rng.range(6, 16);
    // one requester is on the permit list and on the ban list at once
    let permitted_banned = if rng.chance(1, 4) {
        let r = if !members.is_empty() && rng.chance(1, 2) { members[rng.below(members.len() as u64) as usize] } else { rng.range(500, 600) };
        ops.push(format!("spermit A {} ban=k{}", peer_addr(r, mode), r));
        Some(r)
    } else { None };
    for _ in 0..nreq {
        let requester = match permitted_banned {
            Some(r) if rng.chance(1, 3) => r,
            _ => if !members.is_empty() && rng.chance(1, 3) { members[rng.below(members.len() as u64) as usize] } else { rng.range(500, 600) },
        };
        let addr = if rng.chance(1, 8) {
            let mut s = peer_addr(requester, mode);
            let i = s.rfind('/').unwrap();
            s.truncate(i);
            format!("{}/0", s)
        } else {
            // also from an address other than the one in the requester's record
            peer_addr(requester + rng.below(2), if rng.chance(1, 4) { "ip6" } else { "ip4" })
        };
        // (an IPv6 socket that also takes IPv4 traffic sees IPv4 peers at IPv4-mapped addresses)
        let addr = if rng.chance(1, 6) {
            match parse_addr(&addr) {
                Some(SocketAddr::V4(s4)) => format!("{}/{}", hex::encode(s4.ip().to_ipv6_mapped().octets()), s4.port()),
                _ => addr,
            }
        } else { addr };
        if rng.chance(1, 5) {
            // (a stored node half of the time announces a record newer than the stored one: the
            // service then asks it for that record)
            let seq = match member_seq.get(&requester) {
                Some(ms) if rng.chance(1, 2) => ms + rng.range(1, 3),
                _ => rng.range(0, 5),
            };
            ops.push(format!("sreq A k{} {} {} ping {}", requester, addr, rid_tok(rng), seq));
            if rng.chance(1, 3) {
                // the same peer pings again (announcing a still newer record) before the service's own
                // record request to it has been answered: it gets its PONG all the same
                ops.push(format!("sreq A k{} {} {} ping {}", requester, addr, rid_tok(rng), seq + rng.range(0, 2)));
            }
            continue;
        }
        let ds: Vec<u64> = match rng.below(12) {
            0 => vec![],
            1 => vec![0],
            2 => vec![256],
            3 => vec![256, 255, 254],
            4 => vec![0, 256, 256, 255, 0],
            5 => vec![254, 256, 255, 253, 252, 0],
            6 => vec![257, 1000, 1 << 63, 256],
            7 => {
                let mut v: Vec<u64> = (197..=256).collect();
                if rng.chance(1, 2) {
                    v.push(0);
                }
                v
            }
            8 => vec![255, 0],
            9 => vec![1, 2, 0],
            _ => {
                let n = rng.range(1, 6);
                (0..n).map(|_| if rng.chance(1, 6) { 0 } else { rng.range(248, 256) }).collect()
            }
        };
        ops.push(format!("sreq A k{} {} {} findnode {}", requester, addr, rid_tok(rng), show_dists(&ds, ",")));
        if rng.chance(1, 6) && !members.is_empty() {
            let m = members[rng.below(members.len() as u64) as usize];
            ops.push(format!("srm A k{}", m));
        }
    }
}

/// C17, connectivity state: a node that waits a short while for incoming sessions after its socket
/// was voted in.  Votes move the socket; 0..3 incoming sessions of either family follow; the node
/// then idles for less or for more than the listen duration; further votes arrive afterwards.
fn gen_c17_autonat(rng: &mut Rng, ops: &mut Vec<String>, stats: &mut Stats) {
    stats.bump("gen.c17.connectivity-timer");
    let mode = *rng.pick(&["ip4", "ip4", "dual"]);
    let lshape = *rng.pick(&["n", "4", "n"]);
    let vmin = *rng.pick(&[2u64, 2, 3]);
    // (identities k…997 are the ones with a 5 s listen duration)
    let a = 997 + 1000 * rng.range(0, 30);
    ops.push(format!("snew A k{} {} {} 0 {} all 16 16 1 {}", a, rng.range(1, 300), lshape, mode, vmin));
    let lead4 = *rng.pick(&["203.0.113.5/30303", "198.51.100.7/9000"]);
    let lead6 = "20010db8000000000000000000000001/30303";
    let mut next = 500 + rng.range(0, 40) * 10;
    let mut vote = |ops: &mut Vec<String>, n: u64, v6: bool, next: &mut u64| {
        for _ in 0..n {
            ops.push(format!("sest A k{}:1:{}:0 = o", *next, if v6 { "6" } else { "4" }));
            ops.push(format!("sresp A #p ok pong +0 {}", if v6 { lead6 } else { lead4 }));
            *next += 1;
        }
    };
    let rounds = rng.range(1, 2);
    for round in 0..rounds {
        // votes that move the IPv4 socket (and, on a dual-stack node, sometimes the IPv6 one a little later)
        vote(ops, vmin + rng.below(2), false, &mut next);
        if mode == "dual" && rng.chance(1, 2) {
            if rng.chance(1, 2) {
                ops.push(format!("sidle A {}", rng.range(1, 4000)));
            }
            vote(ops, vmin + rng.below(2), true, &mut next);
        }
        ops.push("slocal A".into());
        // incoming sessions: none, one (not enough), two or three, of the voted family or the other one
        for _ in 0..rng.below(4) {
            let sh = if mode == "dual" && rng.chance(1, 3) { "6" } else { "4" };
            ops.push(format!("sest A k{}:1:{}:0 = i", 700 + rng.below(200), sh));
            if rng.chance(1, 3) {
                ops.push("sfail A #p".into());
            }
        }
        // idle: clearly less, just less, just more, clearly more than the 5 s
        let ms = *rng.pick(&[300u64, 2500, 4800, 5100, 5100, 9000, 9000]);
        ops.push(format!("sidle A {}", ms));
        ops.push("slocal A".into());
        if rng.chance(1, 2) {
            ops.push(format!("sidle A {}", *rng.pick(&[200u64, 5000, 9000])));
            ops.push("slocal A".into());
        }
        // afterwards: the same address is voted for again by new peers (blocked if the test failed)
        vote(ops, vmin + 1, false, &mut next);
        if mode == "dual" {
            vote(ops, vmin, true, &mut next);
        }
        ops.push("slocal A".into());
        if round + 1 < rounds {
            ops.push(format!("sidle A {}", *rng.pick(&[1000u64, 6000])));
        }
    }
    ops.push("sidle A 6000".into());
    ops.push("slocal A".into());
    ops.push("stable A".into());
}

fn gen_c17(rng: &mut Rng, ops: &mut Vec<String>, stats: &mut Stats) {
    if rng.chance(1, 5) {
        return gen_c17_autonat(rng, ops, stats);
    }
    let mode = *rng.pick(&["ip4", "ip4", "dual", "dual", "ip6"]);
    let lshape = match mode {
        "ip4" => *rng.pick(&["4", "n"]),
        "ip6" => *rng.pick(&["6", "n"]),
        _ => *rng.pick(&["46", "4", "n"]),
    };
    let vmin = *rng.pick(&[2u64, 2, 3, 4]);
    let a = rng.range(1, 40);
    ops.push(format!("snew A k{} {} {} 0 {} all 16 16 1 {}", a, rng.range(1, 300), lshape, mode, vmin));
    // candidate external sockets
    let c4 = ["203.0.113.5/30303", "203.0.113.5/30304", "198.51.100.7/9000"];
    let c6 = ["20010db8000000000000000000000001/30303", "20010db8000000000000000000000002/30303"];
    let n = rng.range(4, 9);
    let mut voters: Vec<u64> = Vec::new();
    for _ in 0..n {
        let s = rng.range(100, 400);
        voters.push(s);
        let sh = contact_shape(mode, rng);
        ops.push(format!("sest A k{}:1:{}:0 = {}", s, sh, if rng.chance(4, 5) { "o" } else { "i" }));
        if rng.chance(1, 8) {
            // the ping stays outstanding while the peer's entry changes
            ops.push(format!("srm A k{}", s));
            if rng.chance(1, 2) {
                ops.push(format!("sest A k{}:1:{}:0 = i", s, sh));
            }
        }
    }
    if rng.chance(1, 6) {
        // the application drops its event stream and subscribes again (before or after some events)
        if rng.chance(1, 2) {
            ops.push(format!("sest A k{}:1:{}:0 = i", 690, contact_shape(mode, rng)));
        }
        ops.push("sevresub A".into());
    }
    if rng.chance(1, 5) {
        // the application does not read its events for a while: the bounded stream overflows
        // (two events per new session); it then catches up, and later changes must be announced again
        stats.bump("gen.c17.event-stream-overflow");
        ops.push("sevpause A".into());
        // (the stream holds 100 events when discovered peers are reported, 30 otherwise)
        for i in 0..rng.range(104, 110) {
            ops.push(format!("sest A k{}:1:{}:0 = i", 700 + i, contact_shape(mode, rng)));
        }
        ops.push("sevresume A".into());
    }
    let m = rng.range(6, 30);
    let lead4 = *rng.pick(&c4);
    let lead6 = *rng.pick(&c6);
    if mode != "ip6" && rng.chance(1, 3) {
        // directed: a leading address and a rival close enough to block it; then one of the rival's
        // voters changes its vote to a third address - the PONG that makes the majority clear does
        // not itself name the majority address
        stats.bump("gen.c17.directed-blocked-then-vote-moves-away");
        let lead_n = vmin.max(3);
        let rival_n = ((lead_n as f64) * 0.8).round() as u64;
        let rival4 = *c4.iter().find(|c| **c != lead4).unwrap();
        let third4 = *c4.iter().find(|c| **c != lead4 && **c != rival4).unwrap();
        // every ping that is still outstanding is answered or failed first
        for _ in 0..n + 2 {
            ops.push("sfail A #p".into());
        }
        let base = 500 + rng.range(0, 50) * 20;
        for i in 0..lead_n + rival_n {
            ops.push(format!("sest A k{}:1:4:0 = o", base + i));
            // the rival's voters come first: the leader is blocked from the moment it qualifies
            ops.push(format!("sresp A #p ok pong +0 {}", if i < rival_n { rival4 } else { lead4 }));
        }
        let mover = base + rng.below(rival_n);
        ops.push(format!("srm A k{}", mover));
        ops.push(format!("sest A k{}:1:4:0 = o", mover));
        ops.push(format!("sresp A #p ok pong +0 {}", third4));
        ops.push("slocal A".into());
    }
    if mode != "ip6" && rng.chance(1, 4) {
        // directed: a leading address blocked by a rival within the margin; requests to some of the
        // rival's voters then fail (their votes are none the older for it); a leading voter votes again:
        // the tally is what it was, the record stays
        stats.bump("gen.c17.directed-requests-to-rival-voters-fail");
        let lead_n = vmin.max(3) + 1;
        let rival_n = ((lead_n as f64) * 0.75).round() as u64;
        let rival4 = *c4.iter().find(|c| **c != lead4).unwrap();
        for _ in 0..n + 2 {
            ops.push("sfail A #p".into());
        }
        let base = 900 + rng.range(0, 40) * 20;
        for i in 0..lead_n + rival_n {
            ops.push(format!("sest A k{}:1:4:0 = o", base + i));
            if i < rival_n {
                // (the rival's voters announce a newer record: the service asks each for it)
                ops.push(format!("sresp A #p ok pong +1 {}", rival4));
            } else {
                ops.push(format!("sresp A #p ok pong +0 {}", lead4));
            }
        }
        ops.push("slocal A".into());
        for _ in 0..rng.range(1, rival_n) {
            ops.push("sfail A #e".into());
        }
        let again = base + rival_n + rng.below(lead_n);
        ops.push(format!("srm A k{}", again));
        ops.push(format!("sest A k{}:1:4:0 = o", again));
        ops.push(format!("sresp A #p ok pong +0 {}", lead4));
        ops.push("slocal A".into());
    }
    for _ in 0..m {
        let c = rng.below(100);
        if c < 70 {
            let v6 = mode == "ip6" || (mode == "dual" && rng.chance(1, 2));
            let addr = if rng.chance(1, 5) {
                // a confirmation of what the record advertises right now
                if v6 { "self6" } else { "self4" }
            } else if v6 {
                if rng.chance(3, 4) { lead6 } else { *rng.pick(&c6) }
            } else if rng.chance(3, 4) {
                lead4
            } else {
                *rng.pick(&c4)
            };
            ops.push(format!("sresp A #p ok pong {} {}", rng.pick(&["+0", "+0", "+1"]), addr));
        } else if c < 85 {
            // a new session: another ping goes out
            let s = if rng.chance(1, 2) { voters[rng.below(voters.len() as u64) as usize] } else { rng.range(100, 400) };
            voters.push(s);
            ops.push(format!("sest A k{}:1:{}:0 = {}", s, contact_shape(mode, rng), if rng.chance(4, 5) { "o" } else { "i" }));
        } else if c < 90 {
            ops.push("sfail A #p".into());
        } else if c < 93 {
            ops.push(format!("sreq A k{} {} {} ping 1", voters[0], peer_addr(voters[0], mode), rid_tok(rng)));
        } else if c < 96 {
            // the application overrides the advertised socket; the peers go on voting
            let a = if mode == "ip6" { "20010db8000000000000000000000009/9999" } else { "192.0.2.99/9999" };
            ops.push(format!("ssetsock A {}", a));
        } else {
            ops.push("slocal A".into());
        }
    }
    ops.push("slocal A".into());
}

/// C16 through the service: a node with `ip_limit`, many peers of one /24 arriving through sessions,
/// explicit adds, lookups and record updates announced by PING / answered by FINDNODE[0].
fn gen_c16(rng: &mut Rng, ops: &mut Vec<String>, stats: &mut Stats) {
    stats.bump("gen.c16.service");
    // local identities whose seed ends in 999 are configured with ip_limit
    let a = 999 + 1000 * rng.range(0, 30);
    ops.push(format!("snew A k{} 1 4 0 ip4 all 16 16 0", a));
    let local_id = id_of_seed(a);
    if rng.chance(1, 3) {
        // directed: the shared /24 is one short of the table's limit; three known nodes of other subnets
        // (in buckets that hold nobody of the /24) announce, in ONE answer to a lookup request, newer
        // records that move them into it: one of them fits, not all three
        stats.bump("gen.c16.service.several-nodes-move-into-the-subnet-in-one-answer");
        let mut n_shared = 0;
        'outer: for d in [256u64, 255, 254, 253, 252] {
            for _ in 0..2 {
                if n_shared == 9 { break 'outer; }
                if let Some(sd) = mine(rng.below(1 << 30), |id| dist(&local_id, id) == d) {
                    ops.push(format!("sest A k{}:1:s:0 = {}", sd, if rng.chance(1, 2) { "o" } else { "i" }));
                    n_shared += 1;
                }
            }
        }
        let mut movers: Vec<u64> = Vec::new();
        for d in [251u64, 250, 249] {
            if let Some(sd) = mine(rng.below(1 << 30), |id| dist(&local_id, id) == d) {
                ops.push(format!("sest A k{}:1:4:0 = o", sd));
                movers.push(sd);
            }
        }
        ops.push("stable A".into());
        for round in 0..4u64 {
            ops.push(format!("squery A {}", hex::encode(rng.bytes(32))));
            for j in 0..3u64 {
                let items: Vec<String> = movers.iter().map(|m| format!("k{}:{}:s:0", m, 2 + round * 3 + j)).collect();
                ops.push(format!("sresp A #q ok nodes 1 {}", items.join(",")));
            }
            for _ in 0..16 {
                ops.push("sfail A #q".into());
            }
        }
        ops.push("stable A".into());
        return;
    }
    // two peers of the shared /24 in each of several buckets, then more: the table takes ten
    let mut shared: Vec<u64> = Vec::new();
    let mut others: Vec<u64> = Vec::new();
    for d in [256u64, 255, 254, 253, 252, 251, 250] {
        for _ in 0..2 {
            if let Some(sd) = mine(rng.below(1 << 30), |id| dist(&local_id, id) == d) {
                shared.push(sd);
            }
            if rng.chance(1, 2) {
                if let Some(sd) = mine(rng.below(1 << 30), |id| dist(&local_id, id) == d) {
                    others.push(sd);
                }
            }
        }
    }
    // nodes of other subnets first (they will announce records of the shared /24 later)
    for sd in &others {
        ops.push(format!("sest A k{}:1:4:0 = {}", sd, if rng.chance(1, 2) { "o" } else { "i" }));
    }
    for sd in &shared {
        if rng.chance(1, 4) {
            ops.push(format!("sadd A k{}:1:s:0", sd));
        } else {
            ops.push(format!("sest A k{}:1:s:0 = {}", sd, if rng.chance(1, 2) { "o" } else { "i" }));
        }
    }
    for _ in 0..rng.range(6, 16) {
        if others.is_empty() { break; }
        let sd = others[rng.below(others.len() as u64) as usize];
        match rng.below(4) {
            0 => {
                // the node announces a newer record with a PING, the service fetches it
                ops.push(format!("sreq A k{} {} {} ping {}", sd, peer_addr(sd, "ip4"), rid_tok(rng), rng.range(2, 4)));
                ops.push(format!("sresp A #e ok nodes 1 @own:{}:s", rng.pick(&["1", "2"])));
            }
            1 => ops.push(format!("sest A k{}:{}:s:0 {} {}", sd, rng.range(2, 4), peer_addr(sd, "ip4"), if rng.chance(1, 2) { "o" } else { "i" })),
            2 => ops.push(format!("sadd A k{}:{}:s:0", sd, rng.range(2, 4))),
            _ => {
                // a lookup answer carries newer records of known nodes
                ops.push(format!("squery A {}", hex::encode(flip_target(&id_of_seed(sd), 256, rng))));
                let mut items: Vec<String> = Vec::new();
                for _ in 0..rng.range(1, 4) {
                    let q = others[rng.below(others.len() as u64) as usize];
                    items.push(format!("k{}:{}:s:0", q, rng.range(2, 5)));
                }
                ops.push(format!("sresp A #q ok nodes 1 {}", items.join(",")));
                ops.push("sfail A #q".into());
            }
        }
    }
    if rng.chance(1, 3) {
        // the farthest bucket is driven to fullness (its head disconnected), one more connected node waits
        // in its pending slot; then newer records that would move a node into the saturated /24 are added
        // through the API - for members and for the waiting node alike the table's limit applies
        stats.bump("gen.c16.service.newer-record-for-the-waiting-node");
        let mut cands: Vec<u64> = Vec::new();
        for _ in 0..21 {
            if let Some(sd) = mine(rng.below(1 << 30), |id| dist(&local_id, id) == 256) {
                cands.push(sd);
            }
        }
        for (i, sd) in cands.iter().enumerate() {
            if i == 0 {
                ops.push(format!("sadd A k{}:1:4:0", sd));
            } else {
                ops.push(format!("sest A k{}:1:4:0 = o", sd));
            }
        }
        for sd in cands.iter().rev() {
            ops.push(format!("sadd A k{}:2:s:0", sd));
        }
    }
    ops.push("stable A".into());
}

/// C17 with a real vote life time (400 ms): bursts of votes separated by long pauses.  Votes from
/// before a pause no longer count afterwards.  (Monitors only: the service model has no clock.)
fn gen_c17_expiry(rng: &mut Rng, ops: &mut Vec<String>, stats: &mut Stats) {
    stats.bump("gen.c17.expiry");
    let a = 998 + 1000 * rng.range(0, 30);
    let vmin = *rng.pick(&[2u64, 3, 3]);
    // (half of the nodes are dual-stack: there every PONG also asks whether the other family still needs
    // votes, which prunes expired votes on a path of its own)
    if rng.chance(1, 2) {
        ops.push(format!("snew A k{} {} {} 0 dual all 16 16 1 {}", a, rng.range(1, 50), *rng.pick(&["46", "4"]), vmin));
    } else {
        ops.push(format!("snew A k{} {} 4 0 ip4 all 16 16 1 {}", a, rng.range(1, 50), vmin));
    }
    let n = vmin + rng.range(2, 4);
    for i in 0..n {
        ops.push(format!("sest A k{}:1:4:0 = o", 400 + i));
        if i + 1 < vmin || i >= vmin {
            // (one vote short of the minimum before the pause, the rest after it)
        }
    }
    let x = "203.0.113.9/30303";
    let y = "198.51.100.3/9000";
    // first burst: one vote short of the minimum
    for _ in 0..vmin - 1 {
        ops.push(format!("sresp A #p ok pong +0 {}", x));
    }
    ops.push("slocal A".into());
    ops.push("ssleep A 700".into());
    // second burst: again short of the minimum on its own; together with the expired ones it would reach it
    let second = rng.range(1, vmin - 1).max(1);
    for _ in 0..second {
        ops.push(format!("sresp A #p ok pong +0 {}", x));
    }
    ops.push("slocal A".into());
    if rng.chance(1, 2) {
        // and a genuine majority at the end (all fresh)
        ops.push("ssleep A 700".into());
        for i in 0..vmin {
            ops.push(format!("sest A k{}:1:4:0 = o", 450 + i));
        }
        for _ in 0..vmin {
            ops.push(format!("sresp A #p ok pong +0 {}", y));
        }
        ops.push("slocal A".into());
    }
}

pub fn gen_case(rng: &mut Rng, tier: &str, profile: &str, stats: &mut Stats) -> Vec<String> {
    let mut ops = Vec::new();
    if profile == "C17race" {
        // the vote scenarios, with the application writing to the local record from its own thread
        let mut ops = Vec::new();
        gen_c17(rng, &mut ops, stats);
        let at = ops.iter().position(|o| o.starts_with("snew A")).map(|i| i + 1).unwrap_or(0);
        ops.insert(at, "srace A".into());
        return ops;
    }
    if profile == "C17expiry" {
        gen_c17_expiry(rng, &mut ops, stats);
        return ops;
    }
    if profile == "C16" {
        gen_c16(rng, &mut ops, stats);
        return ops;
    }
    if profile == "C10shared" {
        // two lookups at once over a table of 6-8 nodes; one answer to each names the same stranger; the
        // first lookup is brought to its end (everything it asks fails), then the second: both end short,
        // so both must have asked the stranger
        stats.bump("gen.c10.two-lookups-one-stranger");
        ops.push(format!("snew A k{} 1 4 0 ip4 all 16 16 0", rng.range(1, 40)));
        for i in 0..rng.range(6, 8) {
            ops.push(format!("sest A k{}:1:4:0 = {}", 300 + i * 7 + rng.below(5), if rng.chance(1, 2) { "o" } else { "i" }));
        }
        ops.push(format!("squery A {}", hex::encode(rng.bytes(32))));
        ops.push(format!("squery2 A {}", hex::encode(rng.bytes(32))));
        let base = rng.below(1000);
        // (mostly the lookup that was told first also ends first)
        let (told_first, told_second) = if rng.chance(1, 2) { ("#q1", "#q2") } else { ("#q2", "#q1") };
        ops.push(format!("sresp A {} ok nodes 1 @shared:{}", told_first, base));
        let _ = told_second;
        ops.push(format!("sresp A #qs ok nodes 1 @shared:{}", base));
        let (first, second) = if rng.chance(4, 5) { (told_first, told_second) } else { (told_second, told_first) };
        for _ in 0..14 {
            ops.push(format!("sfail A {}", first));
        }
        for _ in 0..14 {
            ops.push(format!("sfail A {}", second));
        }
        for _ in 0..6 {
            ops.push("sfail A #q".into());
        }
        ops.push("sshared A".into());
        return ops;
    }
    if profile == "C18boot" {
        stats.bump("gen.c18.boot");
        ops.push(format!("sboot {}", rng.range(1, 900)));
        if rng.chance(1, 2) { ops.push(format!("sboot {}", rng.range(1, 900))); }
        return ops;
    }
    if profile == "C09cutoff" {
        // a lookup whose peers stay silent on a node where nothing else happens: the query timeout (250 ms)
        // passes, and a second more; then something wakes the service (a PING comes in): the lookup is cut
        // off and its result - whatever it has - is handed to the caller, who is still waiting for it
        stats.bump("gen.c09.cut-off-on-an-idle-node");
        ops.push("snew A k996 1 4 0 ip4 all 16 16 0".to_string());
        let n = rng.range(1, 5);
        for i in 0..n {
            ops.push(format!("sest A k{}:1:4:0 = {}", 300 + i * 7 + rng.below(5), if rng.chance(1, 2) { "o" } else { "i" }));
        }
        ops.push(format!("squery A {}{}", hex::encode(rng.bytes(32)), if rng.chance(1, 3) { " 4" } else { "" }));
        if rng.chance(1, 2) {
            // one peer answers (with nothing), the others stay silent
            ops.push("sresp A #q ok nodes 1 -".into());
        }
        ops.push(format!("srealsleep A {}", rng.range(1400, 1800)));
        ops.push(format!("sreq A k{} {} {} ping 1", 900, peer_addr(900, "ip4"), rid_tok(rng)));
        ops.push("sidle A 10".into());
        // (one of the silent peers' requests runs into its timeout: the step that looks at the caller's end)
        ops.push("sfail A #q".into());
        ops.push("stable A".into());
        return ops;
    }
    if profile == "C09conc" {
        // two lookups at once over a table of 6-9 nodes: both are at their parallelism with candidates
        // left; requests fail one by one - each failure lets at most one further request out
        stats.bump("gen.c09.concurrent-lookups");
        ops.push(format!("snew A k{} 1 4 0 ip4 all 16 16 0", rng.range(1, 40)));
        for i in 0..rng.range(6, 9) {
            ops.push(format!("sest A k{}:1:4:0 = {}", 300 + i * 7 + rng.below(5), if rng.chance(1, 2) { "o" } else { "i" }));
        }
        ops.push(format!("squery A {}", hex::encode(rng.bytes(32))));
        ops.push(format!("squery2 A {}", hex::encode(rng.bytes(32))));
        for _ in 0..rng.range(8, 20) {
            if rng.chance(3, 4) {
                ops.push("sfail A #q".into());
            } else {
                ops.push(format!("sresp A #q ok nodes 1 {}", if rng.chance(1, 2) { "-".to_string() } else { format!("@in:{}", rng.below(1000)) }));
            }
        }
        for _ in 0..40 {
            ops.push("sfail A #q".into());
        }
        ops.push("stable A".into());
        return ops;
    }
    if profile == "C09" && rng.chance(1, 2) {
        // lookups whose peers mostly fail or stay silent: the caller still gets a result (possibly empty)
        stats.bump("gen.c09.service-failing-peers");
        let a = rng.range(1, 40);
        ops.push(format!("snew A k{} 1 4 0 ip4 all 16 16 0", a));
        let npeers = rng.range(1, 5);
        for i in 0..npeers {
            ops.push(format!("sest A k{}:1:4:0 = {}", 300 + i * 7 + rng.below(5), if rng.chance(1, 2) { "o" } else { "i" }));
        }
        for _ in 0..rng.range(1, 3) {
            let tid: Vec<u8> = rng.bytes(32);
            ops.push(format!("squery A {}{}", hex::encode(tid), match rng.below(8) { 0 => " 0", 1 => " 1", 2 => " 2", 3 => " 16", 4 => " 18446744073709551615", 5 => " 1000000", _ => "" }));
            let all_fail = rng.chance(2, 3);
            for _ in 0..(npeers * 2 + 4) {
                if all_fail || rng.chance(2, 3) {
                    ops.push("sfail A #q".into());
                } else {
                    ops.push(format!("sresp A #q ok nodes 1 {}", if rng.chance(1, 2) { "-".to_string() } else { format!("@in:{}", rng.below(1000)) }));
                }
            }
        }
        ops.push("stable A".into());
        return ops;
    }
    let p = match profile {
        "C11" | "C12" | "C14" | "C17" => profile,
        // C10 (service half): lookups driven through the real service
        "C10" => "C11",
        "C09" if rng.chance(1, 2) => "C11",
        // C01 (service half): routing-table effects of handler reports -> the table-policy scenarios
        "C01" => "C12",
        _ => *rng.pick(&["C11", "C12", "C14", "C17"]),
    };
    match p {
        "C11" => gen_c11(rng, &mut ops, stats),
        "C12" => gen_c12(rng, &mut ops, stats),
        "C17" => gen_c17(rng, &mut ops, stats),
        _ => gen_c14(rng, &mut ops, stats),
    }
    ops
}

//! talk engine (ops starting with `t`): C20, the life cycle of `TalkRequest` objects handed to the
//! application by the real `Service` (scripted handler).
//!   tnew KEY | tdeliver PEER ADDR RID PROTO PAYLOAD | trespond #i PAYLOAD | tdrop #i | tshutdown
#![allow(unused)]
use crate::rng::Rng;
use crate::util::*;
use crate::{Runner, Stats};
#[path = "eng_service.rs"]
pub mod svc;
use discv5::enr::NodeId;
use discv5::verif::service::{HandlerIn, HandlerOut, Request, RequestBody, RequestId, Response, ResponseBody};
use discv5::{IpMode, NodeAddress};
use svc::*;

#[derive(Default)]
pub struct TalkRunner {
    r: ServiceRunner,
    /// (request id, source) of every delivered request, responses seen so far, expected payload
    meta: Vec<(Vec<u8>, NodeAddress, usize)>,
    shut: bool,
    /// event streams the application asked for earlier and still holds (it reads the newest one; what
    /// arrives on an older one is read and discarded)
    older_streams: Vec<tokio::sync::mpsc::Receiver<discv5::Event>>,
}

impl TalkRunner {
    /// Drains the handler channel; returns the canonical items and counts responses per request.
    fn drain(&mut self, out: &mut Vec<String>) -> Vec<String> {
        self.r.settle();
        for old in self.older_streams.iter_mut() {
            while let Ok(e) = old.try_recv() {
                drop(e);
            }
        }
        self.r.settle();
        let mut items = Vec::new();
        if let Some(inst) = self.r.insts.get_mut(&'T') {
            if let Some(hin) = inst.hin.as_mut() {
                while let Ok(m) = hin.try_recv() {
                    match m {
                        HandlerIn::Response(a, r) => {
                            items.push(show_resp(&a, &r));
                            let mut matched = false;
                            // (the oldest request with that id from that source that is still unanswered;
                            // if all were answered, the response is one too many for the first of them)
                            let pos = self
                                .meta
                                .iter()
                                .position(|(rid, src, n)| *rid == r.id.0 && *src == a && *n == 0)
                                .or_else(|| self.meta.iter().position(|(rid, src, _)| *rid == r.id.0 && *src == a));
                            if let Some(j) = pos {
                                let (rid, _, n) = &mut self.meta[j];
                                *n += 1;
                                matched = true;
                                if *n > 1 {
                                    out.push(format!("!MON C20 second-response-to-one-request rid={}", hx(rid)));
                                }
                            }
                            if !matched {
                                out.push(format!("!MON C20 response-to-unknown-request rid={}", hx(&r.id.0)));
                            }
                            if !matches!(r.body, ResponseBody::Talk { .. }) {
                                out.push("!MON C20 talk-answered-with-other-type".into());
                            }
                        }
                        _ => items.push("other".into()),
                    }
                }
            }
        }
        items
    }
}

impl Runner for TalkRunner {
    fn reset(&mut self) {
        self.r.reset();
        self.r.hold_talks = true;
        self.older_streams.clear();
        self.meta.clear();
        self.shut = false;
    }

    fn step(&mut self, line: &str, out: &mut Vec<String>, stats: &mut Stats) {
        if self.r.rt.is_none() {
            self.reset();
        }
        let t: Vec<&str> = line.split(' ').collect();
        let noop = |out: &mut Vec<String>| {
            out.push("!OP tnop".into());
            out.push("noop".into());
        };
        match t.as_slice() {
            ["tnew", key] => {
                let Some(seed) = key.strip_prefix('k').and_then(|s| s.parse::<u64>().ok()) else { return noop(out) };
                self.reset();
                discv5::verif::limiter::permit_ban_reset();
                let Some(enr) = build_rec(seed, 1, "4", 0) else { return noop(out) };
                let rt = self.r.rt.as_ref().unwrap();
                let Some(inst) = Inst::start(rt, 'T', seed, enr, IpMode::Ip4, Filter::All, 16, 16, false, 10) else { return noop(out) };
                self.r.insts.insert('T', inst);
                out.push("!OP tnew".into());
                out.push("ok".into());
            }
            _ if !self.r.insts.contains_key(&'T') => noop(out),
            // the requester's record (advertising some address of its own) is put into the routing
            // table: responses must still go to the address the request is observed from
            ["tknown", peer, shape] => {
                let Some(seed) = peer.strip_prefix('k').and_then(|s| s.parse::<u64>().ok()) else { return noop(out) };
                let Some(enr) = build_rec(seed, 1, shape, 0) else { return noop(out) };
                let _ = self.r.insts[&'T'].discv5.add_enr(enr);
                stats.bump("t.known-peer");
                out.push("!OP tnop".into());
                out.push("noop".into());
            }
            // the application (or the service itself) bans a requester while its request is still held:
            // what the peer is sent for that request does not depend on it
            ["tban", peer, what] => {
                let Some(id) = parse_peer(peer) else { return noop(out) };
                let node_id = NodeId::new(&id);
                let inst = &self.r.insts[&'T'];
                match *what {
                    "node" => inst.discv5.ban_node(&node_id, None),
                    "ip" => {
                        for (_, s, _) in self.meta.iter().filter(|(_, s, _)| s.node_id == node_id) {
                            inst.discv5.ban_ip(s.socket_addr.ip(), None);
                        }
                    }
                    _ => return noop(out),
                }
                stats.bump("t.requester-banned-while-held");
                out.push("!OP tnop".into());
                out.push("noop".into());
            }
            ["tdeliver", peer, addr, rid, proto, payload] => {
                let (Some(id), Some(a), Some(ridb), Some(p), Some(q)) = (parse_peer(peer), parse_addr(addr), unhx(rid), unhx(proto), unhx(payload)) else {
                    return noop(out);
                };
                let na = NodeAddress { socket_addr: a, node_id: NodeId::new(&id) };
                // request ids are unique per source in a real exchange; keep the ledger unambiguous
                // (a peer may use an id again once its earlier request with that id is done with)
                let held = self.meta.iter().enumerate().any(|(j, (r, s, _))| {
                    *r == ridb && *s == na && self.r.talks.get(j).map(|t| t.is_some()).unwrap_or(false)
                });
                if held {
                    return noop(out);
                }
                if self.meta.iter().any(|(r, s, _)| *r == ridb && *s == na) {
                    stats.bump("t.request-id-used-again-by-the-same-peer");
                }
                let req = Request { id: RequestId(ridb.clone()), body: RequestBody::Talk { protocol: p.clone(), request: q.clone() } };
                // the request reaches the service the way it does in a running node: as what the message codec
                // makes of the peer's bytes (the id the answers must carry is the one on the wire, `ridb`)
                let req = {
                    use discv5::verif::rpc as vr;
                    let wire = vr::message_encode(vr::Message::Request(vr::Request {
                        id: vr::RequestId(ridb.clone()),
                        body: vr::RequestBody::Talk { protocol: p.clone(), request: q.clone() },
                    }));
                    match vr::message_decode(&wire) {
                        Ok(vr::Message::Request(r)) => match r.body {
                            vr::RequestBody::Talk { protocol, request } => Request { id: RequestId(r.id.0), body: RequestBody::Talk { protocol, request } },
                            _ => {
                                out.push("!MON C20 talk-request-decoded-as-something-else".into());
                                req
                            }
                        },
                        _ => {
                            out.push("!MON C20 well-formed-talk-request-refused-by-the-codec".into());
                            req
                        }
                    }
                };
                if req.id.0 != ridb {
                    stats.bump("t.codec-changed-the-request-id");
                }
                let before = self.r.talks.len();
                // the application is not reading its events and the stream is full: the service cannot
                // hand the request over, the object is dropped at once - one empty TALKRESP, no more
                let queue_full = self.r.insts[&'T'].events_paused;
                if queue_full {
                    self.meta.push((ridb.clone(), na.clone(), 0));
                    let mi = self.meta.len() - 1;
                    let _ = self.r.insts[&'T'].hout.try_send(HandlerOut::Request(na.clone(), Box::new(req)));
                    let so = self.r.observe('T', false, false);
                    let mut items: Vec<String> = Vec::new();
                    for (a2, r2) in &so.responses {
                        items.push(show_resp(a2, r2));
                        if r2.id.0 == ridb && *a2 == na {
                            self.meta[mi].2 += 1;
                        }
                    }
                    items.extend(self.drain(out));
                    stats.bump("t.delivered-with-full-event-queue");
                    if !self.shut && (self.meta[mi].2 != 1 || !items.iter().any(|s| s.ends_with(":talk:-"))) {
                        out.push(format!("!MON C20 undeliverable-request-not-answered-exactly-once-empty sent={}", self.meta[mi].2));
                    }
                    // the object never reaches the application: keep the numbering of objects in step
                    self.r.talks.push(None);
                    self.meta.swap_remove(mi);
                    self.meta.push((ridb.clone(), na.clone(), 1));
                    out.push(format!("!OP tdeliverfull {} {} {}", hex::encode(id), sock_num(&a), rid));
                    out.push(if items.is_empty() { "-".into() } else { items.join(" ") });
                    return;
                }
                let _ = self.r.insts[&'T'].hout.try_send(HandlerOut::Request(na.clone(), Box::new(req)));
                let so = self.r.observe('T', false, false);
                let mut items = self.drain(out);
                let delivered = self.r.talks.len() - before;
                if delivered == 1 {
                    self.meta.push((ridb.clone(), na, 0));
                    items.push(format!("talkreq:#{}:{}", self.r.talks.len(), hx(&ridb)));
                    stats.bump("t.delivered");
                } else if !self.shut {
                    out.push(format!("!MON C20 talk-request-not-delivered-to-application n={}", delivered));
                }
                if !so.responses.is_empty() {
                    out.push("!MON C20 response-before-application-acted".into());
                }
                let open = self.r.talks.iter().filter(|t| t.is_some()).count();
                if open >= 2 {
                    stats.bump("t.concurrent-requests");
                }
                out.push(format!("!OP tdeliver {} {} {} {} {}", hex::encode(id), sock_num(&a), rid, proto, payload));
                out.push(if items.is_empty() { "-".into() } else { items.join(" ") });
            }
            ["trespond", idx, payload] => {
                let (Some(i), Some(p)) = (idx.strip_prefix('#').and_then(|s| s.parse::<usize>().ok()), unhx(payload)) else { return noop(out) };
                if i == 0 || i > self.r.talks.len() || self.r.talks[i - 1].is_none() {
                    return noop(out);
                }
                let tr = self.r.talks[i - 1].take().unwrap();
                let before = self.meta[i - 1].2;
                let res = no_panic(std::panic::AssertUnwindSafe(move || tr.respond(p.clone())));
                let items = self.drain(out);
                let after = self.meta[i - 1].2;
                let rs = match &res {
                    None => {
                        out.push("!MON C20 respond-panicked".into());
                        "panic"
                    }
                    Some(Ok(())) => "ok",
                    Some(Err(_)) => "err",
                };
                let expect = format!(":talk:{}", payload);
                if self.shut {
                    stats.bump("t.respond-after-shutdown");
                    if rs != "err" || after != before {
                        out.push(format!("!MON C20 respond-after-shutdown res={} sent={}", rs, after - before));
                    }
                } else {
                    stats.bump("t.responded");
                    if rs != "ok" || after - before != 1 || !items.iter().any(|s| s.ends_with(&expect)) {
                        out.push(format!("!MON C20 respond-not-exactly-one-response res={} sent={}", rs, after - before));
                    }
                }
                out.push(format!("!OP trespond {} {}", i, payload));
                out.push(format!("res={} {}", rs, if items.is_empty() { "-".into() } else { items.join(" ") }));
            }
            ["tdrop", idx, rest @ ..] => {
                let unwinding = rest.first() == Some(&"unwinding");
                let Some(i) = idx.strip_prefix('#').and_then(|s| s.parse::<usize>().ok()) else { return noop(out) };
                if i == 0 || i > self.r.talks.len() || self.r.talks[i - 1].is_none() {
                    return noop(out);
                }
                let tr = self.r.talks[i - 1].take().unwrap();
                let before = self.meta[i - 1].2;
                let res = if unwinding {
                    // the application task that holds the request panics: the object is dropped while
                    // the stack unwinds.  A second panic inside the destructor would abort the process.
                    stats.bump("t.dropped-while-unwinding");
                    let r = std::panic::catch_unwind(std::panic::AssertUnwindSafe(move || {
                        let _held = tr;
                        std::panic::resume_unwind(Box::new("application task failed"));
                    }));
                    debug_assert!(r.is_err());
                    Some(())
                } else {
                    no_panic(std::panic::AssertUnwindSafe(move || drop(tr)))
                };
                let items = self.drain(out);
                let after = self.meta[i - 1].2;
                if res.is_none() {
                    out.push("!MON C20 drop-panicked".into());
                }
                if self.shut {
                    stats.bump("t.drop-after-shutdown");
                    if after != before {
                        out.push("!MON C20 response-after-shutdown".into());
                    }
                } else {
                    stats.bump("t.dropped");
                    if after - before != 1 || !items.iter().any(|s| s.ends_with(":talk:-")) {
                        out.push(format!("!MON C20 drop-not-exactly-one-empty-response sent={}", after - before));
                    }
                }
                out.push(format!("!OP tdrop {}", i));
                out.push(if items.is_empty() { "-".into() } else { items.join(" ") });
            }
            // the application stops reading its event stream and N sessions are reported: the bounded
            // stream (100 events) fills up
            ["tevfill", n] => {
                let n: u64 = n.parse().unwrap_or(0).min(200);
                self.r.insts.get_mut(&'T').unwrap().events_paused = true;
                let mut scratch = Vec::new();
                for i in 0..n {
                    self.r.step(&format!("sest T k{}:1:4:0 = i", 3000 + i), &mut scratch, stats);
                }
                stats.bump("t.event-queue-filled");
                out.push("!OP tnop".into());
                out.push("noop".into());
            }
            // the application catches up (what piled up holds no TALK request) and reads on
            ["tevresume"] => {
                let inst = self.r.insts.get_mut(&'T').unwrap();
                inst.events_paused = false;
                while inst.events.try_recv().is_ok() {}
                out.push("!OP tnop".into());
                out.push("noop".into());
            }
            // another component of the application asks for an event stream of its own; the first one keeps
            // its receiver (and throws away whatever still arrives there)
            ["tsub2"] => {
                let rt = self.r.rt.as_ref().unwrap();
                let inst = self.r.insts.get_mut(&'T').unwrap();
                match rt.block_on(inst.discv5.event_stream()) {
                    Ok(ev) => {
                        let old = std::mem::replace(&mut inst.events, ev);
                        self.older_streams.push(old);
                        stats.bump("t.second-event-stream");
                    }
                    Err(_) => {}
                }
                out.push("!OP tnop".into());
                out.push("noop".into());
            }
            // the application sits on what it holds for a while (real time)
            ["tsleep", ms] => {
                let ms: u64 = ms.parse().unwrap_or(0).min(600);
                std::thread::sleep(std::time::Duration::from_millis(ms));
                stats.bump("t.application-waits");
                out.push("!OP tsleep".into());
                out.push("ok".into());
            }
            ["tshutdown"] => {
                if self.shut {
                    return noop(out);
                }
                let items = self.drain(out);
                if let Some(inst) = self.r.insts.get_mut(&'T') {
                    inst.discv5.shutdown();
                }
                self.r.settle();
                // the handler task ends with the service: its end of the channel goes away
                if let Some(inst) = self.r.insts.get_mut(&'T') {
                    inst.hin = None;
                }
                self.shut = true;
                stats.bump("t.shutdowns");
                out.push("!OP tshutdown".into());
                out.push("ok".into());
            }
            _ => noop(out),
        }
    }
}

pub fn gen_case(rng: &mut Rng, tier: &str, _profile: &str, stats: &mut Stats) -> Vec<String> {
    let mut ops = vec![format!("tnew k{}", rng.range(1, 50))];
    // some requesters are known (their record is in the routing table) under another address
    for peer in 100..=104u64 {
        if rng.chance(1, 3) {
            ops.push(format!("tknown k{} {}", peer, if rng.chance(1, 2) { "4" } else { "4x" }));
        }
    }
    if rng.chance(1, 6) {
        ops.push("tsub2".into());
    }
    let n = rng.range(6, 40);
    let mut delivered = 0u64;
    let mut earlier: Vec<(u64, String, String)> = Vec::new();
    let mut shut = false;
    let mapped = rng.chance(1, 5);
    if rng.chance(1, 6) {
        // requests that arrive while the application's event stream is full
        ops.push("tevfill 110".into());
        for _ in 0..rng.range(1, 3) {
            let n1 = rng.range(1, 8) as usize;
            let rid = hex::encode(rng.bytes(n1));
            ops.push(format!("tdeliver k{} 10.0.7.{}/9001 {} - 0102", rng.range(100, 104), rng.range(1, 4), rid));
            delivered += 1;
        }
        ops.push("tevresume".into());
    }
    for _ in 0..n {
        let c = rng.below(100);
        if delivered == 0 || c < 35 {
            let peer = rng.range(100, 104);
            let (b2, b3, port) = (rng.below(3), rng.range(1, 4), rng.range(1, 3) + 9000);
            // (some worlds see IPv4 peers at IPv4-mapped IPv6 addresses)
            let a = if mapped {
                format!("{}/{}", hex::encode(std::net::Ipv4Addr::new(10, 0, b2 as u8, b3 as u8).to_ipv6_mapped().octets()), port)
            } else {
                format!("10.0.{}.{}/{}", b2, b3, port)
            };
            let n = rng.range(1, 8) as usize;
            // (one id in five is a fixed-width counter: leading zero bytes)
            let rid = if rng.chance(1, 5) && n >= 2 {
                let mut b = vec![0u8; n];
                b[n - 1] = rng.range(1, 255) as u8;
                if n >= 3 && rng.chance(1, 2) { b[n - 2] = rng.below(256) as u8; }
                hex::encode(b)
            } else { hex::encode(rng.bytes(n)) };
            let n = rng.below(4) as usize;
            let proto = hx(&rng.bytes(n));
            let n = rng.below(12) as usize;
            let payload = hx(&rng.bytes(n));
            // (one request in five repeats the source and the request id of an earlier one - peers whose
            // ids are a small counter do that; it is a request like any other)
            let (peer, a, rid) = if !earlier.is_empty() && rng.chance(1, 5) {
                earlier[rng.below(earlier.len() as u64) as usize].clone()
            } else {
                (peer, a, rid)
            };
            earlier.push((peer, a.clone(), rid.clone()));
            ops.push(format!("tdeliver k{} {} {} {} {}", peer, a, rid, proto, payload));
            delivered += 1;
        } else if c < 65 {
            let n = match rng.below(8) {
                0 | 1 => 0,
                2 | 3 => 1,
                // around the largest payload that still fits one datagram (1177 bytes for an 8-byte id)
                4 => [1100, 1160, 1165, 1166, 1170, 1176, 1177][rng.below(7) as usize],
                _ => rng.below(40) as usize,
            };
            let payload = hx(&rng.bytes(n));
            ops.push(format!("trespond #{} {}", rng.range(1, delivered), payload));
        } else if c < 90 {
            ops.push(format!("tdrop #{}{}", rng.range(1, delivered), if rng.chance(1, 4) { " unwinding" } else { "" }));
        } else if c < 94 {
            ops.push(format!("tban k{} {}", rng.range(100, 104), if rng.chance(2, 3) { "node" } else { "ip" }));
        } else if !shut {
            ops.push("tshutdown".into());
            shut = true;
        }
    }
    if rng.chance(1, 6) {
        // the application gets round to what it holds only after the requesters have given up waiting
        ops.push("tsleep 250".into());
    }
    // act on everything that is still held (half of the cases after a shutdown)
    if !shut && rng.chance(1, 2) {
        ops.push("tshutdown".into());
    }
    for i in 1..=delivered {
        if rng.chance(1, 2) {
            ops.push(format!("trespond #{} {}", i, hx(&rng.bytes(3))));
        } else {
            ops.push(format!("tdrop #{}{}", i, if rng.chance(1, 4) { " unwinding" } else { "" }));
        }
    }
    ops
}

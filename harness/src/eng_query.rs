//! Query engine (C09, C10): ops starting with `q` against `FindNodeQuery` / `PredicateQuery`
//! (driven directly with explicit time) and `QueryPool` (real time, no expiring timeouts).
//!
//! Single query:
//!   qnew V PAR NR PTO TARGET INIT    V = f | p; INIT = `id:flag,…` | `-`
//!   qnext NOW                         → wait:<id> | wait:- | cap | fin
//!   qok REF CLOSER / qfail REF        REF = @k (k-th outstanding request) | %k (k-th request ever
//!                                     emitted) | <64 hex>;  CLOSER = `id:flag,…` | `-`
//!   qpeek / qdrive NOW CAP / qres
//! Pool: qpnew TIMEOUT / qpadd V PAR NR PTO TARGET INIT / qpok ID REF CLOSER / qpfail ID REF /
//!   qppoll NOW CAP (poll until Idle / Waiting(None); events grouped by query id)
//!
//! The monitors (`!MON C09 …`, `!MON C10 …`) are evaluated on the harness' own ledger of calls and
//! return values; they never look at the model.
use crate::rng::Rng;
use crate::util::*;
use crate::{Runner, Stats};
use discv5::enr::NodeId;
use discv5::verif::query::{
    QueryState, ReportedPeer, VFindNodeQuery, VPool, VPoolEvent, VPredicateQuery,
};
use std::collections::{BTreeMap, BTreeSet};
use std::panic::AssertUnwindSafe;
use std::time::{Duration, Instant};

type Id = [u8; 32];

fn parse_id(s: &str) -> Option<Id> {
    if s.len() != 64 {
        return None;
    }
    hex::decode(s).ok()?.try_into().ok()
}

fn parse_pairs(s: &str) -> Option<Vec<(Id, bool)>> {
    if s == "-" {
        return Some(vec![]);
    }
    s.split(',')
        .map(|item| {
            let (i, f) = item.split_once(':')?;
            let f = match f {
                "1" => true,
                "0" => false,
                _ => return None,
            };
            Some((parse_id(i)?, f))
        })
        .collect()
}

fn num(s: &str) -> Option<u64> {
    if s.is_empty() || !s.bytes().all(|b| b.is_ascii_digit()) {
        return None;
    }
    s.parse().ok()
}

fn nid(i: &Id) -> NodeId {
    NodeId::new(i)
}

fn show_ids(l: &[Id]) -> String {
    if l.is_empty() {
        "-".into()
    } else {
        l.iter().map(hex::encode).collect::<Vec<_>>().join(",")
    }
}

fn xor(a: &Id, b: &Id) -> Id {
    let mut o = [0u8; 32];
    for i in 0..32 {
        o[i] = a[i] ^ b[i];
    }
    o
}

fn short(i: &Id) -> String {
    hex::encode(&i[24..])
}

// ---------------------------------------------------------------------------------------------
// ledger + monitors

#[derive(Default)]
struct Ledger {
    pred: bool,
    par: usize,
    nr: usize,
    pto: u64,
    target: Id,
    /// ids the query was told about: the (truncated) initial list and every closer list
    known: BTreeSet<Id>,
    /// ids that were reported at least once with a matching record
    flag_true: BTreeSet<Id>,
    /// candidates the query certainly holds
    learned: BTreeSet<Id>,
    emitted: Vec<Id>,
    outstanding: Vec<Id>,
    emit_now: BTreeMap<Id, u64>,
    had_event: BTreeSet<Id>,
    answered: BTreeSet<Id>,
    maybe_stalled: bool,
    finished: bool,
    saw_cap: bool,
    saw_late: bool,
}

impl Ledger {
    fn new(pred: bool, par: usize, nr: usize, pto: u64, target: Id, init: &[(Id, bool)]) -> Self {
        let mut l = Ledger { pred, par, nr, pto, target, ..Default::default() };
        for (i, f) in init.iter().take(nr) {
            l.known.insert(*i);
            l.learned.insert(*i);
            if *f {
                l.flag_true.insert(*i);
            }
        }
        l
    }

    /// `next` handed out `p` at time `now`.
    fn on_emit(&mut self, p: Id, now: u64, out: &mut Vec<String>) {
        if self.emitted.contains(&p) {
            out.push(format!("!MON C09 recontact peer={}", short(&p)));
        }
        let pto = self.pto;
        let inflight = self
            .outstanding
            .iter()
            .filter(|o| self.emit_now.get(*o).map(|t| t.saturating_add(pto) > now).unwrap_or(false))
            .count();
        let bound = if self.maybe_stalled { self.par.max(self.nr) } else { self.par };
        if inflight >= bound {
            out.push(format!("!MON C09 inflight-exceeds inflight-before={} bound={}", inflight, bound));
        }
        if !self.known.contains(&p) {
            out.push(format!("!MON C09 unknown-peer-emitted peer={}", short(&p)));
        }
        self.emitted.push(p);
        self.outstanding.push(p);
        self.emit_now.insert(p, now);
        if self.emitted.len() > self.known.len() {
            out.push(format!(
                "!MON C09 too-many-requests requests={} known={}",
                self.emitted.len(),
                self.known.len()
            ));
        }
    }

    fn on_success(&mut self, p: Id, closer: &[(Id, bool)], now: u64, stats: &mut Stats) {
        let was_emitted = self.emitted.contains(&p);
        if was_emitted {
            let late = self.emit_now.get(&p).map(|t| t.saturating_add(self.pto) <= now).unwrap_or(false);
            if self.had_event.contains(&p) {
                stats.bump("q.ok.repeat");
            } else if late {
                stats.bump("q.ok.late");
                self.saw_late = true;
            } else {
                stats.bump("q.ok.first");
            }
            self.answered.insert(p);
            self.maybe_stalled = true;
            if !self.had_event.contains(&p) && !self.finished {
                // certainly delivered to a Waiting / Unresponsive peer: its peers are candidates
                for (i, _) in closer {
                    self.learned.insert(*i);
                }
            }
            self.had_event.insert(p);
            self.outstanding.retain(|o| o != &p);
        } else {
            stats.bump("q.ok.uncontacted");
        }
        for (i, f) in closer {
            self.known.insert(*i);
            if *f {
                self.flag_true.insert(*i);
            }
        }
    }

    fn on_failure(&mut self, p: Id, stats: &mut Stats) {
        if self.emitted.contains(&p) {
            stats.bump(if self.had_event.contains(&p) { "q.fail.repeat" } else { "q.fail.first" });
            self.had_event.insert(p);
            self.outstanding.retain(|o| o != &p);
        } else {
            stats.bump("q.fail.uncontacted");
        }
    }

    /// Checks a result. `complete` = the query itself reported `Finished` (not the pool timeout).
    fn check_result(&self, res: &[Id], complete: bool, out: &mut Vec<String>) {
        if res.len() > self.nr {
            out.push(format!("!MON C10 result-too-long len={} k={}", res.len(), self.nr));
        }
        for w in res.windows(2) {
            if xor(&w[0], &self.target) >= xor(&w[1], &self.target) {
                out.push(format!("!MON C10 result-not-sorted-distinct at={}", short(&w[1])));
                break;
            }
        }
        for r in res {
            if !self.answered.contains(r) {
                out.push(format!("!MON C10 result-peer-never-answered peer={}", short(r)));
                break;
            }
        }
        if self.pred {
            for r in res {
                if !self.flag_true.contains(r) {
                    out.push(format!("!MON C10 predicate-mismatch peer={}", short(r)));
                    break;
                }
            }
        }
        if complete && res.len() < self.nr {
            for c in &self.learned {
                if !self.emitted.contains(c) {
                    out.push(format!(
                        "!MON C10 short-result-uncontacted-candidate len={} k={} peer={}",
                        res.len(),
                        self.nr,
                        short(c)
                    ));
                    break;
                }
            }
        }
    }

    fn resolve(&self, r: &str) -> Ref {
        if let Some(k) = r.strip_prefix('@') {
            match num(k) {
                Some(k) if self.outstanding.is_empty() => {
                    let _ = k;
                    Ref::None
                }
                Some(k) => Ref::Peer(self.outstanding[(k % self.outstanding.len() as u64) as usize]),
                None => Ref::Bad,
            }
        } else if let Some(k) = r.strip_prefix('%') {
            match num(k) {
                Some(_) if self.emitted.is_empty() => Ref::None,
                Some(k) => Ref::Peer(self.emitted[(k % self.emitted.len() as u64) as usize]),
                None => Ref::Bad,
            }
        } else {
            match parse_id(r) {
                Some(i) => Ref::Peer(i),
                None => Ref::Bad,
            }
        }
    }
}

enum Ref {
    Peer(Id),
    None,
    Bad,
}

// ---------------------------------------------------------------------------------------------
// the implementation under test

enum Qx {
    F(VFindNodeQuery),
    P(VPredicateQuery),
}

fn reported(closer: &[(Id, bool)]) -> Vec<ReportedPeer> {
    closer.iter().map(|(i, f)| ReportedPeer { id: nid(i), flag: *f }).collect()
}

impl Qx {
    fn next(&mut self, at: Instant) -> Option<QueryState<NodeId>> {
        no_panic(AssertUnwindSafe(|| match self {
            Qx::F(q) => q.next(at),
            Qx::P(q) => q.next(at),
        }))
    }
    fn on_success(&mut self, p: &Id, closer: &[(Id, bool)]) -> Option<()> {
        no_panic(AssertUnwindSafe(|| match self {
            Qx::F(q) => q.on_success(&nid(p), closer.iter().map(|(i, _)| nid(i)).collect()),
            Qx::P(q) => q.on_success(&nid(p), &reported(closer)),
        }))
    }
    fn on_failure(&mut self, p: &Id) -> Option<()> {
        no_panic(AssertUnwindSafe(|| match self {
            Qx::F(q) => q.on_failure(&nid(p)),
            Qx::P(q) => q.on_failure(&nid(p)),
        }))
    }
    fn suffix(&self) -> String {
        match self {
            Qx::P(_) => "-".into(),
            Qx::F(q) => suffix_of_debug(&q.debug()),
        }
    }
}

fn digits_after<'a>(s: &'a str, pat: &str) -> Option<&'a str> {
    let i = s.find(pat)? + pat.len();
    let rest = &s[i..];
    let n = rest.bytes().take_while(|b| b.is_ascii_digit()).count();
    Some(&rest[..n])
}

/// `nw=N prog=I<n>|S|F st=<state><peers_returned>,…` from the derived `Debug` of `FindNodeQuery`.
fn suffix_of_debug(d: &str) -> String {
    let nw = digits_after(d, "num_waiting: ").unwrap_or("?");
    let prog = match d.find("progress: ").map(|i| &d[i + 10..]) {
        Some(r) if r.starts_with("Iterating") => format!("I{}", digits_after(r, "no_progress: ").unwrap_or("?")),
        Some(r) if r.starts_with("Stalled") => "S".to_string(),
        Some(r) if r.starts_with("Finished") => "F".to_string(),
        _ => "?".to_string(),
    };
    let mut st = Vec::new();
    let mut rest = d;
    while let Some(i) = rest.find("peers_returned: ") {
        rest = &rest[i + 16..];
        let n = rest.bytes().take_while(|b| b.is_ascii_digit()).count();
        let returned = &rest[..n];
        let state = rest.find("state: ").map(|j| &rest[j + 7..j + 8]).unwrap_or("?");
        st.push(format!("{}{}", state, returned));
    }
    format!("nw={} prog={} st={}", nw, prog, if st.is_empty() { "-".to_string() } else { st.join(",") })
}

fn show_state(s: &QueryState<NodeId>) -> String {
    match s {
        QueryState::Waiting(Some(p)) => format!("wait:{}", hex::encode(p.raw())),
        QueryState::Waiting(None) => "wait:-".into(),
        QueryState::WaitingAtCapacity => "cap".into(),
        QueryState::Finished => "fin".into(),
    }
}

pub struct QueryRunner {
    base: Instant,
    q: Option<Qx>,
    led: Ledger,
    last_now: u64,
    pool: Option<VPool>,
    pleds: BTreeMap<usize, Ledger>,
    returned: BTreeSet<usize>,
    /// configured query timeout of the pool and, per query, a moment at which it had already been
    /// polled (its `started` stamp is not later than that)
    pool_tmo: Duration,
    polled_by: BTreeMap<usize, Instant>,
}

impl Default for QueryRunner {
    fn default() -> Self {
        QueryRunner {
            base: Instant::now(),
            q: None,
            led: Ledger::default(),
            last_now: 0,
            pool: None,
            pleds: BTreeMap::new(),
            returned: BTreeSet::new(),
            pool_tmo: Duration::from_millis(0),
            polled_by: BTreeMap::new(),
        }
    }
}

impl QueryRunner {
    fn at(&self, now: u64) -> Instant {
        self.base + Duration::from_millis(now)
    }

    /// `next(now)` on the single query + ledger + monitors.
    fn do_next(&mut self, now: u64, out: &mut Vec<String>, stats: &mut Stats) -> Option<QueryState<NodeId>> {
        let at = self.at(now);
        let r = self.q.as_mut()?.next(at);
        match &r {
            None => out.push("!MON C09 next-panicked".into()),
            Some(QueryState::Waiting(Some(p))) => {
                stats.bump("q.next.emit");
                self.led.on_emit(p.raw(), now, out);
            }
            Some(QueryState::Waiting(None)) => stats.bump("q.next.none"),
            Some(QueryState::WaitingAtCapacity) => {
                stats.bump("q.next.cap");
                self.led.saw_cap = true;
            }
            Some(QueryState::Finished) => {
                stats.bump("q.next.fin");
                self.led.finished = true;
            }
        }
        r
    }

    fn do_success(&mut self, p: Id, closer: &[(Id, bool)], now: u64, out: &mut Vec<String>, stats: &mut Stats) {
        self.led.on_success(p, closer, now, stats);
        if let Some(q) = self.q.as_mut() {
            if q.on_success(&p, closer).is_none() {
                out.push("!MON C09 on-success-panicked".into());
            }
        }
    }

    fn do_failure(&mut self, p: Id, out: &mut Vec<String>, stats: &mut Stats) {
        self.led.on_failure(p, stats);
        if let Some(q) = self.q.as_mut() {
            if q.on_failure(&p).is_none() {
                out.push("!MON C09 on-failure-panicked".into());
            }
        }
    }
}

impl Runner for QueryRunner {
    fn reset(&mut self) {
        *self = QueryRunner::default();
    }

    fn step(&mut self, line: &str, out: &mut Vec<String>, stats: &mut Stats) {
        let t: Vec<&str> = line.split(' ').collect();
        match t.as_slice() {
            ["qnew", v, par, nr, pto, target, init] => {
                let r = (|| {
                    let pred = match *v {
                        "f" => false,
                        "p" => true,
                        _ => return None,
                    };
                    Some((pred, num(par)? as usize, num(nr)? as usize, num(pto)?, parse_id(target)?, parse_pairs(init)?))
                })();
                let Some((pred, par, nr, pto, target, init)) = r else {
                    out.push("bad-op".into());
                    return;
                };
                stats.bump(if pred { "q.new.predicate" } else { "q.new.closest" });
                let q = no_panic(|| {
                    if pred {
                        Qx::P(VPredicateQuery::with_config(
                            par,
                            nr,
                            Duration::from_millis(pto),
                            nid(&target),
                            init.iter().map(|(i, f)| (nid(i), *f)).collect(),
                        ))
                    } else {
                        Qx::F(VFindNodeQuery::with_config(
                            par,
                            nr,
                            Duration::from_millis(pto),
                            nid(&target),
                            init.iter().map(|(i, _)| nid(i)).collect(),
                        ))
                    }
                });
                let Some(q) = q else {
                    out.push("!MON C09 constructor-panicked".into());
                    out.push("panic".into());
                    return;
                };
                self.led = Ledger::new(pred, par, nr, pto, target, &init);
                self.last_now = 0;
                out.push(format!("ok {}", q.suffix()));
                self.q = Some(q);
            }
            ["qnext", now] => {
                let Some(now) = num(now) else {
                    out.push("bad-op".into());
                    return;
                };
                if self.q.is_none() {
                    out.push("none".into());
                    return;
                }
                if now < self.last_now {
                    out.push("bad-op".into());
                    return;
                }
                self.last_now = now;
                match self.do_next(now, out, stats) {
                    Some(s) => out.push(format!("{} {}", show_state(&s), self.q.as_ref().unwrap().suffix())),
                    None => out.push("panic".into()),
                }
            }
            ["qok", r, closer] => {
                let Some(closer) = parse_pairs(closer) else {
                    out.push("bad-op".into());
                    return;
                };
                if self.q.is_none() {
                    out.push("none".into());
                    return;
                }
                match self.led.resolve(r) {
                    Ref::Bad => out.push("bad-op".into()),
                    Ref::None => out.push("none".into()),
                    Ref::Peer(p) => {
                        let now = self.last_now;
                        self.do_success(p, &closer, now, out, stats);
                        out.push(format!("ok {} {}", hex::encode(p), self.q.as_ref().unwrap().suffix()));
                    }
                }
            }
            ["qfail", r] => {
                if self.q.is_none() {
                    out.push("none".into());
                    return;
                }
                match self.led.resolve(r) {
                    Ref::Bad => out.push("bad-op".into()),
                    Ref::None => out.push("none".into()),
                    Ref::Peer(p) => {
                        self.do_failure(p, out, stats);
                        out.push(format!("ok {} {}", hex::encode(p), self.q.as_ref().unwrap().suffix()));
                    }
                }
            }
            ["qpeek"] => match &self.q {
                None => out.push("none".into()),
                Some(Qx::P(_)) => out.push("na".into()),
                Some(Qx::F(q)) => {
                    let res: Vec<Id> = q.peek_result().iter().map(|n| n.raw()).collect();
                    self.led.check_result(&res, self.led.finished, out);
                    out.push(format!("res {}", show_ids(&res)));
                }
            },
            ["qdrive", now, cap] => {
                let (Some(mut now), Some(cap)) = (num(now), num(cap)) else {
                    out.push("bad-op".into());
                    return;
                };
                if self.q.is_none() {
                    out.push("none".into());
                    return;
                }
                if now < self.last_now {
                    out.push("bad-op".into());
                    return;
                }
                let mut n = 0u64;
                let mut fin = false;
                let mut panicked = false;
                for _ in 0..cap {
                    match self.do_next(now, out, stats) {
                        None => {
                            panicked = true;
                            break;
                        }
                        Some(QueryState::Finished) => {
                            fin = true;
                            break;
                        }
                        Some(QueryState::Waiting(Some(p))) => {
                            let p = p.raw();
                            if n % 2 == 0 {
                                self.do_success(p, &[], now, out, stats);
                            } else {
                                self.do_failure(p, out, stats);
                            }
                            n += 1;
                        }
                        Some(_) => {
                            for o in self.led.outstanding.clone() {
                                self.do_failure(o, out, stats);
                            }
                            now += self.led.pto + 1;
                        }
                    }
                }
                self.last_now = now;
                if panicked {
                    out.push("panic".into());
                    return;
                }
                if !fin && self.led.par >= 1 && self.led.nr >= 1 {
                    out.push(format!("!MON C09 no-termination polls={}", cap));
                }
                stats.bump(if fin { "q.drive.fin" } else { "q.drive.stuck" });
                out.push(format!(
                    "drv {} {} {}",
                    n,
                    if fin { "fin" } else { "stuck" },
                    self.q.as_ref().unwrap().suffix()
                ));
            }
            ["qres"] => match self.q.take() {
                None => out.push("none".into()),
                Some(q) => {
                    let res = no_panic(AssertUnwindSafe(|| match q {
                        Qx::F(q) => q.into_result(),
                        Qx::P(q) => q.into_result(),
                    }));
                    let Some(res) = res else {
                        out.push("!MON C10 into-result-panicked".into());
                        out.push("panic".into());
                        return;
                    };
                    let res: Vec<Id> = res.iter().map(|n| n.raw()).collect();
                    self.led.check_result(&res, self.led.finished, out);
                    let l = &self.led;
                    stats.bump(if res.is_empty() {
                        "q.res.empty"
                    } else if res.len() < l.nr {
                        "q.res.short"
                    } else {
                        "q.res.full"
                    });
                    if l.emitted.len() >= 3 && (l.saw_cap || l.saw_late) {
                        stats.bump("q.nt.c09");
                    }
                    if l.finished && !res.is_empty() && l.emitted.len() >= 2 {
                        stats.bump("q.nt.c10");
                    }
                    out.push(format!("res {}", show_ids(&res)));
                }
            },
            // ---------------------------------------------------------------- pool
            ["qpnew", tmo] => {
                let Some(tmo) = num(tmo) else {
                    out.push("bad-op".into());
                    return;
                };
                self.pool = Some(VPool::new(Duration::from_millis(tmo)));
                self.pool_tmo = Duration::from_millis(tmo);
                self.polled_by.clear();
                self.pleds.clear();
                self.returned.clear();
                stats.bump("q.pool.new");
                out.push("ok".into());
            }
            ["qpadd", v, par, nr, pto, target, init] => {
                let r = (|| {
                    let pred = match *v {
                        "f" => false,
                        "p" => true,
                        _ => return None,
                    };
                    Some((pred, num(par)? as usize, num(nr)? as usize, num(pto)?, parse_id(target)?, parse_pairs(init)?))
                })();
                let Some((pred, par, nr, pto, target, init)) = r else {
                    out.push("bad-op".into());
                    return;
                };
                let Some(pool) = self.pool.as_mut() else {
                    out.push("none".into());
                    return;
                };
                let id = no_panic(AssertUnwindSafe(|| {
                    if pred {
                        pool.add_predicate(
                            par,
                            nr,
                            Duration::from_millis(pto),
                            nid(&target),
                            init.iter().map(|(i, f)| (nid(i), *f)).collect(),
                        )
                    } else {
                        pool.add_findnode(
                            par,
                            nr,
                            Duration::from_millis(pto),
                            nid(&target),
                            init.iter().map(|(i, _)| nid(i)).collect(),
                        )
                    }
                }));
                let Some(id) = id else {
                    out.push("!MON C09 pool-add-panicked".into());
                    out.push("panic".into());
                    return;
                };
                if self.pleds.contains_key(&id) {
                    out.push(format!("!MON C09 query-id-reused id={}", id));
                }
                self.pleds.insert(id, Ledger::new(pred, par, nr, pto, target, &init));
                stats.bump("q.pool.add");
                out.push(format!("id {}", id));
            }
            ["qpok", id, r, closer] => {
                let (Some(id), Some(closer)) = (num(id), parse_pairs(closer)) else {
                    out.push("bad-op".into());
                    return;
                };
                let id = id as usize;
                let Some(pool) = self.pool.as_mut() else {
                    out.push("none".into());
                    return;
                };
                let Some(led) = self.pleds.get_mut(&id) else {
                    out.push("gone".into());
                    return;
                };
                match led.resolve(r) {
                    Ref::Bad => out.push("bad-op".into()),
                    Ref::None => out.push("none".into()),
                    Ref::Peer(p) => {
                        led.on_success(p, &closer, 0, stats);
                        let reached = no_panic(AssertUnwindSafe(|| pool.on_success(id, &nid(&p), &reported(&closer))));
                        match reached {
                            None => {
                                out.push("!MON C09 pool-on-success-panicked".into());
                                out.push("panic".into());
                            }
                            Some(reached) => {
                                if reached && self.returned.contains(&id) {
                                    out.push(format!("!MON C09 event-reached-returned-query id={}", id));
                                }
                                out.push(format!("{} {}", if reached { "ok" } else { "gone" }, hex::encode(p)));
                            }
                        }
                    }
                }
            }
            ["qpfail", id, r] => {
                let Some(id) = num(id) else {
                    out.push("bad-op".into());
                    return;
                };
                let id = id as usize;
                let Some(pool) = self.pool.as_mut() else {
                    out.push("none".into());
                    return;
                };
                let Some(led) = self.pleds.get_mut(&id) else {
                    out.push("gone".into());
                    return;
                };
                match led.resolve(r) {
                    Ref::Bad => out.push("bad-op".into()),
                    Ref::None => out.push("none".into()),
                    Ref::Peer(p) => {
                        led.on_failure(p, stats);
                        let reached = no_panic(AssertUnwindSafe(|| pool.on_failure(id, &nid(&p))));
                        match reached {
                            None => {
                                out.push("!MON C09 pool-on-failure-panicked".into());
                                out.push("panic".into());
                            }
                            Some(reached) => {
                                if reached && self.returned.contains(&id) {
                                    out.push(format!("!MON C09 event-reached-returned-query id={}", id));
                                }
                                out.push(format!("{} {}", if reached { "ok" } else { "gone" }, hex::encode(p)));
                            }
                        }
                    }
                }
            }
            // real time passes (the pool reads the wall clock); the model gets the time with the next poll
            ["qpsleep", ms] => {
                let Some(ms) = num(ms) else {
                    out.push("bad-op".into());
                    return;
                };
                std::thread::sleep(Duration::from_millis(ms.min(2000)));
                stats.bump("q.pool.sleep");
                out.push("ok".into());
            }
            ["qppoll", now, cap] => {
                let (Some(_now), Some(cap)) = (num(now), num(cap)) else {
                    out.push("bad-op".into());
                    return;
                };
                let Some(pool) = self.pool.as_mut() else {
                    out.push("none".into());
                    return;
                };
                // id -> (requests, final result)
                let mut log: BTreeMap<usize, (Vec<Id>, Option<(&'static str, Vec<Id>)>)> = BTreeMap::new();
                let mut fin = "cap";
                let mut before_last = Instant::now();
                for _ in 0..cap {
                    before_last = Instant::now();
                    let ev = no_panic(AssertUnwindSafe(|| pool.poll()));
                    let Some(ev) = ev else {
                        out.push("!MON C09 poll-panicked".into());
                        fin = "panic";
                        break;
                    };
                    let (id, tag, result) = match ev {
                        VPoolEvent::Idle => {
                            fin = "idle";
                            break;
                        }
                        VPoolEvent::WaitingNone => {
                            fin = "wait";
                            break;
                        }
                        VPoolEvent::Request { id, peer } => {
                            stats.bump("q.pool.request");
                            if self.returned.contains(&id) {
                                out.push(format!("!MON C09 request-after-result id={}", id));
                            }
                            match self.pleds.get_mut(&id) {
                                Some(led) => led.on_emit(peer.raw(), 0, out),
                                None => out.push(format!("!MON C09 request-for-unknown-query id={}", id)),
                            }
                            log.entry(id).or_default().0.push(peer.raw());
                            continue;
                        }
                        VPoolEvent::Finished { id, result } => (id, "F", result),
                        VPoolEvent::Timeout { id, result } => (id, "T", result),
                    };
                    stats.bump(if tag == "F" { "q.pool.finished" } else { "q.pool.timeout" });
                    if !self.returned.insert(id) {
                        out.push(format!("!MON C09 result-twice id={}", id));
                    }
                    if pool.ids().contains(&id) {
                        out.push(format!("!MON C09 returned-query-still-in-pool id={}", id));
                    }
                    let res: Vec<Id> = result.iter().map(|n| n.raw()).collect();
                    match self.pleds.get_mut(&id) {
                        Some(led) => {
                            if tag == "F" {
                                led.finished = true;
                            }
                            led.check_result(&res, tag == "F", out);
                            if !res.is_empty() && led.emitted.len() >= 2 {
                                stats.bump("q.nt.pool");
                            }
                        }
                        None => out.push(format!("!MON C09 result-for-unknown-query id={}", id)),
                    }
                    log.entry(id).or_default().1 = Some((tag, res));
                }
                if fin == "cap" {
                    out.push(format!("!MON C09 pool-no-termination polls={}", cap));
                }
                if fin == "wait" {
                    // the pool says there is nothing to do: every lookup in it waits for answers (or
                    // for a free slot).  One whose age has reached the query timeout must have been
                    // cut off instead of being left waiting.
                    for id in pool.ids() {
                        let overdue = match self.polled_by.get(&id) {
                            Some(t) => before_last.saturating_duration_since(*t) >= self.pool_tmo,
                            None => self.pool_tmo.is_zero(),
                        };
                        if overdue {
                            out.push(format!("!MON C09 lookup-past-query-timeout-left-waiting id={}", id));
                        }
                    }
                    stats.bump("q.pool.wait-checked");
                }
                if fin == "wait" {
                    // that last poll went over every lookup in the pool: all of them are started now
                    let after = Instant::now();
                    for id in pool.ids() {
                        self.polled_by.entry(id).or_insert(after);
                    }
                }
                let mut parts = Vec::new();
                for (id, (em, f)) in &log {
                    let mut s = format!("{}", id);
                    if !em.is_empty() {
                        s.push_str(&format!("/e:{}", show_ids(em)));
                    }
                    if let Some((tag, res)) = f {
                        s.push_str(&format!("/{}:{}", tag, show_ids(res)));
                    }
                    parts.push(s);
                }
                if parts.is_empty() {
                    out.push(format!("poll {}", fin));
                } else {
                    out.push(format!("poll {} {}", parts.join(" "), fin));
                }
            }
            _ => out.push("bad-op".into()),
        }
    }
}

// ---------------------------------------------------------------------------------------------
// generator

fn id_hex(i: &Id) -> String {
    hex::encode(i)
}

fn xor_low(t: &Id, delta: u64) -> Id {
    let mut o = *t;
    let d = delta.to_be_bytes();
    for i in 0..8 {
        o[24 + i] ^= d[i];
    }
    o
}

fn flip_bit(t: &Id, bit: usize) -> Id {
    let mut o = *t;
    o[31 - bit / 8] ^= 1 << (bit % 8);
    o
}

/// Ids around the target: the target itself, ids differing only in low bits (distances that
/// agree in all high bits), single-bit flips at every scale, clusters sharing a high-bit pattern,
/// and a few random ones.
fn universe(rng: &mut Rng, target: &Id, n: usize, with_target: bool) -> Vec<Id> {
    let mut u: Vec<Id> = Vec::new();
    if with_target {
        u.push(*target);
    }
    let cluster: Id = {
        let mut c = [0u8; 32];
        c[0] = rng.below(256) as u8;
        c[1] = rng.below(256) as u8;
        c
    };
    while u.len() < n {
        let cand = match rng.below(10) {
            0..=3 => xor_low(target, rng.range(1, 64)),
            4 | 5 => flip_bit(target, *rng.pick(&[0usize, 1, 7, 8, 63, 64, 127, 128, 200, 254, 255])),
            6 | 7 => xor_low(&xor(target, &cluster), rng.range(0, 15)),
            8 => flip_bit(&xor_low(target, rng.range(1, 8)), 255),
            _ => rng.bytes(32).try_into().unwrap(),
        };
        if !u.contains(&cand) {
            u.push(cand);
        }
    }
    u
}

struct GenCtx {
    ids: Vec<Id>,
    flags: Vec<bool>,
    contract: bool,
}

impl GenCtx {
    fn pair(&self, rng: &mut Rng, k: usize) -> String {
        let f = if self.contract || rng.chance(4, 5) { self.flags[k] } else { !self.flags[k] };
        format!("{}:{}", id_hex(&self.ids[k]), f as u8)
    }
    fn closer(&self, rng: &mut Rng, nr: usize) -> String {
        let n = match rng.below(9) {
            0 => 0,
            1 => 4,
            2 => 1,
            3 => 2,
            4 => 3,
            5 => nr,
            6 => nr + 2,
            _ => rng.below(8) as usize,
        };
        if n == 0 {
            return "-".into();
        }
        let mut items = Vec::new();
        for _ in 0..n {
            // bias to the close end of the universe (index 0.. are not sorted, so pick freely)
            let k = rng.below(self.ids.len() as u64) as usize;
            items.push(self.pair(rng, k));
            if !self.contract && rng.chance(1, 6) {
                items.push(self.pair(rng, k)); // duplicate inside one response
            }
        }
        items.join(",")
    }
    fn init(&self, rng: &mut Rng, nr: usize) -> String {
        let u = self.ids.len();
        let n = match rng.below(8) {
            0 => rng.below(2) as usize,
            1 => 2,
            2 => nr.saturating_sub(1),
            3 => nr,
            4 => nr + 1,
            5 => nr + 5,
            _ => rng.below(u as u64 + 1) as usize,
        }
        .min(u);
        if n == 0 {
            return "-".into();
        }
        let mut idx: Vec<usize> = (0..u).collect();
        for i in 0..u {
            let j = i + rng.below((u - i) as u64) as usize;
            idx.swap(i, j);
        }
        let mut items = Vec::new();
        for &k in idx.iter().take(n) {
            items.push(self.pair(rng, k));
            if !self.contract && rng.chance(1, 8) {
                // the same key again, possibly with another flag (the last one wins in `collect`)
                items.push(format!("{}:{}", id_hex(&self.ids[k]), rng.below(2)));
            }
        }
        items.join(",")
    }
    fn peer_ref(&self, rng: &mut Rng) -> String {
        if self.contract {
            return format!("@{}", rng.below(8));
        }
        match rng.below(10) {
            0..=4 => format!("@{}", rng.below(8)),
            5 | 6 => format!("%{}", rng.below(16)),
            _ => id_hex(rng.pick(&self.ids)),
        }
    }
}

fn pick_config(rng: &mut Rng, contract: bool) -> (u64, u64, u64) {
    let mut par = match rng.below(8) {
        0 | 1 => 1,
        2 => 2,
        3 | 4 => 3,
        5 => 8,
        _ => rng.range(1, 8),
    };
    let mut nr = match rng.below(10) {
        0 => 1,
        1 => 2,
        2 => 3,
        3 => 4,
        4 => 8,
        5 => 16,
        6 => 24,
        _ => rng.range(1, 24),
    };
    if !contract {
        if rng.chance(1, 25) {
            par = 0;
        }
        if rng.chance(1, 25) {
            nr = 0;
        }
    }
    let pto = *rng.pick(&[0u64, 1, 5, 10, 100]);
    (par, nr, pto)
}

fn gen_single(rng: &mut Rng, tier: &str, stats: &mut Stats) -> Vec<String> {
    let mut ops = Vec::new();
    let contract = rng.chance(3, 5);
    stats.bump(if contract { "gen.q.contract" } else { "gen.q.adversarial" });
    let pred = rng.chance(1, 2);
    let (par, nr, pto) = pick_config(rng, contract);
    let target: Id = rng.bytes(32).try_into().unwrap();
    let usize_ = rng.range(3, if tier == "thorough" { 24 } else { 40 }) as usize;
    let with_target = rng.chance(1, 3);
    let ids = universe(rng, &target, usize_, with_target);
    let flags: Vec<bool> = ids.iter().map(|_| rng.chance(3, 5)).collect();
    let g = GenCtx { ids, flags, contract };
    ops.push(format!(
        "qnew {} {} {} {} {} {}",
        if pred { "p" } else { "f" },
        par,
        nr,
        pto,
        id_hex(&target),
        g.init(rng, nr as usize)
    ));
    let steps = if tier == "thorough" { rng.range(4, 30) } else { rng.range(10, 70) };
    let mut now = 0u64;
    // rough estimate of the requests in flight (the generator never sees replies): it only biases
    // the choice between polling and answering
    let mut est: u64 = 0;
    for _ in 0..steps {
        let w_next = if est == 0 { 85 } else if est >= par.max(1) { 15 } else { 50 };
        let r = rng.below(100);
        if r < w_next {
            now += *rng.pick(&[0, 0, 0, 0, 1, 1, 1, pto.saturating_sub(1), pto, pto + 1]);
            ops.push(format!("qnext {}", now));
            est += 1;
            if rng.chance(1, 8) {
                ops.push(format!("qnext {}", now)); // poll twice at the same instant
            }
        } else {
            match rng.below(100) {
                0..=64 => ops.push(format!("qok {} {}", g.peer_ref(rng), g.closer(rng, nr as usize))),
                65..=91 => ops.push(format!("qfail {}", g.peer_ref(rng))),
                _ => ops.push("qpeek".into()),
            }
            est = est.saturating_sub(1);
        }
    }
    if rng.chance(4, 5) {
        now += *rng.pick(&[0, 1, pto]);
        ops.push(format!("qdrive {} {}", now, 2 * g.ids.len() + 12));
        if rng.chance(1, 4) {
            ops.push(format!("qok {} {}", g.peer_ref(rng), g.closer(rng, nr as usize)));
            ops.push(format!("qnext {}", now + 1000));
        }
    }
    ops.push("qres".into());
    if rng.chance(1, 10) {
        ops.push("qnext 999999".into());
    }
    ops
}

/// A pool with a real query timeout (300 ms): lookups that cannot make progress (parallelism 0,
/// silent peers with a long peer timeout) are polled, left alone for longer than the timeout and
/// polled again.
fn gen_pool_realtime(rng: &mut Rng, stats: &mut Stats) -> Vec<String> {
    const BIG: u64 = 3_600_000;
    stats.bump("gen.qp.realtime");
    let mut ops = vec!["qpnew 300".to_string()];
    let target: Id = rng.bytes(32).try_into().unwrap();
    let n_ids = rng.range(3, 8) as usize;
    let ids = universe(rng, &target, n_ids, false);
    let flags: Vec<bool> = ids.iter().map(|_| rng.chance(3, 5)).collect();
    let g = GenCtx { ids, flags, contract: true };
    let nq = rng.range(1, 3);
    for _ in 0..nq {
        let par = *rng.pick(&[0u64, 0, 1, 2]);
        let nr = rng.range(1, 4);
        ops.push(format!("qpadd {} {} {} {} {} {}", if rng.chance(1, 2) { "p" } else { "f" }, par, nr, BIG, id_hex(&target), g.init(rng, nr as usize)));
    }
    let cap = 6 * g.ids.len() + 30;
    ops.push(format!("qppoll 0 {}", cap));
    if rng.chance(1, 2) {
        ops.push(format!("qpfail {} @0", rng.below(nq)));
        ops.push(format!("qppoll 1 {}", cap));
    }
    if rng.chance(1, 2) {
        // a peer answers some time after the start; the lookup is then left waiting for silent peers:
        // the timeout still counts from the start of the lookup
        ops.push("qpsleep 80".into());
        for q in 0..nq {
            ops.push(format!("qpok {} @0 {}", q, g.closer(rng, 2)));
        }
        ops.push(format!("qppoll 80 {}", cap));
        ops.push("qpsleep 260".into());
        ops.push(format!("qppoll 340 {}", cap));
        ops.push(format!("qppoll 341 {}", cap));
        return ops;
    }
    ops.push("qpsleep 450".into());
    ops.push(format!("qppoll 450 {}", cap));
    ops.push(format!("qppoll 451 {}", cap));
    ops
}

fn gen_pool(rng: &mut Rng, tier: &str, stats: &mut Stats) -> Vec<String> {
    const BIG: u64 = 3_600_000;
    if rng.chance(1, 12) {
        return gen_pool_realtime(rng, stats);
    }
    let mut ops = Vec::new();
    let contract = rng.chance(3, 5);
    stats.bump(if contract { "gen.qp.contract" } else { "gen.qp.adversarial" });
    let tmo = if rng.chance(1, 3) { 0 } else { BIG };
    ops.push(format!("qpnew {}", tmo));
    let target: Id = rng.bytes(32).try_into().unwrap();
    let n_ids = rng.range(3, 20) as usize;
    let with_target = rng.chance(1, 3);
    let ids = universe(rng, &target, n_ids, with_target);
    let flags: Vec<bool> = ids.iter().map(|_| rng.chance(3, 5)).collect();
    let g = GenCtx { ids, flags, contract };
    let cap = 6 * g.ids.len() + 30;
    let mut nq = 0u64;
    let mut nrs = Vec::new();
    let add = |rng: &mut Rng, ops: &mut Vec<String>, nq: &mut u64, nrs: &mut Vec<u64>| {
        let (par, nr, _) = pick_config(rng, contract);
        let t = if rng.chance(1, 2) { target } else { *rng.pick(&g.ids) };
        ops.push(format!(
            "qpadd {} {} {} {} {} {}",
            if rng.chance(1, 2) { "p" } else { "f" },
            par,
            nr,
            BIG,
            id_hex(&t),
            g.init(rng, nr as usize)
        ));
        *nq += 1;
        nrs.push(nr);
    };
    for _ in 0..rng.range(1, 4) {
        add(rng, &mut ops, &mut nq, &mut nrs);
    }
    let steps = if tier == "thorough" { rng.range(4, 25) } else { rng.range(10, 50) };
    let mut now = 0u64;
    for _ in 0..steps {
        let id = if !contract && rng.chance(1, 12) { nq + rng.below(3) } else { rng.below(nq) };
        let nr = nrs.get(id as usize).copied().unwrap_or(3) as usize;
        match rng.below(100) {
            0..=34 => {
                now += rng.below(3);
                ops.push(format!("qppoll {} {}", now, cap));
            }
            35..=74 => ops.push(format!("qpok {} {} {}", id, g.peer_ref(rng), g.closer(rng, nr))),
            75..=91 => ops.push(format!("qpfail {} {}", id, g.peer_ref(rng))),
            _ => {
                if nq < 6 {
                    add(rng, &mut ops, &mut nq, &mut nrs);
                }
            }
        }
    }
    // drive everything to the end: poll, then answer every outstanding request
    for round in 0..(g.ids.len() as u64 + 3) {
        ops.push(format!("qppoll {} {}", now + round, cap));
        for id in 0..nq {
            for k in 0..3 {
                if (round + k) % 2 == 0 {
                    ops.push(format!("qpok {} @0 -", id));
                } else {
                    ops.push(format!("qpfail {} @0", id));
                }
            }
        }
    }
    ops.push(format!("qppoll {} {}", now + 100, cap));
    ops.push(format!("qpok 0 %0 -"));
    ops
}

pub fn gen_case(rng: &mut Rng, tier: &str, _profile: &str, stats: &mut Stats) -> Vec<String> {
    // C09 and C10 share the cases; `profile` only selects which monitors count (check.py).
    if rng.chance(1, 7) {
        gen_pool(rng, tier, stats)
    } else {
        gen_single(rng, tier, stats)
    }
}

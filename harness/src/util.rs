//! Shared helpers: hex, deterministic node records, AES-CTR keystream (computed directly from the
//! `aes`/`ctr` crates, independent of /repo's masking code).
use crate::rng::Rng;
use aes::cipher::{generic_array::GenericArray, KeyIvInit, StreamCipher};
use discv5::enr::{CombinedKey, NodeId};
use discv5::Enr;
use std::net::{Ipv4Addr, Ipv6Addr};

type Aes128Ctr64BE = ctr::Ctr64BE<aes::Aes128>;

pub fn hx(b: &[u8]) -> String {
    if b.is_empty() {
        "-".to_string()
    } else {
        hex::encode(b)
    }
}

pub fn unhx(s: &str) -> Option<Vec<u8>> {
    if s == "-" {
        Some(vec![])
    } else {
        hex::decode(s).ok()
    }
}

/// AES-128-CTR (64-bit big-endian counter) keystream: key = first 16 bytes of `id`, nonce = iv.
pub fn keystream(id: &[u8], iv: &[u8], len: usize) -> Vec<u8> {
    let mut key = [0u8; 16];
    let n = id.len().min(16);
    key[..n].copy_from_slice(&id[..n]);
    let mut ivb = [0u8; 16];
    let m = iv.len().min(16);
    ivb[..m].copy_from_slice(&iv[..m]);
    let mut c = Aes128Ctr64BE::new(GenericArray::from_slice(&key), GenericArray::from_slice(&ivb));
    let mut out = vec![0u8; len];
    c.apply_keystream(&mut out);
    out
}

pub fn key_from(rng: &mut Rng) -> CombinedKey {
    loop {
        let mut b = rng.bytes(32);
        if let Ok(k) = CombinedKey::secp256k1_from_bytes(&mut b) {
            return k;
        }
    }
}

#[derive(Clone, Copy, Debug, PartialEq, Eq)]
pub enum EnrShape {
    NoAddr,
    V4,
    V6,
    Both,
}

pub fn make_enr(
    key: &CombinedKey,
    seq: u64,
    ip4: Option<(Ipv4Addr, u16)>,
    ip6: Option<(Ipv6Addr, u16)>,
    pad: usize,
) -> Enr {
    try_make_enr(key, seq, ip4, ip6, pad).unwrap_or_else(|| try_make_enr(key, seq, ip4, ip6, 0).expect("enr builds"))
}

pub fn try_make_enr(
    key: &CombinedKey,
    seq: u64,
    ip4: Option<(Ipv4Addr, u16)>,
    ip6: Option<(Ipv6Addr, u16)>,
    pad: usize,
) -> Option<Enr> {
    let mut b = Enr::builder();
    b.seq(seq);
    if let Some((ip, port)) = ip4 {
        b.ip4(ip);
        b.udp4(port);
    }
    if let Some((ip, port)) = ip6 {
        b.ip6(ip);
        b.udp6(port);
    }
    if pad > 0 {
        b.add_value("pad", &vec![0xabu8; pad]);
    }
    b.build(key).ok()
}

pub fn random_enr(rng: &mut Rng) -> (CombinedKey, Enr) {
    let key = key_from(rng);
    let seq = match rng.below(4) {
        0 => 0,
        1 => 1,
        2 => rng.below(1 << 20),
        _ => rng.next(),
    };
    let ip4 = if rng.chance(3, 4) {
        Some((Ipv4Addr::from(rng.next() as u32), rng.range(1, 65535) as u16))
    } else {
        None
    };
    let ip6 = if rng.chance(1, 4) {
        Some((Ipv6Addr::from(((rng.next() as u128) << 64) | rng.next() as u128), rng.range(1, 65535) as u16))
    } else {
        None
    };
    // (one record in twelve is as large as a record may be: 300 bytes, or as near as padding gets)
    if rng.chance(1, 12) {
        for pad in (0..=220usize).rev() {
            if let Some(e) = try_make_enr(&key, seq, ip4, ip6, pad) {
                // (the builder stops a little short of the limit; `insert` goes all the way)
                let mut best = e;
                for extra in 1..24usize {
                    let mut c = best.clone();
                    if c.insert("zz", &"x".repeat(extra), &key).is_ok() {
                        if alloy_rlp::encode(&c).len() <= 300 {
                            best = c;
                            continue;
                        }
                    }
                    break;
                }
                return (key, best);
            }
        }
    }
    let pad = if rng.chance(1, 6) { rng.below(120) as usize } else { 0 };
    let enr = make_enr(&key, seq, ip4, ip6, pad);
    (key, enr)
}

pub fn node_id_of(bytes: &[u8]) -> Option<NodeId> {
    NodeId::parse(bytes).ok()
}

/// Runs `f`, mapping a panic to `None`.
pub fn no_panic<T>(f: impl FnOnce() -> T + std::panic::UnwindSafe) -> Option<T> {
    std::panic::catch_unwind(f).ok()
}

//! Correspondence harness: runs the real discv5 code on op lines (`run`), generates op lines from
//! one seed (`gen`).  One reply line per op; lines starting with `!MON` are implementation-side
//! monitor failures (property violated on the implementation, independent of the model).
mod eng_packet;
mod eng_rpc;
mod eng_kbucket;
mod eng_query;
mod eng_limiter;
mod eng_ipvote;
mod eng_lru;
mod eng_talk;
mod eng_service;
mod eng_handler;
mod rng;
mod util;

use std::collections::BTreeMap;
use std::io::{BufRead, Write};

#[derive(Default)]
pub struct Stats(pub BTreeMap<String, u64>);
impl Stats {
    pub fn bump(&mut self, k: &str) {
        *self.0.entry(k.to_string()).or_insert(0) += 1;
    }
    pub fn add(&mut self, k: &str, n: u64) {
        *self.0.entry(k.to_string()).or_insert(0) += n;
    }
    pub fn dump(&self) -> String {
        let items: Vec<String> = self.0.iter().map(|(k, v)| format!("\"{}\":{}", k, v)).collect();
        format!("{{{}}}", items.join(","))
    }
}

pub trait Runner {
    /// New case: forget all state.
    fn reset(&mut self);
    /// Executes one op; pushes any number of `!MON …` lines and exactly one reply line.
    fn step(&mut self, line: &str, out: &mut Vec<String>, stats: &mut Stats);
}

fn runner(engine: &str) -> Box<dyn Runner> {
    match engine {
        "packet" => Box::new(eng_packet::PacketRunner),
        "rpc" => Box::new(eng_rpc::RpcRunner::default()),
        "kbucket" => Box::new(eng_kbucket::KbucketRunner::default()),
        "query" => Box::new(eng_query::QueryRunner::default()),
        "limiter" => Box::new(eng_limiter::LimiterRunner::default()),
        "ipvote" => Box::new(eng_ipvote::IpvoteRunner::default()),
        "lru" => Box::new(eng_lru::LruRunner::default()),
        "talk" => Box::new(eng_talk::TalkRunner::default()),
        "service" => Box::new(eng_service::ServiceRunner::default()),
        "handler" => Box::new(eng_handler::HandlerRunner::default()),
        _ => {
            eprintln!("unknown engine {engine}");
            std::process::exit(2)
        }
    }
}

fn gen_case(engine: &str, rng: &mut rng::Rng, tier: &str, profile: &str, stats: &mut Stats) -> Vec<String> {
    match engine {
        "packet" => eng_packet::gen_case(rng, tier, stats),
        "rpc" => eng_rpc::gen_case(rng, tier, profile, stats),
        "kbucket" => eng_kbucket::gen_case(rng, tier, profile, stats),
        "query" => eng_query::gen_case(rng, tier, profile, stats),
        "limiter" => eng_limiter::gen_case(rng, tier, profile, stats),
        "ipvote" => eng_ipvote::gen_case(rng, tier, profile, stats),
        "lru" => eng_lru::gen_case(rng, tier, profile, stats),
        "talk" => eng_talk::gen_case(rng, tier, profile, stats),
        "service" => eng_service::gen_case(rng, tier, profile, stats),
        "handler" => eng_handler::gen_case(rng, tier, profile, stats),
        _ => {
            eprintln!("unknown engine {engine}");
            std::process::exit(2)
        }
    }
}

fn main() {
    let args: Vec<String> = std::env::args().collect();
    if args.len() < 3 {
        eprintln!("usage: harness gen ENGINE SEED FIRST N TIER | harness run ENGINE");
        std::process::exit(2);
    }
    let stdout = std::io::stdout();
    let mut w = std::io::BufWriter::new(stdout.lock());
    let mut stats = Stats::default();
    match args[1].as_str() {
        "gen" => {
            let engine = &args[2];
            let seed: u64 = args[3].parse().expect("seed");
            let first: u64 = args[4].parse().expect("first");
            let n: u64 = args[5].parse().expect("n");
            let tier = args.get(6).map(|s| s.as_str()).unwrap_or("quick");
            let profile = args.get(7).map(|s| s.as_str()).unwrap_or("");
            for i in first..first + n {
                let mut rng = rng::Rng::new(seed.wrapping_mul(0x2545_F491_4F6C_DD1D) ^ i.wrapping_mul(0x9E37_79B9));
                let ops = gen_case(engine, &mut rng, tier, profile, &mut stats);
                writeln!(w, "#case {} seed={}", i, seed).unwrap();
                for o in ops {
                    writeln!(w, "{}", o).unwrap();
                }
            }
        }
        "run" => {
            std::panic::set_hook(Box::new(|_| {})); // panics are caught and reported as results
            let mut r = runner(&args[2]);
            let stdin = std::io::stdin();
            let mut out = Vec::new();
            for line in stdin.lock().lines() {
                let line = line.unwrap();
                let t = line.trim();
                if t.is_empty() || t.starts_with('#') {
                    if t.starts_with("#case") {
                        r.reset();
                        stats.bump("cases");
                    }
                    writeln!(w, "{}", t).unwrap();
                    continue;
                }
                out.clear();
                r.step(t, &mut out, &mut stats);
                stats.bump("ops");
                for o in &out {
                    writeln!(w, "{}", o).unwrap();
                }
            }
        }
        _ => std::process::exit(2),
    }
    w.flush().unwrap();
    eprintln!("STATS {}", stats.dump());
}

//! handler engine (ops starting with `h`): several real `Handler`s on virtual wires inside one
//! paused-clock tokio runtime; the harness is the network (loss / duplication / reordering /
//! redirection / mutation), the application layer of every node, and an attacker that crafts
//! datagrams with the facade's crypto toolkit.  Every datagram is described *symbolically* (the
//! harness knows all static keys, so it can derive every session key like the recipient would);
//! the resolved script (`!OP` lines) feeds the symbolic Lean model of the handler.
//!
//! Serves C01 (identity), C02 (authenticity), C03 (freshness), C04 (one outcome), C13 (exemptions),
//! C15 (session expiry, handler part), C19 (nonce reuse).
use crate::rng::Rng;
use crate::util::*;
use crate::{Runner, Stats};
use discv5::enr::{CombinedKey, NodeId};
use discv5::packet::PacketKind;
use discv5::verif::handler as hf;
use discv5::verif::handler::{
    Handler, HandlerIn, HandlerOut, Message, NodeAddress, NodeContact, Request, RequestBody, RequestId,
    Response, ResponseBody, VirtualWire, WhoAreYouRef,
};
use discv5::verif::{packet_decode, RawPacket};
use discv5::{ConfigBuilder, ConnectionDirection, Enr, ListenConfig, ProtocolIdentity, RequestError};
use std::collections::{HashMap, HashSet};
use std::net::{IpAddr, Ipv4Addr, Ipv6Addr, SocketAddr};
use std::sync::atomic::{AtomicBool, Ordering};

/// Worlds whose nodes (and the attacker) live at IPv6 addresses and listen on IPv6 only.
static V6_WORLD: AtomicBool = AtomicBool::new(false);
/// IPv6 worlds only: every host is an IPv4 host seen through a socket that is not v6-only (`::ffff:a.b.c.d`)
static MAPPED_WORLD: AtomicBool = AtomicBool::new(false);
use std::sync::Arc;
use std::time::Duration;
use tokio::sync::{mpsc, oneshot};

const ATTACKER: u64 = 9;
const CRAFT_OWNER: u64 = 99;

struct Node {
    idx: u64,
    key: CombinedKey,
    enr: Enr,
    addr: SocketAddr,
    to_handler: mpsc::UnboundedSender<HandlerIn>,
    from_handler: mpsc::Receiver<HandlerOut>,
    wire: VirtualWire,
    _exit: oneshot::Sender<()>,
    /// the configuration value the node was started from (a restart starts from a clone of it)
    config: discv5::Config,
    /// the local record as the handler shares it with the rest of the node
    enr_arc: Option<Arc<parking_lot::RwLock<Enr>>>,
    wru: Vec<WhoAreYouRef>,
    requests: Vec<(NodeAddress, Request)>,
    c_nonce: u64,
    c_cd: u64,
    c_eph: u64,
    c_rid: u64,
}

#[derive(Clone)]
struct Datagram {
    from_idx: u64, // emitting node (ATTACKER for crafted)
    src: SocketAddr,
    dst: SocketAddr,
    dst_id: NodeId,
    bytes: Vec<u8>,
}

#[derive(Default)]
struct Names {
    nonce: HashMap<[u8; 12], u64>,
    cd: HashMap<Vec<u8>, u64>,
    eph: HashMap<Vec<u8>, u64>,
    rid: HashMap<Vec<u8>, u64>,
    craft: u64,
}

/// Ledgers for the implementation-side monitors.
#[derive(Default)]
struct Ledger {
    /// C04: external request -> (submitted, responses, failures, final)
    reqs: HashMap<(u64, u64), ReqLedger>,
    /// C01: handshakes genuinely signed: (signer idx, cd name)
    honest_sigs: HashSet<(u64, u64, u64)>, // (signer, cd name, dst)
    /// C19: (key bytes, nonce) -> datagram hash, for every decryptable datagram emitted by real nodes
    key_nonce: HashMap<([u8; 16], [u8; 12]), u64>,
    /// C19: id-nonces of WHOAREYOU packets emitted by real nodes
    id_nonces: HashSet<[u8; 16]>,
    /// C02: plaintexts really sealed by a real node or handed to craft_* by the script: (key, plaintext)
    sealed: HashMap<([u8; 16], Vec<u8>), u64>, // -> who sealed it (node index; ATTACKER for crafted)
    /// C03: cd names consumed by an accepted handshake at a node
    consumed_cd: HashSet<(u64, u64)>,
    /// C03: challenges a node issued and that were not yet consumed: (node, cd name) -> issue time
    outstanding_chal: HashMap<(u64, u64), (u64, u64, SocketAddr)>, // -> (armed at, challenged id, address)
    /// C03: handshake packets (by nonce) that carried a given request: (node, rid) -> nonces
    hs_for_req: HashMap<(u64, u64), HashSet<[u8; 12]>>,
    /// C04: the handler's own requests seen on the wire: (node, rid) -> (sent_at, to, answered)
    internal: HashMap<(u64, u64), (u64, u64, bool)>,
}

#[derive(Default, Clone)]
struct ReqLedger {
    responses: u32,
    failures: u32,
    done: bool,
    sent_at: u64,
    to: u64,
    on_wire: bool,
    /// when a datagram carrying the request was last put on the wire (ledger clock, ms)
    last_emit: Option<u64>,
    /// the `total` announced by the first packet of a multi-packet NODES answer
    expected: Option<u64>,
}

pub struct HandlerRunner {
    rt: Option<tokio::runtime::Runtime>,
    nodes: Vec<Node>,
    attacker_key: Option<CombinedKey>,
    attacker_enr: Option<Enr>,
    ed_enr: Option<Enr>,
    wire: Vec<Datagram>,
    names: Names,
    keys: Vec<([u8; 16], String)>, // (key bytes, key term)
    addrs: Vec<SocketAddr>,
    ids: HashMap<NodeId, u64>,
    now_ms: u64,
    timeout_ms: u64,
    retries: u64,
    ledger: Ledger,
    last_sig_cd: Option<u64>,
    /// keys derived from the handshake described last / key that opened the datagram described last
    last_hs_keys: Option<([u8; 16], [u8; 16])>,
    last_ct_key: Option<[u8; 16]>,
    /// (node, key) -> addresses the node may receive datagrams under that key from: where the
    /// handshake carrying the key was delivered from (recipient) or sent to (initiator)
    key_addrs: HashMap<(u64, [u8; 16]), Vec<SocketAddr>>,
    cur_from: Option<SocketAddr>,
    cur_key: Option<[u8; 16]>,
    delivering_handshake: bool,
    /// claimed source id (index) of the datagram being delivered in this step, if any
    cur_src: Option<u64>,
    wire_dst_hint: Option<SocketAddr>,
    /// the step delivers a WHOAREYOU from an address other than the one the echoed request went to
    cur_wru_foreign: bool,
    /// the datagram being delivered is a handshake for which this node has no challenge outstanding
    /// (for that node id at that source address)
    cur_hs_unchallenged: bool,
    /// the WHOAREYOU being delivered echoes the nonce of a request that already has its outcome
    cur_wru_finished: bool,
    /// (node, peer, address) -> sequence number of the record the application supplied as known
    known_seq: HashMap<(u64, u64, SocketAddr), u64>,
    /// (node, destination) -> key of the last message the node sealed for that destination
    last_seal: HashMap<(u64, SocketAddr), [u8; 16]>,
    /// responses the application handed over that produced no datagram: (node, destination, key
    /// the node had used for that destination before, request id)
    withheld: Vec<(u64, SocketAddr, [u8; 16], u64)>,
    /// whether the datagram being delivered carries a ciphertext that verifies under a known key
    cur_authentic: bool,
    ttl_ms: u64,
    /// C15: number of session keys known when the last idle period longer than the ttl ended, and
    /// the wire length at that moment
    old_keys_mark: usize,
    old_wire_mark: usize,
    /// ledger clock at the beginning of the stretch of time whose effects are being observed
    step_start_ms: u64,
    /// real-clock instants (the session cache reads the real clock): when a key first appeared, and when
    /// a node last sealed something for / was delivered something authentic from a peer address
    key_born: HashMap<[u8; 16], std::time::Instant>,
    /// the two keys of one handshake; keys that belonged to a session of a node which had expired by the
    /// time the node made its next session with that peer
    key_pair: HashMap<[u8; 16], [u8; 16]>,
    dead_keys: HashSet<(u64, [u8; 16])>,
    /// nodes whose application is not reading what its handler reports for the time being
    held: HashSet<u64>,
    /// monitor lines raised where no output buffer is at hand
    deferred_mons: Vec<String>,
    /// the key a node opens messages from (address) with since the latest handshake it made or was
    /// given there
    adopted_latest: HashMap<(u64, SocketAddr), [u8; 16]>,
    entry_use: HashMap<(u64, SocketAddr), std::time::Instant>,
    /// C13: challenges a node put on the wire: (node, challenge) -> (not issued before (ledger ms), address);
    /// and when a handshake was last delivered to a node from an address
    chal_issued: HashMap<(u64, u64), (u64, SocketAddr)>,
    /// C19: the 4-byte counter in front of every message nonce, per key -> the nonce it was seen in
    key_ctr: HashMap<([u8; 16], [u8; 4]), [u8; 12]>,
    /// C15: the datagram being delivered opens under a known key, but nothing was exchanged with its
    /// source for longer than the session timeout (real clock, 100 ms to spare): Some(idle ms)
    cur_stale_authentic: Option<u64>,
    /// C04: the datagram being delivered is the peer's answer to request RID of the recipient, sealed for
    /// the session the recipient itself is sealing under, which was in use well within the timeout
    cur_expect_resp: Option<u64>,
    /// C03: the WHOAREYOU being delivered echoes the nonce of a handshake this node sent for request RID,
    /// which is still in flight with exactly that packet: the request must fail now
    cur_wru_second: Option<u64>,
    /// configured session cache capacity of the world
    cap: usize,
    /// C04: how often a datagram carrying request RID of a node went out under one key
    tx_count: HashMap<(u64, u64, [u8; 16]), u32>,
    hs_delivered: HashMap<(u64, SocketAddr), u64>,
    /// when a node last sealed something fresh for (address, node): its session was certainly alive then
    entry_lo: HashMap<(u64, SocketAddr, u64), std::time::Instant>,
    /// something happened since that may have ended the session for a reason of its own (a packet that
    /// did not authenticate, a failed request, an answer to an internal request)
    entry_dirty: HashSet<(u64, SocketAddr)>,
    /// sessions that went away without such a reason (node, address, peer, last certain use, when
    /// noticed, latest possible use of every other entry of the node at that moment)
    vanished: Vec<(u64, SocketAddr, u64, u64, HashMap<SocketAddr, u64>)>,
    /// the same bookkeeping in observation order (one counter for everything the harness sees; operations
    /// settle one after the other, so this order is the order in which things happened at a node):
    /// possible uses of a node's session with an address, moments at which a node may have created a
    /// session (it sealed a handshake, or a handshake that opens was delivered to it), fresh seals
    obs: u64,
    use_log: Vec<(u64, SocketAddr, u64)>,
    create_log: Vec<(u64, u64)>,
    seal_log: Vec<(u64, SocketAddr, u64, [u8; 16], u64)>,
    key_born_obs: HashMap<[u8; 16], u64>,
    entry_lo_obs: HashMap<(u64, SocketAddr, u64), u64>,
    next_del: usize,
    next_wru: HashMap<u64, usize>,
    next_req: HashMap<u64, usize>,
    last_req: HashMap<u64, usize>,
    /// C04: requests outstanding when the current drain started: (node, rid) -> (sent_at, to)
    outstanding_snapshot: Vec<(u64, u64, u64, u64)>,
}

impl Default for HandlerRunner {
    fn default() -> Self {
        HandlerRunner {
            rt: None,
            nodes: Vec::new(),
            attacker_key: None,
            attacker_enr: None,
            ed_enr: None,
            wire: Vec::new(),
            names: Names::default(),
            keys: Vec::new(),
            addrs: Vec::new(),
            ids: HashMap::new(),
            now_ms: 0,
            timeout_ms: 400,
            retries: 1,
            ledger: Ledger::default(),
            last_sig_cd: None,
            last_hs_keys: None,
            last_ct_key: None,
            key_addrs: HashMap::new(),
            cur_from: None,
            cur_key: None,
            delivering_handshake: false,
            cur_src: None,
            wire_dst_hint: None,
            cur_wru_foreign: false,
            cur_hs_unchallenged: false,
            cur_wru_finished: false,
            known_seq: HashMap::new(),
            last_seal: HashMap::new(),
            withheld: Vec::new(),
            cur_authentic: true,
            ttl_ms: 86_400_000,
            old_keys_mark: 0,
            old_wire_mark: 0,
            step_start_ms: 0,
            key_born: HashMap::new(),
            key_pair: HashMap::new(),
            dead_keys: HashSet::new(),
            held: HashSet::new(),
            deferred_mons: Vec::new(),
            adopted_latest: HashMap::new(),
            entry_use: HashMap::new(),
            chal_issued: HashMap::new(),
            key_ctr: HashMap::new(),
            cur_stale_authentic: None,
            cur_expect_resp: None,
            cur_wru_second: None,
            cap: 1000,
            tx_count: HashMap::new(),
            hs_delivered: HashMap::new(),
            entry_lo: HashMap::new(),
            entry_dirty: HashSet::new(),
            vanished: Vec::new(),
            obs: 0,
            use_log: Vec::new(),
            create_log: Vec::new(),
            seal_log: Vec::new(),
            key_born_obs: HashMap::new(),
            entry_lo_obs: HashMap::new(),
            next_del: 0,
            next_wru: HashMap::new(),
            next_req: HashMap::new(),
            last_req: HashMap::new(),
            outstanding_snapshot: Vec::new(),
        }
    }
}

/// An identity with an Ed25519 key (it has a record but can never complete a discv5.1 handshake).
fn ed_key() -> CombinedKey {
    let mut b = Rng::new(0xED25_5190).bytes(32);
    CombinedKey::ed25519_from_bytes(&mut b).expect("ed25519 key")
}

/// The static key of party `idx` (deterministic; `CombinedKey` is not `Clone`).
/// Node 1 and the attacker hold two unrelated secp256k1 keys whose node ids agree in their first two
/// and their last two bytes (a pair found by a birthday search over 2^17 keys): an identity check that
/// looks at an abbreviated or partly compared id cannot tell them apart, a check of the id can.
const COLLIDING_SECRETS: [(u64, &str); 2] = [
    (1, "e7b8d99649d04791312ac3e1161a5c0bfb26c8e9e0fc315678889265a473967c"),
    (ATTACKER, "99229be5b506364348672095f8e8b0355580fdfb139be0142be4f223ebce0bdd"),
];

fn key_of_idx(idx: u64) -> CombinedKey {
    if let Some((_, h)) = COLLIDING_SECRETS.iter().find(|(i, _)| *i == idx) {
        if let Ok(mut b) = hex::decode(h) {
            if let Ok(k) = CombinedKey::secp256k1_from_bytes(&mut b) {
                return k;
            }
        }
    }
    key_from(&mut Rng::new(0xABCD_0000 + idx))
}

/// The associated data of a datagram computed from the *received bytes* (IV ‖ unmasked static
/// header ‖ unmasked auth-data), independently of the crate's decoder.
fn independent_aad(bytes: &[u8], local_id: &NodeId) -> Option<Vec<u8>> {
    if bytes.len() < 39 {
        return None;
    }
    let ks = keystream(&local_id.raw(), &bytes[..16], bytes.len() - 16);
    let un: Vec<u8> = bytes[16..].iter().zip(ks.iter()).map(|(a, b)| a ^ b).collect();
    let n = u16::from_be_bytes([un[21], un[22]]) as usize;
    if 23 + n > un.len() {
        return None;
    }
    let mut aad = bytes[..16].to_vec();
    aad.extend_from_slice(&un[..23 + n]);
    Some(aad)
}

fn node_addr(idx: u64) -> SocketAddr {
    let v6 = V6_WORLD.load(Ordering::Relaxed);
    let mapped = MAPPED_WORLD.load(Ordering::Relaxed);
    let host = |h: u64| -> IpAddr {
        if v6 && mapped { Ipv4Addr::new(10, 0, 0, h as u8).to_ipv6_mapped().into() }
        else if v6 { Ipv6Addr::new(0xfd00, 0, 0, 0, 0, 0, 0, h as u16).into() } else { Ipv4Addr::new(10, 0, 0, h as u8).into() }
    };
    if (21..=29).contains(&idx) {
        // another port on the host of node idx-20
        return SocketAddr::new(host(idx - 20), 19000 + idx as u16);
    }
    SocketAddr::new(host(idx), 9000 + idx as u16)
}

/// The IPv6 socket a dual-stack record of node `idx` advertises next to its real IPv4 socket.
fn alt6(idx: u64) -> SocketAddr {
    SocketAddr::new(Ipv6Addr::new(0xfd00, 0, 0, 0, 0, 0xa, 0, idx as u16).into(), 9500 + idx as u16)
}

/// (ip4, ip6) arguments of `make_enr` for a record advertising `a`.
fn adv_of(a: Option<SocketAddr>) -> (Option<(Ipv4Addr, u16)>, Option<(Ipv6Addr, u16)>) {
    match a {
        Some(SocketAddr::V4(s)) => (Some((*s.ip(), s.port())), None),
        Some(SocketAddr::V6(s)) => (None, Some((*s.ip(), s.port()))),
        None => (None, None),
    }
}

/// An older record (seq 0) of the same node advertising the same sockets.
fn stale_of(k: &CombinedKey, e: &Enr) -> Enr {
    make_enr(k, 0, e.udp4_socket().map(|s| (*s.ip(), s.port())), e.udp6_socket().map(|s| (*s.ip(), s.port())), 0)
}

const ED_IDENTITY: u64 = 8;

/// The id-signature check done independently of the crate: ECDSA/secp256k1 over
/// sha256("discovery v5 identity proof" ‖ challenge-data ‖ ephemeral-pubkey ‖ destination-id).
/// Other key types cannot prove an identity in discv5.1.
fn independent_verify(signer: &Enr, eph: &[u8], cd: &[u8], dst: &NodeId, sig: &[u8]) -> bool {
    use discv5::enr::k256::ecdsa::signature::DigestVerifier;
    use discv5::enr::k256::sha2::{Digest, Sha256};
    let discv5::enr::CombinedPublicKey::Secp256k1(vk) = signer.public_key() else { return false };
    let Ok(sig) = discv5::enr::k256::ecdsa::Signature::try_from(sig) else { return false };
    let mut m = b"discovery v5 identity proof".to_vec();
    m.extend_from_slice(cd);
    m.extend_from_slice(eph);
    m.extend_from_slice(&dst.raw());
    vk.verify_digest(Sha256::new().chain_update(m), &sig).is_ok()
}

/// HMAC-SHA256 (RFC 2104), written out: the harness's own, so that the key derivation below shares no
/// code with the crate under test.
fn hmac_sha256(key: &[u8], data: &[&[u8]]) -> [u8; 32] {
    use discv5::enr::k256::sha2::{Digest, Sha256};
    let mut k = [0u8; 64];
    if key.len() > 64 {
        k[..32].copy_from_slice(&Sha256::digest(key));
    } else {
        k[..key.len()].copy_from_slice(key);
    }
    let mut inner = Sha256::new();
    inner.update(k.iter().map(|b| b ^ 0x36).collect::<Vec<u8>>());
    for d in data {
        inner.update(d);
    }
    let ih = inner.finalize();
    let mut outer = Sha256::new();
    outer.update(k.iter().map(|b| b ^ 0x5c).collect::<Vec<u8>>());
    outer.update(ih);
    outer.finalize().into()
}

/// The session keys of discv5.1 as the specification derives them, computed independently of the
/// crate: secret = compressed(ephemeral public key * static secret key), HKDF-SHA256 with the
/// challenge data as salt and "discovery v5 key agreement" || initiator id || recipient id as info;
/// the first 16 bytes are the initiator's key, the next 16 the recipient's.
fn independent_keys(local_key: &CombinedKey, initiator: &NodeId, recipient: &NodeId, cd: &[u8], eph: &[u8]) -> Option<([u8; 16], [u8; 16])> {
    use discv5::enr::k256::elliptic_curve::sec1::ToEncodedPoint;
    let CombinedKey::Secp256k1(sk) = local_key else { return None };
    let pk = discv5::enr::k256::PublicKey::from_sec1_bytes(eph).ok()?;
    let scalar = discv5::enr::k256::SecretKey::from_slice(&sk.to_bytes()).ok()?.to_nonzero_scalar();
    let shared = discv5::enr::k256::PublicKey::from_affine((pk.to_projective() * *scalar).to_affine()).ok()?;
    let secret = shared.to_encoded_point(true).as_bytes().to_vec();
    let prk = hmac_sha256(cd, &[&secret]);
    let okm = hmac_sha256(&prk, &[b"discovery v5 key agreement", &initiator.raw(), &recipient.raw(), &[1u8]]);
    let mut a = [0u8; 16];
    let mut b = [0u8; 16];
    a.copy_from_slice(&okm[..16]);
    b.copy_from_slice(&okm[16..]);
    Some((a, b))
}

fn body_of(code: u64) -> RequestBody {
    match code {
        1 => RequestBody::Ping { enr_seq: 1 },
        2 => RequestBody::FindNode { distances: vec![0] },
        3 => RequestBody::FindNode { distances: vec![256] },
        // (legal lists nobody's own lookups produce: a distance twice, out of order)
        5 => RequestBody::FindNode { distances: vec![17, 17] },
        6 => RequestBody::FindNode { distances: vec![256, 255, 256, 0] },
        _ => RequestBody::Talk { protocol: b"p".to_vec(), request: b"x".to_vec() },
    }
}

fn code_of(b: &RequestBody) -> u64 {
    match b {
        RequestBody::Ping { enr_seq: 1 } => 1,
        RequestBody::FindNode { distances } if distances == &vec![0u64] => 2,
        RequestBody::FindNode { distances } if distances == &vec![256u64] => 3,
        RequestBody::FindNode { distances } if distances == &vec![17u64, 17] => 5,
        RequestBody::FindNode { distances } if distances == &vec![256u64, 255, 256, 0] => 6,
        RequestBody::Talk { .. } => 4,
        _ => 0,
    }
}

fn rid_bytes(n: u64) -> RequestId {
    RequestId(n.to_be_bytes().to_vec())
}

fn err_name(e: &RequestError) -> &'static str {
    match e {
        RequestError::Timeout => "timeout",
        RequestError::InvalidRemotePacket => "invalid-packet",
        RequestError::InvalidRemoteEnr => "invalid-enr",
        RequestError::SelfRequest => "self",
        _ => "other",
    }
}

impl HandlerRunner {
    fn addr_idx(&mut self, a: SocketAddr) -> String {
        let n = match self.addrs.iter().position(|x| *x == a) {
            Some(p) => p,
            None => {
                self.addrs.push(a);
                self.addrs.len() - 1
            }
        };
        format!("{}:{}", if a.is_ipv6() { 6 } else { 4 }, n)
    }

    fn id_idx(&mut self, id: &NodeId) -> u64 {
        if let Some(v) = self.ids.get(id) {
            return *v;
        }
        // an id nobody owns (e.g. produced by a mutated header): give it a number of its own
        let v = 50 + self.ids.len() as u64;
        self.ids.insert(*id, v);
        v
    }

    fn id_idx_ro(&self, id: &NodeId) -> u64 {
        *self.ids.get(id).unwrap_or(&0)
    }

    fn na(&mut self, na: &NodeAddress) -> String {
        let i = self.id_idx(&na.node_id);
        format!("{}@{}", i, self.addr_idx(na.socket_addr))
    }

    fn rec(&mut self, e: &Enr) -> String {
        let id = self.id_idx(&e.node_id());
        let u4 = match e.udp4_socket() {
            Some(s) => self.addr_idx(SocketAddr::V4(s)).split(':').nth(1).unwrap().to_string(),
            None => "-".into(),
        };
        let u6 = match e.udp6_socket() {
            Some(s) => self.addr_idx(SocketAddr::V6(s)).split(':').nth(1).unwrap().to_string(),
            None => "-".into(),
        };
        format!("R:{}:{}:{}:{}", id, e.seq(), u4, u6)
    }

    fn name_nonce(&mut self, n: &[u8; 12], owner: u64) -> u64 {
        if let Some(v) = self.names.nonce.get(n) {
            return *v;
        }
        let v = self.fresh(owner, 0);
        self.names.nonce.insert(*n, v);
        v
    }

    fn fresh(&mut self, owner: u64, cat: u8) -> u64 {
        if let Some(node) = self.nodes.iter_mut().find(|x| x.idx == owner) {
            let c = match cat {
                0 => &mut node.c_nonce,
                1 => &mut node.c_cd,
                2 => &mut node.c_eph,
                _ => &mut node.c_rid,
            };
            *c += 1;
            owner * 1_000_000 + *c
        } else {
            self.names.craft += 1;
            CRAFT_OWNER * 1_000_000 + self.names.craft
        }
    }

    fn name_cd(&mut self, cd: &[u8], owner: u64) -> u64 {
        if let Some(v) = self.names.cd.get(cd) {
            return *v;
        }
        let v = self.fresh(owner, 1);
        self.names.cd.insert(cd.to_vec(), v);
        v
    }

    fn name_eph(&mut self, e: &[u8], owner: u64) -> u64 {
        if let Some(v) = self.names.eph.get(e) {
            return *v;
        }
        let v = self.fresh(owner, 2);
        self.names.eph.insert(e.to_vec(), v);
        v
    }

    fn name_rid(&mut self, r: &[u8], owner: u64) -> u64 {
        // script-chosen request ids are 8-byte big-endian numbers below 10^6
        if r.len() == 8 {
            let n = u64::from_be_bytes(r.try_into().unwrap());
            if n < 1_000_000 {
                return n;
            }
        }
        if let Some(v) = self.names.rid.get(r) {
            return *v;
        }
        let v = self.fresh(owner, 3);
        self.names.rid.insert(r.to_vec(), v);
        v
    }

    fn msg_term(&mut self, plaintext: &[u8], owner: u64) -> String {
        match Message::decode(plaintext) {
            Ok(Message::Request(r)) => format!("req/{}/{}", self.name_rid(r.id.as_bytes(), owner), code_of(&r.body)),
            Ok(Message::Response(r)) => format!("resp/{}/{}", self.name_rid(r.id.as_bytes(), owner), self.rb_term(&r.body)),
            Err(_) => "undec".into(),
        }
    }

    fn rb_term(&mut self, b: &ResponseBody) -> String {
        match b {
            ResponseBody::Nodes { total, nodes } => {
                let recs: Vec<String> = nodes.iter().map(|e| self.rec(e)).collect();
                format!("nodes/{}/{}", total, if recs.is_empty() { "-".into() } else { recs.join(";") })
            }
            ResponseBody::Pong { .. } => "other/1".into(),
            ResponseBody::Talk { .. } => "other/2".into(),
        }
    }

    /// Tries every known session key on a ciphertext.
    fn ct_term(&mut self, nonce: [u8; 12], nonce_name: u64, ct: &[u8], aad: &[u8], owner: u64, handshake: bool) -> (String, Option<([u8; 16], Vec<u8>)>) {
        for i in 0..self.keys.len() {
            let (k, term) = self.keys[i].clone();
            if let Some(pt) = hf::aead_decrypt(&k, nonce, ct, aad) {
                let m = self.msg_term(&pt, owner);
                // the 4-byte counter prefix of a message nonce is part of the term (C19)
                let ctr = if handshake { 0 } else { u32::from_be_bytes([nonce[0], nonce[1], nonce[2], nonce[3]]) };
                self.last_ct_key = Some(k);
                return (format!("E[{}|{}|{}|{}|ok]", term, nonce_name, ctr, m), Some((k, pt)));
            }
        }
        ("G".into(), None)
    }

    fn key_for_idx(&self, idx: u64) -> Option<(CombinedKey, Enr)> {
        if idx == ED_IDENTITY {
            return Some((ed_key(), self.ed_enr.clone()?));
        }
        if idx == ATTACKER {
            self.attacker_key.as_ref()?;
            return Some((key_of_idx(ATTACKER), self.attacker_enr.clone()?));
        }
        self.nodes.iter().find(|n| n.idx == idx).map(|n| (key_of_idx(n.idx), n.enr.clone()))
    }

    /// Symbolic description of a datagram as decoded under `local` (None: not decodable there).
    /// `owner` is the party that first put it on the wire (names of fresh values).
    fn describe(&mut self, bytes: &[u8], local_idx: u64, owner: u64, emitted_by_real: bool) -> Option<String> {
        let local_id = match self.key_for_idx(local_idx) {
            Some((_, e)) => e.node_id(),
            None => *self.ids.iter().find(|(_, v)| **v == local_idx)?.0,
        };
        let lkey = self.key_for_idx(local_idx).map(|x| x.0);
        let (p, aad_impl): (RawPacket, Vec<u8>) = packet_decode(&local_id, ProtocolIdentity::default(), bytes).ok()?;
        // what the AEAD must be bound to: the received header bytes (not the decoder's view of them)
        let aad = independent_aad(bytes, &local_id).unwrap_or(aad_impl);
        let nn = self.name_nonce(&p.nonce, owner);
        self.last_hs_keys = None;
        self.last_ct_key = None;
        match &p.kind {
            PacketKind::WhoAreYou { id_nonce, enr_seq } => {
                let cd = self.name_cd(&aad, owner);
                if emitted_by_real && !self.ledger.id_nonces.insert(*id_nonce) {
                    // reported by the caller through the monitor list
                    self.names.craft += 0;
                }
                Some(format!("W~{}~{}~{}", nn, cd, enr_seq))
            }
            PacketKind::Message { src_id } => {
                let src = self.id_idx(src_id);
                let (ct, _) = self.ct_term(p.nonce, nn, &p.message, &aad, owner, false);
                Some(format!("M~{}~{}~{}", src, nn, ct))
            }
            PacketKind::Handshake { src_id, id_nonce_sig, ephem_pubkey, enr_record } => {
                let src = self.id_idx(src_id);
                let eph = self.name_eph(ephem_pubkey, owner);
                // who signed it, over which challenge data?
                let mut sig_term = "S:0:0:0:0".to_string();
                let cds: Vec<(Vec<u8>, u64)> = self.names.cd.iter().map(|(k, v)| (k.clone(), *v)).collect();
                let mut signers: Vec<(u64, Enr)> = self.nodes.iter().map(|n| (n.idx, n.enr.clone())).collect();
                if let Some(e) = self.attacker_enr.clone() {
                    signers.push((ATTACKER, e));
                }
                let mut signed_cd: Option<(Vec<u8>, u64)> = None;
                'outer: for (cdb, cdn) in cds.iter() {
                    for (sidx, senr) in signers.iter() {
                        if independent_verify(senr, ephem_pubkey, cdb, &local_id, id_nonce_sig) {
                            sig_term = format!("S:{}:{}:{}:{}", sidx, cdn, eph, local_idx);
                            signed_cd = Some((cdb.clone(), *cdn));
                            break 'outer;
                        }
                    }
                }
                // session keys as the recipient derives them (if the challenge data is known)
                let mut ct = "G".to_string();
                if let Some((cdb, cdn)) = signed_cd {
                    if let Some(k) = lkey.as_ref().and_then(|lk| hf::recipient_keys(lk, &local_id, src_id, &cdb, ephem_pubkey)) {
                        // C02: the keys a handshake yields are the protocol's - bound to the secret of the
                        // key agreement (whoever lacks both secret keys cannot compute them)
                        if let Some((ik, rk)) = lkey.as_ref().and_then(|lk| independent_keys(lk, src_id, &local_id, &cdb, ephem_pubkey)) {
                            if ik != k.initiator_key || rk != k.recipient_key {
                                self.deferred_mons.push(format!("!MON C02 session-keys-differ-from-the-key-agreement-of-the-protocol node={}", local_idx));
                                self.deferred_mons.push(format!("!MON C01 session-keys-differ-from-the-key-agreement-of-the-protocol node={}", local_idx));
                            }
                        }
                        let t_ini = format!("K:{}:{}:{}:{}:t", eph, cdn, src, local_idx);
                        let t_rcp = format!("K:{}:{}:{}:{}:f", eph, cdn, src, local_idx);
                        self.last_hs_keys = Some((k.initiator_key, k.recipient_key));
                        if !self.keys.iter().any(|(kb, _)| *kb == k.initiator_key) {
                            self.keys.push((k.initiator_key, t_ini));
                            self.keys.push((k.recipient_key, t_rcp));
                            self.key_born.insert(k.initiator_key, std::time::Instant::now());
                            self.key_born.insert(k.recipient_key, std::time::Instant::now());
                            self.key_pair.insert(k.initiator_key, k.recipient_key);
                            self.key_pair.insert(k.recipient_key, k.initiator_key);
                            self.obs += 1;
                            self.key_born_obs.insert(k.initiator_key, self.obs);
                            self.key_born_obs.insert(k.recipient_key, self.obs);
                        }
                        ct = self.ct_term(p.nonce, nn, &p.message, &aad, owner, true).0;
                    }
                }
                let rec = match enr_record {
                    Some(e) => self.rec(e),
                    None => "none".into(),
                };
                Some(format!("H~{}~{}~{}~{}~{}~{}", src, nn, sig_term, eph, rec, ct))
            }
        }
    }

    fn exempt(&mut self, ni: usize) -> String {
        let m: Vec<(SocketAddr, usize)> = self.nodes[ni].wire.expected_responses.read().iter().map(|(a, n)| (*a, *n)).collect();
        let mut items: Vec<String> = m.into_iter().map(|(a, n)| format!("{}={}", self.addr_idx(a), n)).collect();
        items.sort();
        if items.is_empty() {
            "-".into()
        } else {
            items.join(",")
        }
    }

    fn settle(&self) {
        let rt = self.rt.as_ref().unwrap();
        rt.block_on(async {
            for _ in 0..40 {
                tokio::task::yield_now().await;
            }
        });
    }

    /// Drains the outputs of node `ni`: (events, sends) as model-syntax tokens; records datagrams.
    fn drain(&mut self, ni: usize, out: &mut Vec<String>, stats: &mut Stats) -> String {
        let idx = self.nodes[ni].idx;
        out.append(&mut self.deferred_mons);
        let mut events = Vec::new();
        self.outstanding_snapshot = self
            .ledger
            .reqs
            .iter()
            .filter(|(_, l)| !l.done && l.failures == 0)
            // (a request's timer is armed afresh, for a full period, whenever a datagram carrying it goes
            // out - first transmission, handshake, re-keying, retransmission: what counts is when it last did)
            .map(|((n, r), l)| (*n, *r, l.last_emit.unwrap_or(l.sent_at).max(l.sent_at), l.to))
            .chain(self.ledger.internal.iter().filter(|(_, v)| !v.2).map(|((n, r), v)| (*n, *r, v.0, v.1)))
            .collect();
        let mut refills = 0;
        loop {
            if self.held.contains(&idx) {
                break;
            }
            let ev = match self.nodes[ni].from_handler.try_recv() {
                Ok(e) => e,
                Err(_) => {
                    // the channel to the service is bounded: a handler with more to report than it holds
                    // is waiting for room.  Let it run on and come back for the rest.
                    if refills < 64 {
                        refills += 1;
                        self.settle();
                        match self.nodes[ni].from_handler.try_recv() {
                            Ok(e) => e,
                            Err(_) => break,
                        }
                    } else {
                        break;
                    }
                }
            };
            match ev {
                HandlerOut::Established(enr, addr, dir) => {
                    stats.bump("h.established");
                    let r = self.rec(&enr);
                    let a = self.addr_idx(addr);
                    events.push(format!("est>{}>{}>{}", r, a, if dir == ConnectionDirection::Outgoing { "o" } else { "i" }));
                    // C01: a session reported in reaction to a datagram names the datagram's source id
                    if let Some(srcidx) = self.cur_src {
                        let who = self.id_idx(&enr.node_id());
                        if who != srcidx {
                            out.push(format!("!MON C01 established-for-foreign-record node={} source={} record-id={}", idx, srcidx, who));
                            // (C12: the service admits whoever is reported established)
                            out.push(format!("!MON C12 established-report-names-another-node-than-the-session-peer node={} source={} record-id={}", idx, srcidx, who));
                        }
                    }
                    let dh = self.delivering_handshake;
                    if dh {
                        // C12: the record a session is reported with is never older than the one the
                        // application supplied with its WHOAREYOU answer
                        let who = self.id_idx(&enr.node_id());
                        if let Some(ks) = self.known_seq.get(&(idx, who, addr)) {
                            if enr.seq() < *ks {
                                out.push(format!("!MON C12 established-with-older-record-than-known node={} peer={} seq={} known-seq={}", idx, who, enr.seq(), ks));
                            }
                        }
                    }
                    self.mon_identity(idx, &enr.node_id(), addr, dh, "established", out);
                    if self.delivering_handshake {
                        self.mon_fresh_challenge(idx, out);
                        // C12 (handler half): an incoming session is reported established only if the
                        // record's UDP socket of the observed family, when present, equals the source
                        let advertised = match addr {
                            SocketAddr::V4(_) => enr.udp4_socket().map(SocketAddr::V4),
                            SocketAddr::V6(_) => enr.udp6_socket().map(SocketAddr::V6),
                        };
                        if let Some(a) = advertised {
                            if a != addr {
                                out.push(format!("!MON C12 session-established-with-foreign-address node={} record={} observed={}", idx, a, addr));
                            }
                        }
                    }
                }
                HandlerOut::Request(na, req) => {
                    stats.bump("h.request-delivered");
                    let rid = self.name_rid(req.id.as_bytes(), 0);
                    events.push(format!("req>{}>{}>{}", self.na(&na), rid, code_of(&req.body)));
                    self.mon_identity(idx, &na.node_id, na.socket_addr, true, "request", out);
                    self.mon_authentic(idx, &na, &Message::Request((*req).clone()).encode(), out);
                    if !self.cur_authentic {
                        out.push(format!("!MON C02 delivered-from-unauthenticated-datagram node={} kind=request", idx));
                    }
                    self.mon_session_address(idx, "request", out);
                    self.nodes[ni].requests.push((na, *req));
                }
                HandlerOut::Response(na, resp) => {
                    stats.bump("h.response-delivered");
                    let rid = self.name_rid(resp.id.as_bytes(), 0);
                    let rb = self.rb_term(&resp.body);
                    events.push(format!("rsp>{}>{}>{}", self.na(&na), rid, rb));
                    self.mon_authentic(idx, &na, &Message::Response((*resp).clone()).encode(), out);
                    if !self.cur_authentic {
                        out.push(format!("!MON C02 delivered-from-unauthenticated-datagram node={} kind=response", idx));
                    }
                    self.mon_session_address(idx, "response", out);
                    if let Some(l) = self.ledger.reqs.get_mut(&(idx, rid)) {
                        l.responses += 1;
                        if l.failures > 0 {
                            out.push(format!("!MON C04 response-after-failure node={} rid={}", idx, rid));
                        }
                        // the final response: a single-packet answer, or the `total`-th packet of a
                        // multi-packet NODES answer (the handler counts packets)
                        let last = match &resp.body {
                            ResponseBody::Nodes { total, .. } => {
                                if *total > 1 && l.expected.is_none() {
                                    l.expected = Some(*total);
                                }
                                *total <= 1 || l.responses as u64 >= l.expected.unwrap_or(*total)
                            }
                            _ => true,
                        };
                        if last {
                            if l.done {
                                out.push(format!("!MON C04 second-final-response node={} rid={}", idx, rid));
                            }
                            l.done = true;
                        }
                    }
                }
                HandlerOut::WhoAreYou(r) => {
                    stats.bump("h.wru-query");
                    let n = r.message_nonce();
                    let nn = self.name_nonce(&n, 0);
                    events.push(format!("wru>{}>{}", self.na(&r.0), nn));
                    self.nodes[ni].wru.push(r);
                }
                HandlerOut::RequestFailed(id, e) => {
                    stats.bump(&format!("h.failed.{}", err_name(&e)));
                    let rid = self.name_rid(id.as_bytes(), 0);
                    events.push(format!("fail>{}>{}", rid, err_name(&e)));
                    let now = self.now_ms;
                    let timeout = self.timeout_ms;
                    // (a timeout fails the requests to that peer and leaves its session alone)
                    if !matches!(e, RequestError::Timeout) {
                        let addrs: Vec<SocketAddr> = self.entry_use.keys().filter(|(n, _)| *n == idx).map(|(_, a)| *a).collect();
                        for a in addrs {
                            self.entry_dirty.insert((idx, a));
                        }
                    }
                    if let Some(l) = self.ledger.reqs.get_mut(&(idx, rid)) {
                        l.failures += 1;
                        if l.failures > 1 {
                            out.push(format!("!MON C04 two-failure-reports node={} rid={}", idx, rid));
                        }
                        if l.done {
                            out.push(format!("!MON C04 failure-after-final-response node={} rid={}", idx, rid));
                        }
                        let _ = (now, timeout);
                    }
                    if matches!(e, RequestError::Timeout) {
                        // some request to that peer must have been outstanding for a full timeout period
                        let to = self.ledger.reqs.get(&(idx, rid)).map(|l| l.to).unwrap_or(0);
                        let oldest = self
                            .outstanding_snapshot
                            .iter()
                            .filter(|(n, _, _, t)| *n == idx && *t == to)
                            .map(|(_, _, s, _)| *s)
                            .min()
                            .unwrap_or(now);
                        if self.ledger.reqs.contains_key(&(idx, rid)) && now < oldest + timeout {
                            out.push(format!("!MON C04 premature-timeout node={} rid={} after_ms={}", idx, rid, now - oldest));
                        }

                    }
                }
                HandlerOut::UnverifiableEnr { enr, socket, node_id } => {
                    stats.bump("h.unverifiable");
                    let r = self.rec(&enr);
                    let a = self.addr_idx(socket);
                    events.push(format!("unv>{}>{}>{}", r, a, self.id_idx(&node_id)));
                    self.mon_identity(idx, &node_id, socket, true, "unverifiable", out);
                    if self.delivering_handshake {
                        self.mon_fresh_challenge(idx, out);
                    }
                }
                HandlerOut::ExpiredSessions(v) => {
                    let l: Vec<String> = v.iter().map(|na| self.na(na)).collect();
                    events.push(format!("exp>{}", l.join(",")));
                }
                HandlerOut::UnrecognizedFrame(_) => {}
            }
        }
        let mut sends = Vec::new();
        loop {
            let (dst, dst_id, bytes) = match self.nodes[ni].wire.outbound.try_recv() {
                Ok(x) => x,
                Err(_) => break,
            };
            stats.bump("h.datagrams-sent");
            let dst_idx = self.id_idx(&dst_id);
            let src = self.nodes[ni].addr;
            let k = self.wire.len();
            // describe as the intended recipient decodes it (names are drawn here, in emission order)
            let term = self.describe(&bytes, dst_idx, idx, true).unwrap_or_else(|| "?".into());
            if self.cur_wru_foreign && term.starts_with("H~") {
                out.push(format!("!MON C03 whoareyou-from-foreign-address-acted-on node={}", idx));
            }
            // C04: every transmission of a request goes to the address of the contact it was made for
            if let Some(i) = term.find("|req/") {
                if let Some(r) = term[i + 5..].split('/').next().and_then(|x| x.parse::<u64>().ok()) {
                    if let Some(l) = self.ledger.reqs.get(&(idx, r)) {
                        if dst != node_addr(l.to) {
                            out.push(format!("!MON C04 request-sent-to-another-address-than-its-contact node={} rid={} to={} contact={}", idx, r, dst, node_addr(l.to)));
                        }
                    }
                }
            }
            if self.cur_wru_finished && term.starts_with("H~") {
                out.push(format!("!MON C03 whoareyou-for-request-no-longer-in-flight-acted-on node={}", idx));
            }
            if let Some((_, k_rcp)) = self.last_hs_keys {
                // the initiator's session lives at the address its handshake goes to
                let e = self.key_addrs.entry((idx, k_rcp)).or_default();
                if !e.contains(&dst) { e.push(dst); }
                self.adopted_latest.insert((idx, dst), k_rcp);
            }
            self.wire_dst_hint = Some(dst);
            self.mon_emitted(idx, dst_idx, &bytes, out);
            let a = self.addr_idx(dst);
            sends.push(format!("snd>{}@{}>{}", dst_idx, a, term));
            self.wire.push(Datagram { from_idx: idx, src, dst, dst_id, bytes });
            out.push(format!("!INFO wire #{} {}->{} {}", k, idx, dst_idx, sends.last().unwrap()));
        }
        if self.cur_wru_foreign && (!events.is_empty() || !sends.is_empty()) {
            // a WHOAREYOU that does not come from where the echoed request went changes nothing
            out.push(format!("!MON C03 whoareyou-from-foreign-address-had-an-effect node={} reaction={}", idx,
                events.iter().chain(sends.iter()).next().map(|s| s.chars().take(60).collect::<String>()).unwrap_or_default()));
        }
        if self.cur_hs_unchallenged && (!events.is_empty() || !sends.is_empty()) {
            // a handshake packet counts only while a WHOAREYOU of this node is outstanding for its
            // sender; otherwise it is dropped without any effect
            out.push(format!("!MON C03 handshake-without-outstanding-challenge-acted-on node={} reaction={}", idx,
                events.iter().chain(sends.iter()).next().map(|s| s.chars().take(60).collect::<String>()).unwrap_or_default()));
        }
        // a node that asks who the sender of the delivered datagram is did not open it (it may hold no
        // session, or not the key the datagram was sealed under): its session with that address, if any,
        // is gone for a reason of its own
        if let Some(src) = self.cur_from {
            if events.iter().any(|e| e.starts_with("wru>")) || self.delivering_handshake {
                self.entry_dirty.insert((idx, src));
            }
        }
        if let Some(r) = self.cur_wru_second.take() {
            if !events.iter().any(|e| e.starts_with(&format!("fail>{}>", r))) {
                out.push(format!("!MON C03 second-whoareyou-did-not-fail-the-request node={} rid={}", idx, r));
            }
        }
        if let Some(r) = self.cur_expect_resp.take() {
            if !events.iter().any(|e| e.starts_with("rsp>") && e.split('>').nth(2) == Some(&r.to_string())) {
                out.push(format!("!MON C04 answer-that-arrived-in-time-not-delivered node={} rid={}", idx, r));
            }
        }
        // C15: a message that arrives after the session timeout has passed since the last exchange is a
        // message from a peer without a session: the handler asks who that is, it does not accept it
        if let Some(idle) = self.cur_stale_authentic.take() {
            if !events.iter().any(|e| e.starts_with("wru>")) {
                out.push(format!("!MON C15 message-accepted-by-a-session-idle-for-longer-than-the-timeout node={} idle_ms={}", idx, idle));
            }
        }
        let all: Vec<String> = events.into_iter().chain(sends).collect();
        let ex = self.exempt(ni);
        self.mon_exempt(ni, out);
        format!("{} ## {}", if all.is_empty() { "-".into() } else { all.join(" ") }, ex)
    }

    // ---- monitors -----------------------------------------------------------------------------

    /// C19 + ledgers for C02: what real nodes put on the wire.
    fn mon_emitted(&mut self, from: u64, dst_idx: u64, bytes: &[u8], out: &mut Vec<String>) {
        let Some((_, denr)) = self.key_for_idx(dst_idx) else { return };
        let Ok((p, aad)) = packet_decode(&denr.node_id(), ProtocolIdentity::default(), bytes) else { return };
        let h = {
            let mut x: u64 = 1469598103934665603;
            for b in bytes {
                x = (x ^ *b as u64).wrapping_mul(1099511628211);
            }
            x
        };
        match &p.kind {
            PacketKind::WhoAreYou { id_nonce, .. } => {
                // (byte-identical re-emissions included: the handler never retransmits a WHOAREYOU, and the
                // property exempts retransmissions for message nonces only)
                let fresh = !self.wire.iter().any(|d| d.from_idx != ATTACKER && {
                    packet_decode(&d.dst_id, ProtocolIdentity::default(), &d.bytes)
                        .map(|(q, _)| matches!(q.kind, PacketKind::WhoAreYou { id_nonce: i2, .. } if &i2 == id_nonce))
                        .unwrap_or(false)
                });
                if !fresh {
                    out.push(format!("!MON C19 id-nonce-repeated node={}", from));
                }
                // 16 random bytes are all equal with probability 2^-120: a constant-byte id-nonce
                // comes from a generator with 8 bits of entropy (repeats after a few challenges)
                if id_nonce.iter().all(|b| *b == id_nonce[0]) {
                    out.push(format!("!MON C19 id-nonce-degenerate node={} byte={:02x}", from, id_nonce[0]));
                }
                if let Some(cd) = self.names.cd.get(&aad).cloned() {
                    let now = self.now_ms;
                    if let Some(d) = self.wire_dst_hint {
                        self.ledger.outstanding_chal.entry((from, cd)).or_insert((now, dst_idx, d));
                        let lo = self.step_start_ms;
                        self.chal_issued.entry((from, cd)).or_insert((lo, d));
                    }
                }
            }
            _ => {
                for (k, _) in self.keys.clone() {
                    if let Some(pt) = hf::aead_decrypt(&k, p.nonce, &p.message, &aad) {
                        if let Ok(Message::Request(rq)) = Message::decode(&pt) {
                            let rn = self.name_rid(rq.id.as_bytes(), from);
                            // C04: every transmission counts, byte-identical retransmissions included
                            {
                                let c = self.tx_count.entry((from, rn, k)).or_insert(0);
                                *c += 1;
                                if *c as u64 == 2 + self.retries {
                                    out.push(format!("!MON C04 request-on-the-wire-more-than-1-plus-retries-times-under-one-key node={} rid={} times={}", from, rn, *c));
                                }
                            }
                            // (it went out somewhere in the stretch being observed: not before its beginning)
                            let now = self.step_start_ms;
                            if let Some(l) = self.ledger.reqs.get_mut(&(from, rn)) {
                                l.on_wire = true;
                                l.last_emit = Some(now);
                            }
                            if matches!(p.kind, PacketKind::Handshake { .. }) {
                                let set = self.ledger.hs_for_req.entry((from, rn)).or_default();
                                set.insert(p.nonce);
                                if set.len() > 1 {
                                    out.push(format!("!MON C03 second-handshake-for-one-request node={} rid={}", from, rn));
                                }
                            }
                            if rn >= 1_000_000 {
                                self.ledger.internal.entry((from, rn)).or_insert((self.now_ms, dst_idx, false));
                            }
                        }
                        self.ledger.sealed.entry((k, pt)).or_insert(from);
                        // (a retransmission repeats bytes sealed earlier: it says nothing about the keys held now)
                        let fresh_bytes = !self.wire.iter().any(|w| w.from_idx == from && w.bytes == bytes);
                        if let (Some(d), true) = (self.wire_dst_hint, fresh_bytes) {
                            // C20 / C04: a response that produced no datagram was withheld although the
                            // session was alive if the node goes on sealing under the very same key
                            // (keys only come from handshakes: a session that was gone cannot return
                            // with its old key)
                            let mut keep = Vec::new();
                            for w in std::mem::take(&mut self.withheld) {
                                if w.0 == from && w.1 == d {
                                    if w.2 == k {
                                        out.push(format!("!MON C20 response-withheld-although-the-session-was-alive node={} rid={}", from, w.3));
                                        out.push(format!("!MON C04 response-withheld-although-the-session-was-alive node={} rid={}", from, w.3));
                                    }
                                } else {
                                    keep.push(w);
                                }
                            }
                            self.withheld = keep;
                            // C15: the node seals under another key than before for this destination (a new
                            // session); if its last exchange with that peer lies further back than the session
                            // timeout (real clock, 100 ms to spare), the old session had expired: its keys are
                            // gone for good, whatever they open arrives from a peer without a session
                            if let Some(prev) = self.last_seal.get(&(from, d)).copied() {
                                if prev != k {
                                    if let Some(last) = self.entry_use.get(&(from, d)) {
                                        if std::time::Instant::now().duration_since(*last).as_millis() as u64 > self.ttl_ms.saturating_add(100) {
                                            self.dead_keys.insert((from, prev));
                                            if let Some(o) = self.key_pair.get(&prev).copied() {
                                                self.dead_keys.insert((from, o));
                                            }
                                        }
                                    }
                                }
                            }
                            self.last_seal.insert((from, d), k);
                            // C15: between two uses of one session (sealing, or accepting something sealed by
                            // the peer) no more than the session timeout may pass; measured on the real clock,
                            // from the later of the key's first appearance and the last use, with 100 ms to spare
                            let now = std::time::Instant::now();
                            if !self.ledger.key_nonce.contains_key(&(k, p.nonce)) {
                                let base = match (self.entry_use.get(&(from, d)), self.key_born.get(&k)) {
                                    (Some(a), Some(b)) => Some(*a.max(b)),
                                    (None, Some(b)) => Some(*b),
                                    _ => None,
                                };
                                if let Some(b) = base {
                                    let idle = now.duration_since(b).as_millis() as u64;
                                    if idle > self.ttl_ms.saturating_add(100) {
                                        out.push(format!("!MON C15 sealed-under-a-session-idle-for-longer-than-the-timeout node={} to={}", from, dst_idx));
                                    }
                                }
                            }
                            // C15: a session that went away for no reason of its own was evicted; one that
                            // was certainly used less recently (its key is older than, and every possible use
                            // of it precedes, the last certain use of the evicted one) cannot have survived it
                            if let Some(born) = self.key_born_obs.get(&k) {
                                for v in &self.vanished {
                                    if v.0 == from && v.1 != d && *born < v.3 && v.4.get(&d).map(|h| *h < v.3).unwrap_or(false) {
                                        out.push(format!("!MON C15 session-dropped-while-a-less-recently-used-one-was-kept node={} dropped={} kept={}", from, v.2, dst_idx));
                                    }
                                }
                            }
                            self.entry_use.insert((from, d), now);
                            self.entry_lo.insert((from, d, dst_idx), now);
                            self.entry_dirty.remove(&(from, d));
                            self.obs += 1;
                            self.use_log.push((from, d, self.obs));
                            self.seal_log.push((from, d, dst_idx, k, self.obs));
                            self.entry_lo_obs.insert((from, d, dst_idx), self.obs);
                            if matches!(p.kind, PacketKind::Handshake { .. }) {
                                self.create_log.push((from, self.obs));
                            }
                        }
                        // C15: a packet made after an idle period longer than the session timeout
                        // must not be sealed under a key from before that period
                        if let Some(pos) = self.keys.iter().position(|(kb, _)| *kb == k) {
                            let is_new = !self.ledger.key_nonce.contains_key(&(k, p.nonce));
                            if pos < self.old_keys_mark && is_new && self.wire.len() >= self.old_wire_mark {
                                out.push(format!("!MON C15 expired-session-used node={} to={}", from, dst_idx));
                            }
                        }
                        // the 8 random bytes behind the 4-byte counter are all equal with probability 2^-56
                        if matches!(p.kind, PacketKind::Message { .. }) && p.nonce[4..].iter().all(|b| *b == p.nonce[4]) {
                            out.push(format!("!MON C19 message-nonce-random-part-degenerate node={}", from));
                        }
                        // the counter in front of the nonce is what keeps nonces apart whatever the random
                        // part does: under one key it never comes twice
                        {
                            let ctr: [u8; 4] = p.nonce[..4].try_into().unwrap();
                            match self.key_ctr.get(&(k, ctr)) {
                                Some(n0) if *n0 != p.nonce => out.push(format!("!MON C19 message-counter-repeated-under-one-key node={} counter={}", from, u32::from_be_bytes(ctr))),
                                _ => {
                                    self.key_ctr.insert((k, ctr), p.nonce);
                                }
                            }
                        }
                        match self.ledger.key_nonce.get(&(k, p.nonce)) {
                            Some(h0) if *h0 != h => {
                                out.push(format!("!MON C19 nonce-reused-under-key node={}", from));
                                // (C02: two different datagrams under one key and nonce give whoever saw both
                                // the authentication key of that nonce - it can then make up messages of this peer)
                                out.push(format!("!MON C02 nonce-reused-under-key-messages-can-be-forged node={}", from));
                            }
                            _ => {
                                self.ledger.key_nonce.insert((k, p.nonce), h);
                            }
                        }
                        break;
                    }
                }
                // a message under no known key: the node has no session with that peer (any more)
                if matches!(p.kind, PacketKind::Message { .. }) && self.last_emit_sessionless(p.nonce, &p.message, &aad) {
                    let fresh_bytes = !self.wire.iter().any(|w| w.from_idx == from && w.bytes == bytes);
                    if let (Some(d), true) = (self.wire_dst_hint, fresh_bytes) {
                        self.entry_lo.remove(&(from, d, dst_idx));
                        if let Some(lo) = self.entry_lo_obs.remove(&(from, d, dst_idx)) {
                            if !self.entry_dirty.contains(&(from, d)) && self.ttl_ms >= 86_400_000 {
                                // it was evicted when the node made room for a new session: at one of the moments
                                // since its last certain use at which the node may have created one
                                let cmax = self.create_log.iter().filter(|(n, c)| *n == from && *c > lo).map(|(_, c)| *c).max();
                                if let Some(cmax) = cmax {
                                    // latest possible use of every other entry up to the last such moment
                                    let mut hib: HashMap<SocketAddr, u64> = HashMap::new();
                                    for (n, a, t) in &self.use_log {
                                        if *n == from && *a != d && *t <= cmax {
                                            let e = hib.entry(*a).or_insert(0);
                                            if *t > *e { *e = *t; }
                                        }
                                    }
                                    // an entry that was certainly used less recently and was still sealed under,
                                    // with its old key, after that moment survived the eviction
                                    for (n, a, di, key, t) in &self.seal_log {
                                        if *n == from && *a != d && *t > cmax
                                            && self.key_born_obs.get(key).map(|b| *b < lo).unwrap_or(false)
                                            && hib.get(a).map(|h| *h < lo).unwrap_or(false)
                                        {
                                            out.push(format!("!MON C15 session-dropped-while-a-less-recently-used-one-was-kept node={} dropped={} kept={}", from, dst_idx, di));
                                            break;
                                        }
                                    }
                                    self.vanished.push((from, d, dst_idx, lo, hib));
                                }
                            }
                        }
                        self.entry_dirty.remove(&(from, d));
                    }
                }
            }
        }
    }

    fn last_emit_sessionless(&self, nonce: [u8; 12], message: &[u8], aad: &[u8]) -> bool {
        !self.keys.iter().any(|(k, _)| hf::aead_decrypt(k, nonce, message, aad).is_some())
    }

    /// C01: an effect attributed to `claimed` at node `at` needs a handshake genuinely signed by
    /// the key whose hash is `claimed` over a challenge `at` issued (responder path), or `at` itself
    /// dialled that record (initiator path: it then holds keys only the owner can use).
    fn mon_identity(&mut self, at: u64, claimed: &NodeId, addr: SocketAddr, responder_path: bool, what: &str, out: &mut Vec<String>) {
        let c = self.id_idx(claimed);
        if c == ATTACKER || c == 0 {
            return; // the attacker owns its own identity
        }
        if !responder_path {
            return;
        }
        // did node `c` ever sign a challenge issued by `at`?  (cd names of `at` are at*10^6+k)
        let ok_resp = self.ledger.honest_sigs.iter().any(|(s, cd, d)| *s == c && cd / 1_000_000 == at && *d == at);
        // initiator path: `at` itself answered a WHOAREYOU for a request it sent to `c`; the
        // session keys then come from an ECDH with c's static public key
        let ok_init = self.ledger.honest_sigs.iter().any(|(s, _, d)| *s == at && *d == c);
        if !ok_resp && !ok_init {
            out.push(format!("!MON C01 attributed-without-proof node={} claimed={} addr={} effect={}", at, c, addr, what));
        }
    }

    /// C03: a handshake is accepted only against a challenge this node issued, not yet consumed and
    /// not older than the challenge timeout.
    fn mon_fresh_challenge(&mut self, at: u64, out: &mut Vec<String>) {
        let Some(cd) = self.last_sig_cd else {
            out.push(format!("!MON C03 handshake-accepted-without-known-challenge node={}", at));
            return;
        };
        match self.ledger.outstanding_chal.remove(&(at, cd)) {
            None => {
                out.push(format!("!MON C03 handshake-accepted-for-consumed-or-foreign-challenge node={} cd={}", at, cd));
                // (C01: an identity counts as proven only against a fresh challenge of this node)
                out.push(format!("!MON C01 identity-accepted-without-fresh-challenge node={} cd={}", at, cd));
            }
            Some((armed_at, _, chal_addr)) => {
                // the challenge went to one address; only a handshake from there answers it
                if let Some(from) = self.cur_from {
                    if from != chal_addr {
                        out.push(format!("!MON C03 handshake-accepted-from-unchallenged-address node={} challenged={} from={}", at, chal_addr, from));
                        out.push(format!("!MON C01 identity-accepted-from-unchallenged-address node={} challenged={} from={}", at, chal_addr, from));
                    }
                }
                // a handshake with a bad signature legitimately re-arms the challenge timer: `armed_at`
                // is refreshed whenever any handshake for that node address is delivered (see `hdel`)
                if self.now_ms > armed_at + self.timeout_ms + 2 {
                    out.push(format!("!MON C03 handshake-accepted-after-challenge-expiry node={} age_ms={}", at, self.now_ms - armed_at));
                }
            }
        }
    }

    /// C02: session keys are bound to the address the handshake went through.  A datagram that opens
    /// under a key but arrives from another address never yields a delivered message.
    fn mon_session_address(&mut self, at: u64, kind: &str, out: &mut Vec<String>) {
        let (Some(from), Some(k)) = (self.cur_from, self.cur_key) else { return };
        match self.key_addrs.get(&(at, k)) {
            Some(addrs) if addrs.contains(&from) => {}
            Some(addrs) => out.push(format!(
                "!MON C02 delivered-from-address-foreign-to-the-session node={} kind={} from={} session-at={:?}", at, kind, from, addrs)),
            None => out.push(format!("!MON C02 delivered-under-key-of-no-session-of-this-node node={} kind={} from={}", at, kind, from)),
        }
    }

    /// C02: a delivered message must be byte-identical to one sealed for a session of that peer.
    fn mon_authentic(&mut self, at: u64, na: &NodeAddress, encoded: &[u8], out: &mut Vec<String>) {
        let c = self.id_idx(&na.node_id);
        let sealers: Vec<u64> = self.ledger.sealed.iter().filter(|((_, pt), _)| pt == encoded).map(|(_, who)| *who).collect();
        if sealers.is_empty() {
            out.push(format!("!MON C02 delivered-message-never-sealed node={} from={}", at, c));
            out.push(format!("!MON C01 message-attributed-to-a-peer-that-never-sealed-it node={} claimed={}", at, c));
        } else if !sealers.contains(&c) {
            out.push(format!("!MON C02 delivered-message-not-sealed-by-claimed-peer node={} claimed={} sealed-by={:?}", at, c, sealers));
            out.push(format!("!MON C01 message-attributed-to-a-peer-that-never-sealed-it node={} claimed={} sealed-by={:?}", at, c, sealers));
        }
    }

    /// C13: exemptions = outstanding requests + outstanding challenges, per address.
    fn mon_exempt(&mut self, ni: usize, out: &mut Vec<String>) {
        let idx = self.nodes[ni].idx;
        let map: HashMap<SocketAddr, usize> = self.nodes[ni].wire.expected_responses.read().clone();
        let mut want: HashMap<SocketAddr, usize> = HashMap::new();
        for ((n, _), l) in self.ledger.reqs.iter() {
            if *n == idx && !l.done && l.failures == 0 && l.sent_at != u64::MAX {
                if let Some(a) = self.nodes.iter().find(|x| x.idx == l.to).map(|x| x.addr) {
                    *want.entry(a).or_insert(0) += 1;
                }
            }
        }
        // internal requests and queued requests are not visible to the ledger: only the safe
        // direction is monitored — no exemption may exist for an address with nothing outstanding
        // once the node is quiescent (checked by the `hquiet` op), and never a zero entry.
        for (a, n) in &map {
            if *n == 0 {
                out.push(format!("!MON C13 zero-entry addr={}", a));
            }
        }
        // under-count: every external request seen on the wire and not yet terminated is an
        // outstanding item towards its peer's address
        let mut on_wire: HashMap<SocketAddr, usize> = HashMap::new();
        for ((n, _), l) in self.ledger.reqs.iter() {
            if *n == idx && l.on_wire && !l.done && l.failures == 0 {
                if let Some(a) = self.nodes.iter().find(|x| x.idx == l.to).map(|x| x.addr) {
                    *on_wire.entry(a).or_insert(0) += 1;
                }
            }
        }
        // ... and so is a challenge of this node that cannot have expired yet (a full timeout has not
        // passed since the earliest moment it can have gone out) and that no handshake from that address
        // can have consumed
        let mut chal_addrs: Vec<SocketAddr> = Vec::new();
        for ((n, _), (lo, a)) in self.chal_issued.iter() {
            if *n != idx || self.now_ms + 5 >= *lo + self.timeout_ms {
                continue;
            }
            if self.hs_delivered.get(&(idx, *a)).map(|t| *t >= *lo).unwrap_or(false) {
                continue;
            }
            if !chal_addrs.contains(a) {
                chal_addrs.push(*a);
            }
        }
        for a in chal_addrs {
            *on_wire.entry(a).or_insert(0) += 1;
        }
        for (a, w) in on_wire {
            let have = map.get(&a).copied().unwrap_or(0);
            if have < w {
                out.push(format!("!MON C13 fewer-exemptions-than-outstanding-requests node={} addr={} have={} outstanding>={}", idx, a, have, w));
            }
        }
        let _ = want;
    }
}

impl Runner for HandlerRunner {
    fn reset(&mut self) {
        // dropping the runtime stops all handler tasks
        self.nodes.clear();
        let rt = self.rt.take();
        drop(rt);
        *self = HandlerRunner::default();
    }

    fn step(&mut self, line: &str, out: &mut Vec<String>, stats: &mut Stats) {
        let t: Vec<&str> = line.split(' ').collect();
        match t.as_slice() {
            ["hworld", n, retries, timeout_ms, cap, ttl_ms, ..] => {
                // optional 7th token: per-node record mode, one digit per node: 0 = record advertises
                // the node's real socket, 1 = same IP but another port, 2 = no UDP socket at all,
                // 3 = another IP
                // a token `v6` anywhere behind: every node lives at an IPv6 address
                let v6 = t.iter().skip(6).any(|x| *x == "v6");
                let modes: Vec<u8> = t.get(6).filter(|m| m.bytes().all(|b| b.is_ascii_digit())).map(|m| m.bytes().map(|b| b.wrapping_sub(b'0')).collect()).unwrap_or_default();
                self.reset();
                V6_WORLD.store(v6, Ordering::Relaxed);
                let mapped = v6 && t.iter().skip(6).any(|x| *x == "m6");
                MAPPED_WORLD.store(mapped, Ordering::Relaxed);
                if v6 { stats.bump("h.world.v6"); }
                if mapped { stats.bump("h.world.v6-mapped-hosts"); }
                let n: u64 = n.parse().unwrap_or(2);
                self.retries = retries.parse().unwrap_or(1);
                self.timeout_ms = timeout_ms.parse().unwrap_or(400);
                let cap: usize = cap.parse().unwrap_or(1000);
                self.cap = cap;
                let ttl_ms: u64 = ttl_ms.parse().unwrap_or(86_400_000);
                self.ttl_ms = ttl_ms;
                let rt = tokio::runtime::Builder::new_current_thread().enable_all().start_paused(true).build().unwrap();
                let mut ops = Vec::new();
                for idx in 1..=n {
                    let key = key_of_idx(idx);
                    let addr = node_addr(idx);
                    let ip = addr.ip();
                    let mode = modes.get(idx as usize - 1).copied().unwrap_or(0);
                    let other_ip: IpAddr = if v6 { Ipv6Addr::new(0xfd00, 0, 0, 1, 0, 0, 0, idx as u16).into() } else { Ipv4Addr::new(10, 0, 1, idx as u8).into() };
                    let adv: Option<SocketAddr> = match mode {
                        1 => Some(SocketAddr::new(ip, addr.port() + 100)),
                        2 => None,
                        3 => Some(SocketAddr::new(other_ip, addr.port())),
                        _ => Some(addr),
                    };
                    let (a4, mut a6) = adv_of(adv);
                    // mode 4 (IPv4 worlds): the record also advertises an IPv6 socket
                    let dual = mode == 4 && !v6;
                    if dual {
                        if let SocketAddr::V6(s6) = alt6(idx) { a6 = Some((*s6.ip(), s6.port())); }
                    }
                    let enr = make_enr(&key, 1, a4, a6, 0);
                    self.ids.insert(enr.node_id(), idx);
                    // address registry: index == node idx
                    while self.addrs.len() <= ATTACKER as usize {
                        let k = self.addrs.len() as u64;
                        self.addrs.push(node_addr(if k == 0 { 200 } else { k }));
                    }
                    let listen = match ip {
                        IpAddr::V4(ip) => ListenConfig::Ipv4 { ip, port: addr.port() },
                        IpAddr::V6(ip) => ListenConfig::Ipv6 { ip, port: addr.port() },
                    };
                    let config = ConfigBuilder::new(listen)
                        .request_retries(self.retries as u8)
                        .request_timeout(Duration::from_millis(self.timeout_ms))
                        .session_cache_capacity(cap)
                        .session_timeout(Duration::from_millis(ttl_ms))
                        .build();
                    let enr_arc = Arc::new(parking_lot::RwLock::new(enr.clone()));
                    let key_arc = Arc::new(parking_lot::RwLock::new(key_of_idx(idx)));
                    let kept_config = config.clone();
                    let kept_enr_arc = enr_arc.clone();
                    let res = rt.block_on(async {
                        let mut config = config;
                        config.executor = Some(Box::new(discv5::TokioExecutor::default()));
                        Handler::spawn_virtual(enr_arc, key_arc, config, vec![addr]).await
                    });
                    let Ok(((exit, to_handler, from_handler), wire)) = res else {
                        out.push("bad-op".into());
                        return;
                    };
                    self.nodes.push(Node {
                        idx, key, enr, addr, to_handler, from_handler, wire, _exit: exit, config: kept_config, enr_arc: Some(kept_enr_arc),
                        wru: Vec::new(), requests: Vec::new(), c_nonce: 0, c_cd: 0, c_eph: 0, c_rid: 0,
                    });
                    let un = match adv {
                        Some(a) => self.addr_idx(a).split(':').nth(1).unwrap().to_string(),
                        None => "-".to_string(),
                    };
                    let (u4, u6) = if v6 { ("-".to_string(), un) } else if dual {
                        (un, self.addr_idx(alt6(idx)).split(':').nth(1).unwrap().to_string())
                    } else { (un, "-".to_string()) };
                    ops.push(format!(
                        "hnew {} 1 {} {} {} {} 2 {}:{} {} {}",
                        idx, self.retries, self.timeout_ms, ttl_ms, cap, if v6 { 6 } else { 4 }, idx, u4, u6
                    ));
                }
                // attacker identity (its own key and record, an address of its own)
                let akey = key_of_idx(ATTACKER);
                let aaddr = node_addr(ATTACKER);
                while self.addrs.len() <= ATTACKER as usize {
                    let k = self.addrs.len() as u64;
                    self.addrs.push(node_addr(k));
                }
                let (a4, a6) = adv_of(Some(aaddr));
                let aenr = make_enr(&akey, 1, a4, a6, 0);
                self.ids.insert(aenr.node_id(), ATTACKER);
                self.attacker_key = Some(akey);
                self.attacker_enr = Some(aenr);
                let (e4, e6) = adv_of(Some(node_addr(ED_IDENTITY)));
                let eenr = make_enr(&ed_key(), 1, e4, e6, 0);
                self.ids.insert(eenr.node_id(), ED_IDENTITY);
                self.ed_enr = Some(eenr);
                self.rt = Some(rt);
                self.settle();
                out.push(format!("!OP hmulti {}", ops.join(" ;; ")));
                out.push(vec!["ok"; n as usize].join(" ;; "));
            }
            _ if self.rt.is_none() => out.push("bad-op".into()),
            _ => self.step_world(&t, out, stats),
        }
    }
}

impl HandlerRunner {
    fn node_pos(&self, idx: &str) -> Option<usize> {
        let i: u64 = idx.parse().ok()?;
        self.nodes.iter().position(|n| n.idx == i)
    }

    /// Runs one event on node `ni` (already injected), then advances virtual time by each of `dts`.
    fn finish_phases(&mut self, ni: Option<usize>, ev: Option<String>, dts: &[u64], out: &mut Vec<String>, stats: &mut Stats) {
        let mut ops = Vec::new();
        let mut replies = Vec::new();
        self.step_start_ms = self.now_ms;
        if let (Some(ni), Some(ev)) = (ni, ev) {
            self.settle();
            ops.push(format!("hev {} {}", self.nodes[ni].idx, ev));
            replies.push(self.drain(ni, out, stats));
        }
        // flags describing the delivered datagram only apply to the reaction to it, not to what
        // timers do while time passes afterwards
        self.cur_wru_foreign = false;
        self.cur_hs_unchallenged = false;
        self.cur_wru_finished = false;
        for &dt in dts {
            if dt == 0 {
                continue;
            }
            // one millisecond at a time: every timer fires at its own deadline, as in real time
            self.step_start_ms = self.now_ms;
            let rt = self.rt.as_ref().unwrap();
            rt.block_on(async {
                for _ in 0..dt {
                    tokio::time::advance(Duration::from_millis(1)).await;
                    for _ in 0..12 {
                        tokio::task::yield_now().await;
                    }
                }
            });
            self.now_ms += dt;
            self.settle();
            for ni in 0..self.nodes.len() {
                ops.push(format!("hev {} adv {}", self.nodes[ni].idx, dt));
                replies.push(self.drain(ni, out, stats));
            }
        }
        if ops.is_empty() {
            out.push("!OP hnop".into());
            out.push("-".into());
        } else {
            out.push(format!("!OP hmulti {}", ops.join(" ;; ")));
            out.push(replies.join(" ;; "));
        }
    }

    fn finish(&mut self, ni: Option<usize>, ev: Option<String>, dt: u64, out: &mut Vec<String>, stats: &mut Stats) {
        self.finish_phases(ni, ev, &[dt], out, stats)
    }

    fn step_world(&mut self, t: &[&str], out: &mut Vec<String>, stats: &mut Stats) {
        if t[0] != "hdel" {
            self.cur_from = None;
            self.cur_key = None;
            self.delivering_handshake = false;
            self.cur_src = None;
            self.cur_authentic = true;
            self.cur_wru_foreign = false;
            self.cur_hs_unchallenged = false;
            self.cur_wru_finished = false;
            self.cur_stale_authentic = None;
            self.cur_expect_resp = None;
            self.cur_wru_second = None;
        }
        match t {
            // application of node X sends a request to node Y
            ["hreq", x, y, how, rid, body] => {
                // Y = 8: the identity that only has an Ed25519 key (nobody listens at its address)
                let to_ed = *y == "8" && self.ed_enr.is_some();
                let (Some(xi), Some(yi)) = (self.node_pos(x), if to_ed { Some(usize::MAX) } else { self.node_pos(y) }) else {
                    return self.finish(None, None, 0, out, stats);
                };
                let rid: u64 = rid.parse().unwrap_or(1);
                let body: u64 = body.parse().unwrap_or(1);
                let yenr = if to_ed { self.ed_enr.clone().unwrap() } else { self.nodes[yi].enr.clone() };
                let yaddr = if to_ed { node_addr(ED_IDENTITY) } else { self.nodes[yi].addr };
                // `scoped`: the contact names the peer's IPv6 socket with an interface scope (`fe80::1%3`, the
                // way a link-local address has to be written on a multi-homed host); datagrams sent there
                // reach the peer, whose own datagrams arrive from the address without a scope
                let scoped = *how == "scoped";
                let yaddr = match (scoped, yaddr) {
                    (true, SocketAddr::V6(mut s6)) => {
                        s6.set_scope_id(3);
                        stats.bump("h.op.req-to-a-scoped-address");
                        SocketAddr::V6(s6)
                    }
                    _ => yaddr,
                };
                let contact = if *how == "enr" || scoped {
                    NodeContact::new(yenr.public_key(), yaddr, Some(yenr.clone()))
                } else {
                    NodeContact::new(yenr.public_key(), yaddr, None)
                };
                let req = Request { id: rid_bytes(rid), body: body_of(body) };
                // ledger: what node X's application seals is legitimately "sent by X"
                let xidx = self.nodes[xi].idx;
                let yidx = if to_ed { ED_IDENTITY } else { self.nodes[yi].idx };
                if to_ed { stats.bump("h.op.req-to-ed25519-identity"); }
                // (a request to a scoped address is outstanding towards that address, which is no node's own:
                // the per-address exemption count of `mon_exempt` leaves it out)
                self.ledger.reqs.insert((xidx, rid), ReqLedger { sent_at: self.now_ms, to: if scoped && yaddr.is_ipv6() { 77 } else { yidx }, ..Default::default() });
                let _ = self.nodes[xi].to_handler.send(HandlerIn::Request(contact, Box::new(req)));
                let na = format!("{}@{}", yidx, self.addr_idx(yaddr));
                let rec = if *how == "enr" { self.rec(&yenr) } else { "none".into() };
                stats.bump("h.op.req");
                self.finish(Some(xi), Some(format!("appreq {} {} {} {}{}", na, rec, rid, body, if to_ed { " nokey" } else { "" })), 1, out, stats);
            }
            // application of node X answers its Q-th who-are-you query
            ["hwru", x, q, what] => {
                let Some(xi) = self.node_pos(x) else { return self.finish(None, None, 0, out, stats) };
                let xidx0 = self.nodes[xi].idx;
                let q: usize = if *q == "next" {
                    let e = self.next_wru.entry(xidx0).or_insert(0);
                    let v = *e;
                    if v < self.nodes[xi].wru.len() { *e += 1; }
                    v
                } else { q.parse().unwrap_or(0) };
                let Some(r) = self.nodes[xi].wru.get(q).cloned() else { return self.finish(None, None, 1, out, stats) };
                let who = self.id_idx(&r.0.node_id);
                let known: Option<Enr> = match *what {
                    "none" => None,
                    "stale" => self.key_for_idx(who).map(|(k, e)| {
                        // an older record of the same node (seq 0 < current seq 1)
                        stale_of(&k, &e)
                    }),
                    _ => self.key_for_idx(who).map(|(_, e)| e),
                };
                let na = self.na(&r.0);
                let nn = self.name_nonce(&r.message_nonce(), 0);
                let rec = match &known { Some(e) => self.rec(e), None => "none".into() };
                if let Some(e) = &known {
                    self.known_seq.insert((xidx0, who, r.0.socket_addr), e.seq());
                } else {
                    self.known_seq.remove(&(xidx0, who, r.0.socket_addr));
                }
                let _ = self.nodes[xi].to_handler.send(HandlerIn::WhoAreYou(r, known));
                stats.bump("h.op.wru");
                self.finish(Some(xi), Some(format!("appwru {} {} {}", na, nn, rec)), 1, out, stats);
            }
            // application of node X answers the R-th request delivered to it
            ["hresp", x, r, kind, rest @ ..] => {
                // optional 5th token: the response carries that request id instead of the request's own
                let rid_override: Option<u64> = rest.first().and_then(|s| s.parse().ok());
                let Some(xi) = self.node_pos(x) else { return self.finish(None, None, 0, out, stats) };
                let xidx0 = self.nodes[xi].idx;
                let r: usize = if *r == "next" {
                    let e = self.next_req.entry(xidx0).or_insert(0);
                    let v = *e;
                    if v < self.nodes[xi].requests.len() { *e += 1; }
                    v
                } else if *r == "same" {
                    *self.last_req.get(&xidx0).unwrap_or(&0)
                } else { r.parse().unwrap_or(0) };
                self.last_req.insert(xidx0, r);
                let Some((na, req)) = self.nodes[xi].requests.get(r).cloned() else { return self.finish(None, None, 1, out, stats) };
                let own = self.nodes[xi].enr.clone();
                let kind: &str = if *kind == "auto" {
                    match code_of(&req.body) { 2 => "nodes1", 3 | 5 | 6 => "nodes0", 4 => "talk", _ => "pong" }
                } else { kind };
                let body = match kind {
                    "pong" => ResponseBody::Pong { enr_seq: 1, ip: "10.0.0.1".parse().unwrap(), port: std::num::NonZeroU16::new(9000).unwrap() },
                    "nodes1" => ResponseBody::Nodes { total: 1, nodes: vec![own] },
                    "nodes0" => ResponseBody::Nodes { total: 1, nodes: vec![] },
                    "nodes3" => ResponseBody::Nodes { total: 3, nodes: vec![] },
                    "nodes20" => ResponseBody::Nodes { total: 20, nodes: vec![] },
                    "nodes2" => ResponseBody::Nodes { total: 2, nodes: vec![own] },
                    "nodesbad" => ResponseBody::Nodes { total: 1, nodes: vec![self.attacker_enr.clone().unwrap()] },
                    // the (validly signed) record of some other node, which may advertise no socket
                    "nodesother" => {
                        let me = self.nodes[xi].idx;
                        let other = self.nodes.iter().find(|n| n.idx != me && n.idx != self.id_idx_ro(&na.node_id)).or_else(|| self.nodes.iter().find(|n| n.idx != me)).map(|n| n.enr.clone()).unwrap_or(own.clone());
                        ResponseBody::Nodes { total: 1, nodes: vec![other] }
                    }
                    // two records in one answer: the node's own and a (validly signed) foreign one, in
                    // either order
                    "nodesownother" | "nodesotherown" => {
                        let me = self.nodes[xi].idx;
                        let other = self.nodes.iter().find(|n| n.idx != me && n.idx != self.id_idx_ro(&na.node_id)).or_else(|| self.nodes.iter().find(|n| n.idx != me)).map(|n| n.enr.clone()).unwrap_or(own.clone());
                        let nodes = if kind == "nodesownother" { vec![own, other] } else { vec![other, own] };
                        ResponseBody::Nodes { total: 1, nodes }
                    }
                    _ => ResponseBody::Talk { response: b"y".to_vec() },
                };
                let resp = Response { id: rid_override.map(rid_bytes).unwrap_or_else(|| req.id.clone()), body };
                if rid_override.is_some() { stats.bump("h.op.resp-with-foreign-request-id"); }
                let rid = self.name_rid(resp.id.as_bytes(), 0);
                let rb = self.rb_term(&resp.body);
                let nas = self.na(&na);
                let dst_addr = na.socket_addr;
                let _ = self.nodes[xi].to_handler.send(HandlerIn::Response(na, Box::new(resp)));
                stats.bump("h.op.resp");
                let (w0, o0) = (self.wire.len(), out.len());
                self.finish(Some(xi), Some(format!("appresp {} {} {}", nas, rid, rb)), 1, out, stats);
                // C20 / C04: one response handed to the transport is one datagram at most
                let needle = format!("|resp/{}/", rid);
                let mut copies = 0;
                for k in w0..self.wire.len() {
                    let (from, dst, dst_id, bytes) = { let d = &self.wire[k]; (d.from_idx, d.dst, d.dst_id, d.bytes.clone()) };
                    if from == xidx0 && dst == dst_addr {
                        let di = self.id_idx_ro(&dst_id);
                        if self.describe(&bytes, di, xidx0, false).map(|t| t.contains(&needle)).unwrap_or(false) {
                            copies += 1;
                        }
                    }
                }
                if copies >= 2 {
                    out.insert(o0, format!("!MON C20 response-put-on-the-wire-more-than-once node={} rid={} copies={}", xidx0, rid, copies));
                    out.insert(o0, format!("!MON C04 response-put-on-the-wire-more-than-once node={} rid={} copies={}", xidx0, rid, copies));
                }
                if copies == 1 { stats.bump("h.response-sent-once"); }
                if copies == 0 {
                    if let Some(k) = self.last_seal.get(&(xidx0, dst_addr)).copied() {
                        self.withheld.push((xidx0, dst_addr, k, rid));
                    }
                    // ... or nothing that ends a session has happened since this node last sealed something
                    // for that address (no packet from there that failed to authenticate, no failed request
                    // other than a timeout - which leaves the session alone -, no expiry, no eviction)
                    let sealed_before = self.entry_lo_obs.keys().any(|(n, a, _)| *n == xidx0 && *a == dst_addr);
                    if sealed_before && rid_override.is_none() && !self.entry_dirty.contains(&(xidx0, dst_addr)) && self.ttl_ms >= 86_400_000 && self.cap >= 100 {
                        out.insert(o0, format!("!MON C20 response-withheld-although-nothing-ended-the-session node={} rid={}", xidx0, rid));
                        out.insert(o0, format!("!MON C04 response-withheld-although-nothing-ended-the-session node={} rid={}", xidx0, rid));
                    }
                }
            }
            // application of node X answers every request delivered to it and not answered yet, all at
            // once (the handler finds them queued up behind each other)
            ["hrespall", x] => {
                let Some(xi) = self.node_pos(x) else { return self.finish(None, None, 0, out, stats) };
                let xidx0 = self.nodes[xi].idx;
                let start = *self.next_req.get(&xidx0).unwrap_or(&0);
                let todo: Vec<(NodeAddress, Request)> = self.nodes[xi].requests.iter().skip(start).cloned().collect();
                if todo.is_empty() {
                    return self.finish(None, None, 1, out, stats);
                }
                self.next_req.insert(xidx0, start + todo.len());
                stats.bump("h.op.resp-burst");
                let (w0, o0) = (self.wire.len(), out.len());
                let mut evs = Vec::new();
                let mut rids = Vec::new();
                self.settle();
                for (na, req) in &todo {
                    let body = match code_of(&req.body) { 2 => ResponseBody::Nodes { total: 1, nodes: vec![self.nodes[xi].enr.clone()] }, 3 | 5 | 6 => ResponseBody::Nodes { total: 1, nodes: vec![] }, 4 => ResponseBody::Talk { response: b"y".to_vec() }, _ => ResponseBody::Pong { enr_seq: 1, ip: "10.0.0.1".parse().unwrap(), port: std::num::NonZeroU16::new(9000).unwrap() } };
                    let resp = Response { id: req.id.clone(), body };
                    let rid = self.name_rid(req.id.as_bytes(), 0);
                    let rb = self.rb_term(&resp.body);
                    let nas = self.na(na);
                    evs.push(format!("hev {} appresp {} {} {}", xidx0, nas, rid, rb));
                    rids.push((rid, na.socket_addr));
                    let _ = self.nodes[xi].to_handler.send(HandlerIn::Response(na.clone(), Box::new(resp)));
                }
                self.settle();
                let all = self.drain(xi, out, stats);
                // one reply segment per response: the i-th datagram belongs to the i-th response
                let (body, ex) = all.split_once(" ## ").map(|(a, b)| (a.to_string(), b.to_string())).unwrap_or((all.clone(), "-".into()));
                let items: Vec<&str> = if body == "-" { vec![] } else { body.split(' ').collect() };
                let mut replies: Vec<String> = Vec::new();
                if items.len() == evs.len() {
                    for it in &items { replies.push(format!("{} ## {}", it, ex)); }
                } else {
                    replies.push(format!("{} ## {}", body, ex));
                    for _ in 1..evs.len() { replies.push(format!("- ## {}", ex)); }
                }
                // C20 / C04: every response of the burst is put on the wire exactly once
                for (rid, dst_addr) in &rids {
                    let needle = format!("|resp/{}/", rid);
                    let mut copies = 0;
                    for k in w0..self.wire.len() {
                        let (from, dst, dst_id, bytes) = { let d = &self.wire[k]; (d.from_idx, d.dst, d.dst_id, d.bytes.clone()) };
                        if from == xidx0 && dst == *dst_addr {
                            let di = self.id_idx_ro(&dst_id);
                            if self.describe(&bytes, di, xidx0, false).map(|t| t.contains(&needle)).unwrap_or(false) { copies += 1; }
                        }
                    }
                    if copies != 1 && items.len() != 0 {
                        out.insert(o0, format!("!MON C20 response-of-a-burst-on-the-wire-{}-times node={} rid={}", copies, xidx0, rid));
                        out.insert(o0, format!("!MON C04 response-of-a-burst-on-the-wire-{}-times node={} rid={}", copies, xidx0, rid));
                    }
                }
                // time passes afterwards, as after every op
                let mut buf = Vec::new();
                self.finish_phases(None, None, &[1], &mut buf, stats);
                let (advop, advrep) = {
                    let mut o = String::new(); let mut r = String::new();
                    for l in &buf { if let Some(x) = l.strip_prefix("!OP hmulti ") { o = x.to_string(); } else if !l.starts_with('!') { r = l.clone(); } }
                    (o, r)
                };
                for l in buf.iter().filter(|l| l.starts_with("!MON") || l.starts_with("!INFO")) { out.push(l.clone()); }
                out.push(format!("!OP hmulti {} ;; {}", evs.join(" ;; "), advop));
                out.push(format!("{} ;; {}", replies.join(" ;; "), advrep));
            }
            // network delivers wire datagram #k: `hdel K` | `hdel K SRCADDRIDX` (spoofed source) |
            // `hdel K SRCADDRIDX TONODE` (redirected)
            ["hdel", k, rest @ ..] => {
                let k: usize = if *k == "next" {
                    let v = self.next_del;
                    if v < self.wire.len() { self.next_del += 1; }
                    v
                } else if *k == "last" {
                    self.wire.len().wrapping_sub(1)
                } else if let Some(y) = k.strip_prefix("from").and_then(|y| y.parse::<u64>().ok()) {
                    // the latest datagram node Y put on the wire (presented again)
                    self.wire.iter().rposition(|d| d.from_idx == y).unwrap_or(usize::MAX)
                } else if *k == "skip" {
                    // loss: the next datagram is never delivered
                    if self.next_del < self.wire.len() { self.next_del += 1; stats.bump("h.op.loss"); }
                    usize::MAX
                } else { k.parse().unwrap_or(usize::MAX) };
                let Some(d) = self.wire.get(k).cloned() else { return self.finish(None, None, 1, out, stats) };
                let src = match rest.first() {
                    // `20`: another port on the host the datagram originally came from
                    Some(&"20") if (1..=3).contains(&d.from_idx) => node_addr(20 + d.from_idx),
                    // `40`: the socket the original sender's record advertises (of the family it really uses)
                    Some(&"40") if (1..=3).contains(&d.from_idx) => {
                        let adv = self.nodes.iter().find(|n| n.idx == d.from_idx).and_then(|n| match n.addr {
                            SocketAddr::V4(_) => n.enr.udp4_socket().map(SocketAddr::V4),
                            SocketAddr::V6(_) => n.enr.udp6_socket().map(SocketAddr::V6),
                        });
                        adv.unwrap_or(d.src)
                    }
                    // `30`: the IPv6 socket the original sender's dual-stack record advertises
                    Some(&"30") if (1..=3).contains(&d.from_idx) => alt6(d.from_idx),
                    Some(a) if a.parse::<u64>().map(|v| (31..=39).contains(&v)).unwrap_or(false) => alt6(a.parse::<u64>().unwrap() - 30),
                    Some(a) => node_addr(a.parse().unwrap_or(9)),
                    None => d.src,
                };
                let to = match rest.get(1) {
                    Some(n) => self.node_pos(n),
                    None => {
                        // (the interface scope of an IPv6 destination is the sender's local routing hint)
                        let dst = match d.dst {
                            SocketAddr::V6(mut s6) => {
                                s6.set_scope_id(0);
                                s6.set_flowinfo(0);
                                SocketAddr::V6(s6)
                            }
                            a => a,
                        };
                        self.nodes.iter().position(|n| n.addr == dst)
                    }
                };
                let Some(ti) = to else { return self.finish(None, None, 1, out, stats) };
                let tidx = self.nodes[ti].idx;
                stats.bump("h.op.deliver");
                self.last_sig_cd = None;
                let term = self.describe(&d.bytes, tidx, d.from_idx, false);
                let hs_keys_here = self.last_hs_keys;
                self.cur_from = Some(src);
                self.cur_key = self.last_ct_key;
                self.delivering_handshake = term.as_ref().map(|t| t.starts_with("H~")).unwrap_or(false);
                self.cur_authentic = term.as_ref().map(|t| t.contains("E[")).unwrap_or(false);
                self.cur_stale_authentic = None;
                if self.cur_authentic && term.as_ref().map(|t| t.starts_with("M~")).unwrap_or(false) {
                    let now = std::time::Instant::now();
                    let born = self.cur_key.and_then(|k| self.key_born.get(&k).copied());
                    let base = match (self.entry_use.get(&(tidx, src)).copied(), born) {
                        (Some(a), Some(b)) => Some(a.max(b)),
                        (None, Some(b)) => Some(b),
                        _ => None,
                    };
                    if let Some(b) = base {
                        let idle = now.duration_since(b).as_millis() as u64;
                        if idle > self.ttl_ms.saturating_add(100) {
                            self.cur_stale_authentic = Some(idle);
                        }
                    }
                    // (sealed under a key of a session that had expired before the recipient's current one)
                    if let Some(k) = self.cur_key {
                        if self.dead_keys.contains(&(tidx, k)) {
                            stats.bump("h.message-under-keys-of-an-expired-session");
                            self.cur_stale_authentic = Some(self.ttl_ms + 101);
                        }
                    }
                    // C04: an answer that arrives in time is delivered.  Armed only when nothing can
                    // have taken the session away: the datagram comes from where the request went, is
                    // sealed with the counterpart of the key the recipient itself seals with for that
                    // peer, that session was used less than (timeout - 100 ms) ago on the real clock,
                    // nothing undecryptable arrived in between, and the cache has room for every node
                    self.cur_expect_resp = None;
                    let rid_of_resp: Option<u64> = term.as_ref().and_then(|t| {
                        t.find("resp/").and_then(|i| t[i + 5..].split('/').next().and_then(|x| x.parse::<u64>().ok()))
                    });
                    if let (Some(r), Some(k)) = (rid_of_resp, self.cur_key) {
                        let in_flight = self.ledger.reqs.get(&(tidx, r)).map(|l| !l.done && l.failures == 0 && l.on_wire && node_addr(l.to) == src).unwrap_or(false);
                        let same_session = self.key_pair.get(&k).map(|o| self.last_seal.get(&(tidx, src)) == Some(o)).unwrap_or(false);
                        let fresh = self.entry_use.get(&(tidx, src)).map(|u| (now.duration_since(*u).as_millis() as u64).saturating_add(100) < self.ttl_ms).unwrap_or(false);
                        if r < 1_000_000 && in_flight && same_session && fresh && !self.entry_dirty.contains(&(tidx, src)) && self.cap >= 4 && self.cur_stale_authentic.is_none() {
                            stats.bump("h.answer-in-time-on-a-live-session");
                            self.cur_expect_resp = Some(r);
                        }
                    }
                }
                // (a handshake datagram that answers no outstanding challenge of the recipient is dropped
                // unread: it is neither a use of a session nor something that could end one)
                let hs_unchallenged_now = self.delivering_handshake && {
                    let claimed: u64 = term.as_ref().and_then(|t| t.split('~').nth(1).and_then(|x| x.parse().ok())).unwrap_or(0);
                    let (now, timeout) = (self.now_ms, self.timeout_ms);
                    !self.ledger.outstanding_chal.iter().any(|((n, _), v)| *n == tidx && v.1 == claimed && v.2 == src && now <= v.0 + timeout + 5)
                };
                // (a message the harness can open is a use of the recipient's session only if it is sealed
                // under a key of a session the recipient itself has for that source - a handshake the
                // recipient never saw yields keys that mean nothing to it: such a message does not open)
                // (a node holds the keys of its current session and of the one before; the ledger is sure
                // of two: the counterpart of the key the node itself last sealed with for that peer, and
                // the key of the latest handshake it made or was given there.  Anything else may or may
                // not open - it is then no certain use, and may have ended the session)
                let opens_here = self.delivering_handshake
                    || self.cur_key.map(|k| {
                        let by_seal = self.last_seal.get(&(tidx, src)).and_then(|ks| self.key_pair.get(ks)).map(|o| *o == k).unwrap_or(false);
                        let by_hs = self.adopted_latest.get(&(tidx, src)).map(|a| *a == k).unwrap_or(false);
                        by_seal || by_hs
                    }).unwrap_or(false);
                if hs_unchallenged_now {
                    stats.bump("h.handshake-datagram-without-outstanding-challenge");
                } else if self.cur_authentic && opens_here {
                    self.obs += 1;
                    self.use_log.push((tidx, src, self.obs));
                    if self.delivering_handshake {
                        self.create_log.push((tidx, self.obs));
                    }
                    self.entry_use.insert((tidx, src), std::time::Instant::now());
                    // (an answer to one of the handler's own requests may end the session: record not valid)
                    let internal_answer = term.as_ref().map(|t| {
                        t.find("resp/").and_then(|i| t[i + 5..].split('/').next().and_then(|x| x.parse::<u64>().ok())).map(|r| r >= 1_000_000).unwrap_or(false)
                    }).unwrap_or(false);
                    if internal_answer {
                        self.entry_dirty.insert((tidx, src));
                    }
                } else {
                    self.entry_dirty.insert((tidx, src));
                }
                self.cur_wru_foreign = false;
                self.cur_wru_second = None;
                if let Some(tm) = &term {
                    if tm.starts_with("W~") {
                        // where did the request with the echoed nonce go?
                        if let Ok((p, _)) = packet_decode(&self.nodes[ti].enr.node_id(), ProtocolIdentity::default(), &d.bytes) {
                            let went_to: Vec<SocketAddr> = self.wire.iter().filter(|w| w.from_idx == tidx).filter(|w| {
                                packet_decode(&w.dst_id, ProtocolIdentity::default(), &w.bytes).map(|(q, _)| q.nonce == p.nonce && !matches!(q.kind, PacketKind::WhoAreYou { .. })).unwrap_or(false)
                            }).map(|w| w.dst).collect();
                            if !went_to.is_empty() && !went_to.contains(&src) {
                                self.cur_wru_foreign = true;
                            }
                            // which request is that, and does it already have its outcome?
                            let echoed: Vec<Vec<u8>> = self.wire.iter().filter(|w| w.from_idx == tidx).filter(|w| {
                                packet_decode(&w.dst_id, ProtocolIdentity::default(), &w.bytes).map(|(q, _)| q.nonce == p.nonce && !matches!(q.kind, PacketKind::WhoAreYou { .. })).unwrap_or(false)
                            }).map(|w| w.bytes.clone()).collect();
                            for wb in echoed {
                                let dsti = self.wire.iter().find(|w| w.bytes == wb).map(|w| self.id_idx_ro(&w.dst_id)).unwrap_or(0);
                                if let Some(t2) = self.describe(&wb, dsti, tidx, false) {
                                    if let Some(i) = t2.find("|req/") {
                                        if let Some(r) = t2[i + 5..].split('/').next().and_then(|x| x.parse::<u64>().ok()) {
                                            if let Some(l) = self.ledger.reqs.get(&(tidx, r)) {
                                                if l.done || l.failures > 0 {
                                                    self.cur_wru_finished = true;
                                                }
                                            }
                                            // the request has since been sealed again (for a new session) under a
                                            // fresh nonce: no request is in flight with the echoed one any more
                                            let tag = format!("|req/{}/", r);
                                            let mine: Vec<(Vec<u8>, NodeId)> = self.wire.iter().filter(|w| w.from_idx == tidx).map(|w| (w.bytes.clone(), w.dst_id)).collect();
                                            let mut current = false;
                                            for (b2, did) in mine.iter().rev() {
                                                let di = self.id_idx_ro(did);
                                                let Some(t3) = self.describe(b2, di, tidx, false) else { continue };
                                                if t3.contains(&tag) {
                                                    if let Ok((q, _)) = packet_decode(did, ProtocolIdentity::default(), b2) {
                                                        if q.nonce != p.nonce {
                                                            self.cur_wru_finished = true;
                                                            stats.bump("h.whoareyou-echoing-a-superseded-nonce");
                                                        } else {
                                                            current = true;
                                                        }
                                                    }
                                                    break;
                                                }
                                            }
                                            // a challenge for the handshake packet the request is in flight with,
                                            // from where that packet went: a request is answered with one handshake
                                            // only - this one fails it
                                            let in_flight = self.ledger.reqs.get(&(tidx, r)).map(|l| !l.done && l.failures == 0).unwrap_or(false);
                                            if current && in_flight && r < 1_000_000 && t2.starts_with("H~") && went_to.contains(&src) {
                                                self.cur_wru_second = Some(r);
                                                stats.bump("h.second-whoareyou-for-a-request-answered-with-a-handshake");
                                            }
                                        }
                                    }
                                }
                            }
                        }
                    }
                }
                self.cur_hs_unchallenged = false;
                if self.delivering_handshake {
                    self.hs_delivered.insert((tidx, src), self.now_ms);
                    let claimed: u64 = term.as_ref().and_then(|t| t.split('~').nth(1).and_then(|x| x.parse().ok())).unwrap_or(0);
                    let now = self.now_ms;
                    let timeout = self.timeout_ms;
                    // is a WHOAREYOU of this node outstanding for that node id at that source address?
                    // (generous by a few ms: the ledger's clock is not the delay queue's)
                    let challenged = self.ledger.outstanding_chal.iter().any(|((n, _), v)| *n == tidx && v.1 == claimed && v.2 == src && now <= v.0 + timeout + 5);
                    self.cur_hs_unchallenged = !challenged;
                    if challenged {
                        if let Some((k_ini, _)) = hs_keys_here {
                            // the recipient's session (if the handshake is accepted) lives at this source
                            let e = self.key_addrs.entry((tidx, k_ini)).or_default();
                            if !e.contains(&src) { e.push(src); }
                            self.adopted_latest.insert((tidx, src), k_ini);
                        }
                    }
                    for ((n, _), v) in self.ledger.outstanding_chal.iter_mut() {
                        // still alive (not expired by the ledger's clock): any handshake for that node
                        // address may re-arm it
                        if *n == tidx && v.1 == claimed && v.2 == src && now <= v.0 + timeout {
                            v.0 = now;
                        }
                    }
                }
                self.cur_src = term.as_ref().and_then(|t| {
                    let f: Vec<&str> = t.split('~').collect();
                    if f[0] == "M" || f[0] == "H" { f.get(1).and_then(|x| x.parse().ok()) } else { None }
                });
                // ledgers: a genuine signature inside this handshake? an outstanding challenge answered?
                if let Some(tm) = &term {
                    if let Some(s) = tm.split('~').nth(3) {
                        let f: Vec<&str> = s.split(':').collect();
                        if f.len() == 5 && f[0] == "S" {
                            if let (Ok(sg), Ok(cd), Ok(dst)) = (f[1].parse::<u64>(), f[2].parse::<u64>(), f[4].parse::<u64>()) {
                                if sg != 0 && sg != ATTACKER {
                                    self.ledger.honest_sigs.insert((sg, cd, dst));
                                }
                                self.last_sig_cd = Some(cd);
                            }
                        }
                    }
                }
                if let Some(tm) = &term {
                    if let Some(i) = tm.find("resp/") {
                        if let Some(r) = tm[i + 5..].split('/').next().and_then(|x| x.parse::<u64>().ok()) {
                            // (an answer of another kind than NODES leaves the handler's own request waiting)
                            let is_nodes = tm[i..].starts_with(&format!("resp/{}/nodes", r));
                            if let Some(v) = self.ledger.internal.get_mut(&(tidx, r)) {
                                if is_nodes {
                                    v.2 = true;
                                }
                            }
                        }
                    }
                }
                let wire = self.nodes[ti].wire.inject.clone();
                let bytes = d.bytes.clone();
                let rt = self.rt.as_ref().unwrap();
                rt.block_on(async { let _ = wire.send((src, bytes)).await; });
                match term {
                    Some(tm) => {
                        let a = self.addr_idx(src);
                        self.finish(Some(ti), Some(format!("dgram {} {}", a, tm)), 1, out, stats)
                    }
                    None => {
                        // not decodable under the recipient's id: never reaches the handler
                        stats.bump("h.op.deliver-undecodable");
                        self.settle();
                        let _ = self.drain(ti, out, stats);
                        self.finish(None, None, 1, out, stats)
                    }
                }
            }
            // real-time idle period (the session cache reads the real clock)
            ["hsleep", ms] => {
                let ms: u64 = ms.parse().unwrap_or(0);
                std::thread::sleep(Duration::from_millis(ms));
                stats.bump("h.op.sleep");
                if ms > self.ttl_ms {
                    self.old_keys_mark = self.keys.len();
                    self.old_wire_mark = self.wire.len();
                    stats.bump("h.op.sleep-longer-than-ttl");
                }
                let ops: Vec<String> = self.nodes.iter().map(|n| format!("hev {} rtadv {}", n.idx, ms)).collect();
                let mut replies = Vec::new();
                for ni in 0..self.nodes.len() {
                    let ex = self.exempt(ni);
                    replies.push(format!("- ## {}", ex));
                }
                out.push(format!("!OP hmulti {}", ops.join(" ;; ")));
                out.push(replies.join(" ;; "));
            }
            ["hadv", ms] => {
                let ms: u64 = ms.parse().unwrap_or(1);
                stats.bump("h.op.adv");
                self.finish(None, None, ms, out, stats);
            }
            // node X is shut down and started again from (a clone of) the configuration value it was
            // started from - what `Discv5::shutdown` followed by `Discv5::start` does
            ["hrespawn", x] => {
                if let (Some(xi), Some(rt)) = (self.node_pos(x), self.rt.as_ref()) {
                    let (enr, idx, addr) = (self.nodes[xi].enr.clone(), self.nodes[xi].idx, self.nodes[xi].addr);
                    let config = self.nodes[xi].config.clone();
                    let enr_arc = Arc::new(parking_lot::RwLock::new(enr));
                    let key_arc = Arc::new(parking_lot::RwLock::new(key_of_idx(idx)));
                    let res = rt.block_on(async {
                        let mut config = config;
                        config.executor = Some(Box::new(discv5::TokioExecutor::default()));
                        Handler::spawn_virtual(enr_arc, key_arc, config, vec![addr]).await
                    });
                    if let Ok(((exit, to_handler, from_handler), wire)) = res {
                        let n = &mut self.nodes[xi];
                        n.to_handler = to_handler;
                        n.from_handler = from_handler;
                        n.wire = wire;
                        n._exit = exit;
                        stats.bump("h.op.node-restarted");
                    }
                }
                self.finish(None, None, 1, out, stats);
            }
            // the application of node X stops / resumes reading what its handler reports (a slow consumer:
            // the bounded channel fills up; whatever the handler has to say is said once there is room)
            // the application of node X changes the local record (a field of its own; the sequence number rises)
            ["henrbump", x] => {
                if let Some(xi) = self.node_pos(x) {
                    let key = key_of_idx(self.nodes[xi].idx);
                    if let Some(arc) = self.nodes[xi].enr_arc.as_ref() {
                        let mut w = arc.write();
                        let v = w.seq();
                        let _ = w.insert("v", &v, &key);
                        stats.bump("h.op.local-record-changed");
                    }
                }
                out.push("!OP hnop".into());
                out.push("-".into());
            }
            ["hhold", x] => {
                if let Some(xi) = self.node_pos(x) {
                    let idx = self.nodes[xi].idx;
                    self.held.insert(idx);
                    stats.bump("h.op.application-stops-reading");
                }
                out.push("!OP hnop".into());
                out.push("-".into());
            }
            ["hrelease", x] => {
                if let Some(xi) = self.node_pos(x) {
                    let idx = self.nodes[xi].idx;
                    self.held.remove(&idx);
                }
                self.finish(None, None, 1, out, stats);
            }
            // attacker crafts a datagram and appends it to the wire log (delivered with `hdel`)
            ["hcraft", kind, args @ ..] => {
                stats.bump(&format!("h.op.craft.{}", kind));
                let ok = self.craft(kind, args, stats);
                if !ok {
                    stats.bump("h.op.craft-failed");
                }
                out.push("!OP hnop".into());
                out.push("-".into());
            }
            // flips one bit / truncates / extends / splices wire datagram #k into a new wire entry
            ["hmut", k, how, arg] => {
                let k: usize = if *k == "next" { self.next_del } else { k.parse().unwrap_or(usize::MAX) };
                if let Some(d) = self.wire.get(k).cloned() {
                    let mut b = d.bytes.clone();
                    let a: usize = arg.parse().unwrap_or(0);
                    match *how {
                        "flip" => { if !b.is_empty() { let i = a / 8 % b.len(); b[i] ^= 1 << (a % 8); } }
                        // one bit in the last eight bytes (the tail of the sealed message)
                        "fliptail" => { if !b.is_empty() { let n = b.len(); let i = n - 1 - (a / 8 % n.min(8)); b[i] ^= 1 << (a % 8); } }
                        "trunc" => { b.truncate(a % (b.len() + 1)); }
                        "extend" => { b.extend_from_slice(&vec![0x5a; a % 40 + 1]); }
                        "authpad" => {
                            if b.len() >= 39 {
                                let ks = keystream(&d.dst_id.raw(), &b[..16], b.len() - 16 + 64);
                                let mut un: Vec<u8> = b[16..].iter().zip(ks.iter()).map(|(x, y)| x ^ y).collect();
                                let n = u16::from_be_bytes([un[21], un[22]]) as usize;
                                if 23 + n <= un.len() {
                                    let extra = a % 7 + 1;
                                    let body = un.split_off(23 + n);
                                    let body: Vec<u8> = body.iter().zip(ks[23 + n..].iter()).map(|(x, y)| x ^ y).collect(); // body was never masked: undo
                                    un.extend(std::iter::repeat(0x41).take(extra));
                                    let sz = (n + extra) as u16;
                                    un[21] = (sz >> 8) as u8;
                                    un[22] = sz as u8;
                                    let mut nb = b[..16].to_vec();
                                    nb.extend(un.iter().zip(ks.iter()).map(|(x, y)| x ^ y));
                                    nb.extend_from_slice(&body);
                                    b = nb;
                                }
                            }
                        }
                        "splice" => {
                            // header of #k with the body of #arg
                            if let Some(o) = self.wire.get(a) {
                                let cut = 16 + 23 + 32;
                                if b.len() > cut && o.bytes.len() > cut { b.truncate(cut); b.extend_from_slice(&o.bytes[cut..]); }
                            }
                        }
                        _ => {}
                    }
                    self.wire.push(Datagram { from_idx: ATTACKER, bytes: b, ..d });
                    stats.bump("h.op.mutate");
                }
                out.push("!OP hnop".into());
                out.push("-".into());
            }
            // quiescence check: advance far beyond every timer; afterwards no exemption may remain
            ["hquiet"] => {
                let ms = self.timeout_ms * (self.retries + 2) + 50;
                stats.bump("h.op.quiet");
                let mut buf = Vec::new();
                self.finish_phases(None, None, &[ms, ms, ms], &mut buf, stats);
                for ni in 0..self.nodes.len() {
                    let left: Vec<(SocketAddr, usize)> = self.nodes[ni].wire.expected_responses.read().iter().map(|(a, n)| (*a, *n)).collect();
                    if !left.is_empty() {
                        out.push(format!("!MON C13 exemption-left-at-quiescence node={} left={:?}", self.nodes[ni].idx, left));
                        // (C18: whatever that address sends from now on passes the filter unseen - no ban, no quota)
                        out.push(format!("!MON C18 address-exempt-from-the-filter-with-nothing-outstanding node={} left={:?}", self.nodes[ni].idx, left));
                    }
                }
                // C04: every submitted request has exactly one outcome by now
                for ((n, rid), l) in self.ledger.reqs.iter() {
                    let outcomes = (l.done as u32) + l.failures;
                    if outcomes == 0 {
                        out.push(format!("!MON C04 no-outcome node={} rid={}", n, rid));
                    }
                }
                out.extend(buf);
            }
            _ => out.push("bad-op".into()),
        }
    }

    /// Attacker toolkit: appends a crafted datagram to the wire log.
    fn craft(&mut self, kind: &str, args: &[&str], stats: &mut Stats) -> bool {
        let get = |i: usize| -> u64 { args.get(i).and_then(|s| s.parse().ok()).unwrap_or(0) };
        let mut r = Rng::new(0xC4AF_7000 + self.wire.len() as u64);
        match kind {
            // hcraft random CLAIMED_SRC DST : a random packet claiming src id of node CLAIMED_SRC
            "random" => {
                let (Some((_, senr)), Some((_, denr))) = (self.key_for_idx(get(0)), self.key_for_idx(get(1))) else { return false };
                let nonce: [u8; 12] = r.bytes(12).try_into().unwrap();
                let bytes = hf::craft_message_raw(senr.node_id(), &denr.node_id(), nonce, r.bytes(44));
                let dst = node_addr(get(1));
                self.wire.push(Datagram { from_idx: ATTACKER, src: node_addr(ATTACKER), dst, dst_id: denr.node_id(), bytes });
                true
            }
            // hcraft zerokey CLAIMED_SRC DST BODY : a request claiming src id of node CLAIMED_SRC, sealed
            // under the all-zero AES key (what a wiped key slot holds) and bound to its own header
            "zerokey" => {
                let (Some((_, senr)), Some((_, denr))) = (self.key_for_idx(get(0)), self.key_for_idx(get(1))) else { return false };
                let nonce: [u8; 12] = r.bytes(12).try_into().unwrap();
                let body = Request { id: rid_bytes(800_000 + self.wire.len() as u64), body: body_of(get(2).max(1)) }.encode();
                let zero = [0u8; 16];
                let Some(bytes) = hf::craft_message(senr.node_id(), &denr.node_id(), nonce, &zero, &body) else { return false };
                // whoever seals under a key nobody negotiated is the attacker
                self.ledger.sealed.entry((zero, body)).or_insert(ATTACKER);
                stats.bump("h.craft.zero-key-message");
                let dst = node_addr(get(1));
                self.wire.push(Datagram { from_idx: ATTACKER, src: node_addr(get(0)), dst, dst_id: denr.node_id(), bytes });
                true
            }
            // hcraft otherid CLAIMED_SRC REAL DST BODY : node REAL, which has a session with DST, sends a
            // request from its own socket, sealed under its own session key, with the id of CLAIMED_SRC in
            // the header (a session belongs to a node id *and* a socket: this is a packet from a stranger)
            "otherid" => {
                let (Some((_, cenr)), Some((_, denr))) = (self.key_for_idx(get(0)), self.key_for_idx(get(2))) else { return false };
                let dst = node_addr(get(2));
                let Some(k) = self.last_seal.get(&(get(1), dst)).copied() else { return false };
                let nonce: [u8; 12] = r.bytes(12).try_into().unwrap();
                let body = Request { id: rid_bytes(700_000 + self.wire.len() as u64), body: body_of(get(3).max(1)) }.encode();
                let Some(bytes) = hf::craft_message(cenr.node_id(), &denr.node_id(), nonce, &k, &body) else { return false };
                self.ledger.sealed.entry((k, body)).or_insert(get(1));
                stats.bump("h.craft.message-under-own-session-with-another-id");
                self.wire.push(Datagram { from_idx: ATTACKER, src: node_addr(get(1)), dst, dst_id: denr.node_id(), bytes });
                true
            }
            // hcraft whoareyou DST ECHO_WIRE_K ENRSEQ : a WHOAREYOU echoing the nonce of wire datagram K
            "whoareyou" => {
                let Some((_, denr)) = self.key_for_idx(get(0)) else { return false };
                // `r`: the latest datagram emitted by DST (an in-flight request of DST, usually)
                let k = if args.get(1) == Some(&"r") {
                    self.wire.iter().rposition(|d| d.from_idx == get(0)).unwrap_or(usize::MAX)
                } else if let Some(nth) = args.get(1).and_then(|a| a.strip_prefix('r')).and_then(|a| a.parse::<usize>().ok()) {
                    // `rN`: the N-th latest datagram emitted by DST (`r1` = `r`)
                    self.wire.iter().enumerate().filter(|(_, d)| d.from_idx == get(0)).map(|(i, _)| i).rev().nth(nth.max(1) - 1).unwrap_or(usize::MAX)
                } else if args.get(1) == Some(&"h") {
                    // `h`: the latest *handshake* emitted by DST
                    self.wire.iter().rposition(|d| d.from_idx == get(0) && packet_decode(&d.dst_id, ProtocolIdentity::default(), &d.bytes)
                        .map(|(q, _)| matches!(q.kind, PacketKind::Handshake { .. })).unwrap_or(false)).unwrap_or(usize::MAX)
                } else { get(1) as usize };
                let Some(d) = self.wire.get(k).cloned() else { return false };
                let Ok((p, _)) = packet_decode(&d.dst_id, ProtocolIdentity::default(), &d.bytes) else { return false };
                let idn: [u8; 16] = r.bytes(16).try_into().unwrap();
                let (bytes, _cd) = hf::craft_whoareyou(&denr.node_id(), p.nonce, idn, get(2));
                // by default it appears to come from where the echoed datagram went
                self.wire.push(Datagram { from_idx: ATTACKER, src: d.dst, dst: node_addr(get(0)), dst_id: denr.node_id(), bytes });
                true
            }
            // hcraft handshake CLAIMED_SRC SIGNER DST CHAL_WIRE_K REC BODY
            //   REC: none | own (attacker's record) | of:IDX (genuine record of node IDX) | stale:IDX
            "handshake" => {
                let raw_sig: Option<Vec<u8>> = match args.get(1).copied() {
                    Some("empty") => Some(Vec::new()),
                    Some("garbage") => Some(r.bytes(64)),
                    Some("short") => Some(r.bytes(10)),
                    _ => None,
                };
                // a genuine proof of node IDX that was not made for this verifier: `for:IDX:J` - what IDX signs
                // when it answers the same challenge data relayed to it by node J (the destination id in the
                // signed text is J's); `draft:IDX` - the same without any destination id (an early draft of the
                // protocol).  The relaying party holds no key; the message body is noise.
                let elsewhere: Option<(u64, Option<u64>)> = match args.get(1).copied() {
                    Some(s) if s.starts_with("draft:") => Some((s[6..].parse().unwrap_or(0), None)),
                    Some(s) if s.starts_with("for:") => {
                        let f: Vec<&str> = s[4..].split(':').collect();
                        Some((f.first().and_then(|v| v.parse().ok()).unwrap_or(0), Some(f.get(1).and_then(|v| v.parse().ok()).unwrap_or(ATTACKER))))
                    }
                    _ => None,
                };
                let signer_idx = if raw_sig.is_some() { ATTACKER } else if let Some((si, _)) = elsewhere { si } else { get(1) };
                let (Some((_, senr)), Some((skey, _)), Some((_, denr))) =
                    (self.key_for_idx(get(0)), self.key_for_idx(signer_idx), self.key_for_idx(get(2))) else { return false };
                // `w`: the latest WHOAREYOU emitted by DST
                let k = if args.get(3) == Some(&"w") {
                    self.wire.iter().rposition(|d| d.from_idx == get(2) && packet_decode(&d.dst_id, ProtocolIdentity::default(), &d.bytes)
                        .map(|(q, _)| matches!(q.kind, PacketKind::WhoAreYou { .. })).unwrap_or(false)).unwrap_or(usize::MAX)
                } else { get(3) as usize };
                let Some(d) = self.wire.get(k).cloned() else { return false };
                // challenge data = authenticated data of that WHOAREYOU as its recipient sees it
                let Ok((p, aad)) = packet_decode(&d.dst_id, ProtocolIdentity::default(), &d.bytes) else { return false };
                if !matches!(p.kind, PacketKind::WhoAreYou { .. }) {
                    return false;
                }
                let rec: Option<Enr> = match args.get(4).copied().unwrap_or("none") {
                    "none" => None,
                    "own" => self.attacker_enr.clone(),
                    "ed" => self.ed_enr.clone(),
                    s if s.starts_with("of:") => self.key_for_idx(s[3..].parse().unwrap_or(0)).map(|x| x.1),
                    s if s.starts_with("stale:") => self.key_for_idx(s[6..].parse().unwrap_or(0)).map(|(k, e)| {
                        stale_of(&k, &e)
                    }),
                    _ => None,
                };
                let body = Request { id: rid_bytes(900_000 + self.wire.len() as u64), body: body_of(get(5).max(1)) }.encode();
                let nonce: [u8; 12] = r.bytes(12).try_into().unwrap();
                if let Some((_, for_whom)) = elsewhere {
                    use discv5::enr::k256::ecdsa::signature::DigestSigner;
                    use discv5::enr::{EnrKey, EnrPublicKey};
                    use discv5::enr::k256::sha2::{Digest, Sha256};
                    let CombinedKey::Secp256k1(sk) = &skey else { return false };
                    let eph = CombinedKey::generate_secp256k1().public().encode();
                    let mut m = b"discovery v5 identity proof".to_vec();
                    m.extend_from_slice(&aad);
                    m.extend_from_slice(&eph);
                    if let Some(j) = for_whom {
                        let Some((_, jenr)) = self.key_for_idx(j) else { return false };
                        if jenr.node_id() == denr.node_id() {
                            return false;
                        }
                        m.extend_from_slice(&jenr.node_id().raw());
                    }
                    let Ok(sig): Result<discv5::enr::k256::ecdsa::Signature, _> = sk.try_sign_digest(Sha256::new().chain_update(&m)) else { return false };
                    let iv = u128::from_be_bytes(r.bytes(16).try_into().unwrap());
                    let bytes = hf::reencode(
                        &denr.node_id(),
                        iv,
                        nonce,
                        PacketKind::Handshake { src_id: senr.node_id(), id_nonce_sig: sig.to_vec(), ephem_pubkey: eph.to_vec(), enr_record: rec },
                        r.bytes(40),
                    );
                    stats.bump("h.craft.handshake-with-a-proof-made-for-somebody-else");
                    self.wire.push(Datagram { from_idx: ATTACKER, src: node_addr(ATTACKER), dst: node_addr(get(2)), dst_id: denr.node_id(), bytes });
                    return true;
                }
                let crafted = match raw_sig {
                    // an id-signature that is not the output of any signing operation
                    Some(sig) => {
                        stats.bump("h.craft.handshake-malformed-signature");
                        hf::craft_handshake_raw_sig(senr.node_id(), &denr, &aad, rec, nonce, &body, sig)
                    }
                    None => hf::craft_handshake(senr.node_id(), &skey, &denr, &aad, rec, nonce, &body),
                };
                let Some((bytes, keys, _eph)) = crafted else { return false };
                // the attacker knows the keys it derived; what it seals is recorded as sealed by it
                // whoever holds the signing key is the sealing party
                self.ledger.sealed.entry((keys.initiator_key, body)).or_insert(signer_idx);
                stats.bump("h.craft.handshake-built");
                self.wire.push(Datagram { from_idx: ATTACKER, src: node_addr(ATTACKER), dst: node_addr(get(2)), dst_id: denr.node_id(), bytes });
                true
            }
            _ => false,
        }
    }
}

// ---------------------------------------------------------------------------------------------
// generator

pub fn gen_case(rng: &mut Rng, tier: &str, profile: &str, stats: &mut Stats) -> Vec<String> {
    let mut ops = Vec::new();
    let n = rng.range(2, 3);
    let retries = rng.range(1, 2);
    let c15 = profile == "C15";
    // C15: the session timeout (300 ms, real time) is deliberately shorter than the request timeout
    let timeout = if c15 { 1000 } else { 400 };
    let dual_redirect = (profile == "C02" || profile == "C01" || profile == "C03") && rng.chance(1, 6);
    // every record advertises another port than the one its node really uses (as behind a NAT)
    let nat_replay = !dual_redirect && (profile == "C01" || profile == "C03" || profile == "C02") && rng.chance(1, 6);
    if profile == "C03" && !dual_redirect && !nat_replay && rng.chance(1, 10) {
        // directed case: two requests in flight on a session, the peer challenges the first (it lost its
        // keys); the second is sealed again for the new session.  A challenge that echoes the nonce the
        // second one had before answers no request in flight
        stats.bump("gen.cases.directed-whoareyou-for-superseded-nonce");
        let x = rng.range(1, n);
        let y = if x == 1 { 2 } else { 1 };
        ops.push(format!("hworld {} {} {} 1000 86400000", n, retries, timeout));
        ops.push(format!("hreq {} {} enr 1 1", x, y));
        for _ in 0..2 { ops.push("hdel next".into()); }
        ops.push(format!("hwru {} next known", y));
        for _ in 0..3 { ops.push("hdel next".into()); }
        ops.push(format!("hresp {} next auto", y));
        ops.push("hdel next".into());
        ops.push(format!("hreq {} {} enr 2 {}", x, y, rng.range(1, 4)));
        ops.push(format!("hreq {} {} enr 3 {}", x, y, rng.range(1, 4)));
        if rng.chance(1, 2) { for _ in 0..2 { ops.push("hdel next".into()); } } else { for _ in 0..2 { ops.push("hdel skip".into()); } }
        ops.push(format!("hcraft whoareyou {} r2 {}", x, rng.below(2)));
        ops.push("hdel last".into());
        ops.push(format!("hcraft whoareyou {} r3 {}", x, rng.below(2)));
        ops.push("hdel last".into());
        if rng.chance(1, 2) {
            // (and the one of the first request, now answered by a handshake, once more)
            ops.push(format!("hcraft whoareyou {} r4 0", x));
            ops.push("hdel last".into());
        }
        for _ in 0..rng.range(0, 6) { ops.push("hdel next".into()); }
        ops.push("hquiet".into());
        return ops;
    }
    if profile == "C03" && !dual_redirect && !nat_replay && rng.chance(1, 8) {
        // directed case: a request was answered with a handshake (which got lost); the session that
        // handshake made is pushed out of a cache of one by a session with somebody else; the request is
        // retransmitted; a WHOAREYOU for the retransmission is the second one for that request: it
        // fails the request, it does not get a second handshake
        stats.bump("gen.cases.directed-second-whoareyou-after-the-session-was-evicted");
        let x = rng.range(1, 3);
        let (y, z) = match x { 1 => (2, 3), 2 => (3, 1), _ => (1, 2) };
        ops.push("hworld 3 2 400 1 86400000".to_string());
        ops.push(format!("hreq {} {} enr 1 {}", x, y, rng.range(1, 4)));
        ops.push("hdel next".into());
        ops.push(format!("hwru {} next known", y));
        ops.push("hdel next".into());
        ops.push("hdel skip".into());
        ops.push(format!("hreq {} {} enr 2 1", x, z));
        ops.push("hdel next".into());
        ops.push(format!("hwru {} next known", z));
        for _ in 0..2 { ops.push("hdel next".into()); }
        ops.push(format!("hresp {} next auto", z));
        ops.push("hdel next".into());
        ops.push("hadv 401".into());
        ops.push(format!("hcraft whoareyou {} r 0", x));
        ops.push("hdel last".into());
        ops.push("hquiet".into());
        return ops;
    }
    if profile == "C13" && rng.chance(1, 8) {
        // directed case: a node with a session cache of two is made to challenge three (or four)
        // strangers at once; every challenge stays unanswered and expires: no exemption is left
        stats.bump("gen.cases.directed-more-challenges-than-the-session-cache-holds");
        ops.push(format!("hworld 3 1 400 {} 86400000", rng.range(1, 2)));
        let x = rng.range(1, 3);
        let mut sources: Vec<u64> = (1..=3).filter(|y| *y != x).collect();
        sources.push(9);
        for y in sources {
            ops.push(format!("hcraft random {} {}", y, x));
            ops.push(format!("hdel last {}", y));
            ops.push("hdel skip".into());
            ops.push(format!("hwru {} next {}", x, if rng.chance(1, 2) { "none" } else { "known" }));
            if rng.chance(1, 3) { ops.push("hadv 50".into()); }
        }
        ops.push("hquiet".into());
        return ops;
    }
    if profile == "C13" && rng.chance(1, 8) {
        // directed case: a request to a silent peer is about to time out when that peer's own (undecryptable)
        // packet makes this node challenge it; the request's failure releases the request's exemption,
        // the challenge keeps its own until it is answered or expires
        stats.bump("gen.cases.directed-timeout-while-own-challenge-outstanding");
        let x = rng.range(1, n);
        let y = if x == 1 { 2 } else { 1 };
        let r = rng.range(1, 2);
        ops.push(format!("hworld {} {} 400 1000 86400000", n, r));
        ops.push(format!("hreq {} {} enr 1 {}", x, y, rng.range(1, 4)));
        ops.push("hdel skip".into());
        ops.push(format!("hadv {}", (r - 1) * 400 + rng.range(120, 200)));
        if r == 2 { ops.push("hdel skip".into()); }
        ops.push(format!("hcraft random {} {}", y, x));
        ops.push(format!("hdel last {}", y));
        ops.push("hdel skip".into());
        ops.push(format!("hwru {} next {}", x, if rng.chance(1, 2) { "known" } else { "none" }));
        ops.push("hdel skip".into());
        ops.push(format!("hadv {}", rng.range(230, 300)));
        ops.push("hadv 60".into());
        ops.push("hadv 300".into());
        ops.push("hquiet".into());
        return ops;
    }
    if nat_replay {
        // directed case: the handshake of such a node is accepted (signature good, record does not
        // verify against the observed socket) and is then presented again, and again
        stats.bump("gen.cases.directed-replay-after-unverifiable");
        let x = rng.range(1, n);
        let y = if x == 1 { 2 } else { 1 };
        ops.push(format!("hworld {} {} {} 1000 86400000 {}", n, retries, timeout, "1".repeat(n as usize)));
        ops.push(format!("hreq {} {} enr 1 {}", x, y, rng.range(1, 4)));
        ops.push("hdel next".into());
        ops.push(format!("hwru {} next {}", y, if rng.chance(1, 2) { "none" } else { "stale" }));
        ops.push("hdel next".into());
        ops.push("hdel next".into());
        ops.push("hdel 2".into());
        if rng.chance(1, 2) { ops.push("hadv 30".into()); ops.push("hdel 2".into()); }
        for _ in 0..rng.range(0, 6) { ops.push("hdel next".into()); }
        if rng.chance(2, 3) {
            // a later, genuine datagram of that node is presented from the socket its record advertises
            // (where it does not live) before it arrives from where it does
            ops.push(format!("hreq {} {} enr 2 {}", x, y, rng.range(1, 4)));
            ops.push("hdel last 40".into());
            ops.push("hdel last".into());
        }
        ops.push("hquiet".into());
        return ops;
    }
    if c15 && rng.chance(1, 4) {
        // directed case: a cache of two, both sessions in use, the less recently used one still awaited
        // an answer on; a third peer connects: the less recently used session is the one that goes
        stats.bump("gen.cases.c15-eviction-with-request-in-flight");
        let x = rng.range(1, 3);
        let (y, z) = match (x, rng.chance(1, 2)) { (1, true) => (2, 3), (1, false) => (3, 2), (2, true) => (1, 3), (2, false) => (3, 1), (_, true) => (1, 2), _ => (2, 1) };
        ops.push(format!("hworld 3 {} {} 2 86400000", retries, timeout));
        let mut rid = 1u64;
        for p in [y, z] {
            ops.push(format!("hreq {} {} enr {} 1", x, p, rid)); rid += 1;
            for _ in 0..2 { ops.push("hdel next".into()); }
            ops.push(format!("hwru {} next known", p));
            for _ in 0..3 { ops.push("hdel next".into()); }
            ops.push(format!("hresp {} next auto", p));
            ops.push("hdel next".into());
        }
        // (variant: the older session is the one used last after all - by answering a request of that
        // peer which arrived before the other session's traffic: sealing an answer is a use)
        let answer_late = rng.chance(1, 2);
        if answer_late {
            stats.bump("gen.cases.c15-eviction-after-late-answer");
            ops.push(format!("hreq {} {} enr {} {}", y, x, rid, rng.range(1, 4))); rid += 1;
            ops.push("hdel next".into());
        } else {
            ops.push(format!("hreq {} {} enr {} {}", x, y, rid, rng.range(1, 4))); rid += 1;
            ops.push("hdel next".into());
        }
        for _ in 0..rng.range(1, 2) {
            ops.push(format!("hreq {} {} enr {} {}", x, z, rid, rng.range(1, 4))); rid += 1;
            ops.push("hdel next".into());
            ops.push(format!("hresp {} next auto", z));
            ops.push("hdel next".into());
        }
        if answer_late {
            ops.push(format!("hresp {} next auto", x));
            ops.push("hdel next".into());
        }
        ops.push(format!("hcraft random 9 {}", x));
        ops.push("hdel last 9".into());
        ops.push("hdel skip".into());
        ops.push(format!("hwru {} next none", x));
        ops.push("hdel next".into());
        ops.push(format!("hcraft handshake 9 9 {} w own 1", x));
        ops.push("hdel last 9".into());
        ops.push("hdel skip".into());
        for _ in 0..2 { ops.push("hdel next".into()); }
        for p in [z, y] {
            ops.push(format!("hreq {} {} enr {} 1", x, p, rid)); rid += 1;
            for _ in 0..2 { ops.push("hdel next".into()); }
            ops.push(format!("hwru {} next known", p));
            for _ in 0..3 { ops.push("hdel next".into()); }
        }
        ops.push("hquiet".into());
        return ops;
    }
    if c15 && rng.chance(1, 5) {
        // directed case: a session and this node's own unanswered challenge for the same peer exist side by
        // side (the peer's stray packet was reported to the application before the session came about, the
        // WHOAREYOU went out after); a request made meanwhile only queues up - that is no use of the
        // session, which is gone once the timeout has passed since the last exchange
        stats.bump("gen.cases.c15-queued-request-is-no-use-of-the-session");
        let x = rng.range(1, 2);
        let y = 3 - x;
        ops.push(format!("hworld 2 1 1000 {} 300", rng.range(2, 3)));
        ops.push(format!("hcraft random {} {}", y, x));
        ops.push(format!("hdel last {}", y));
        ops.push("hdel skip".into());
        ops.push(format!("hreq {} {} enr 1 1", x, y));
        for _ in 0..2 { ops.push("hdel next".into()); }
        ops.push(format!("hwru {} next known", y));
        for _ in 0..3 { ops.push("hdel next".into()); }
        ops.push(format!("hresp {} next auto", y));
        ops.push("hdel next".into());
        ops.push(format!("hwru {} next known", x));
        ops.push("hdel skip".into());
        ops.push("hsleep 200".into());
        ops.push(format!("hreq {} {} enr 2 {}", x, y, rng.range(1, 4)));
        ops.push("hsleep 220".into());
        // the peer's last datagram is presented again
        ops.push(format!("hdel from{}", y));
        ops.push("hquiet".into());
        return ops;
    }
    if c15 && rng.chance(1, 6) {
        // directed case: a request is in flight on a session that then idles beyond the timeout (the
        // request's own timeout is longer); the peer, having lost its keys, challenges the request and
        // a new session comes about; the answer it had sealed under the old keys turns up afterwards -
        // the old session had expired, its keys accept nothing any more
        stats.bump("gen.cases.c15-rekey-after-expiry-then-old-keys");
        let x = rng.range(1, 2);
        let y = 3 - x;
        ops.push(format!("hworld 2 1 1000 {} 300", rng.range(2, 3)));
        ops.push(format!("hreq {} {} enr 1 1", x, y));
        for _ in 0..2 { ops.push("hdel next".into()); }
        ops.push(format!("hwru {} next known", y));
        for _ in 0..3 { ops.push("hdel next".into()); }
        ops.push(format!("hresp {} next auto", y));
        ops.push("hdel next".into());
        ops.push(format!("hreq {} {} enr 2 {}", x, y, rng.range(1, 4)));
        ops.push("hdel next".into());
        ops.push(format!("hresp {} next auto", y));
        ops.push("hdel skip".into());
        ops.push("hsleep 460".into());
        ops.push(format!("hcraft whoareyou {} r 0", x));
        ops.push("hdel last".into());
        ops.push("hdel skip".into());
        ops.push(format!("hdel from{}", y));
        ops.push("hquiet".into());
        return ops;
    }
    if c15 {
        // short real-time session timeout, small cache
        ops.push(format!("hworld {} {} {} {} 300", n, retries, timeout, rng.range(1, 3)));
    } else if dual_redirect {
        // every record advertises an IPv6 socket next to the real IPv4 one
        ops.push(format!("hworld {} {} {} 1000 86400000 {}", n, retries, timeout, "4".repeat(n as usize)));
    } else if profile == "C12" || rng.chance(1, 4) {
        let modes: String = (0..n).map(|_| match rng.below(7) { 0 => '1', 1 => '2', 2 => '3', 3 => '4', _ => '0' }).collect();
        ops.push(format!("hworld {} {} {} 1000 86400000 {}{}", n, retries, timeout, modes, match rng.below(8) { 0 => " v6", 1 => " v6 m6", _ => "" }));
    } else {
        ops.push(format!("hworld {} {} {} 1000 86400000{}", n, retries, timeout, if rng.chance(1, 6) { " v6" } else { "" }));
    }
    let steps = if tier == "thorough" { rng.range(60, 120) } else { rng.range(40, 90) };
    let mut rid = 1u64;
    let mut emitted = 0u64; // lower bound on the number of wire entries so far
    let other = |rng: &mut Rng, x: u64| -> u64 { let mut y = rng.range(1, n); if y == x { y = x % n + 1; } y };
    if c15 {
        // sessions are established, left idle for longer / shorter than the timeout, then used again
        let mut ops2 = Vec::new();
        for round in 0..rng.range(2, 3) {
            let x = rng.range(1, n);
            let y = other(rng, x);
            ops2.push(format!("hreq {} {} enr {} 1", x, y, rid)); rid += 1;
            for _ in 0..2 { ops2.push("hdel next".into()); }
            ops2.push(format!("hwru {} next known", y));
            for _ in 0..3 { ops2.push("hdel next".into()); }
            ops2.push(format!("hresp {} next auto", y));
            ops2.push("hdel next".into());
            if n == 3 && rng.chance(1, 2) {
                let z = 6 - x - y;
                ops2.push(format!("hreq {} {} enr {} 1", x, z, rid)); rid += 1;
                for _ in 0..2 { ops2.push("hdel next".into()); }
                ops2.push(format!("hwru {} next known", z));
                for _ in 0..3 { ops2.push("hdel next".into()); }
            }
            let noise = rng.chance(1, 3);
            let mut hs_noise = false;
            if noise {
                // nothing is exchanged for longer than the timeout, but packets that do not decrypt keep
                // arriving in the peer's name from its address: they are no use of the session
                stats.bump("gen.cases.c15-noise-while-idle");
                for _ in 0..3 {
                    ops2.push("hsleep 200".into());
                    ops2.push(format!("hcraft random {} {}", y, x));
                    ops2.push(format!("hdel last {}", y));
                    ops2.push("hdel skip".into());
                    if rng.chance(1, 2) {
                        ops2.push(format!("hwru {} next known", x));
                        ops2.push("hdel next".into());
                    }
                }
                ops2.push("hsleep 150".into());
            } else if rng.chance(1, 4) {
                // the same, with the handshake datagram that set the session up (the last thing the
                // requester sent) turning up again and again at the other side: no challenge is
                // outstanding, it has no effect - and is no use of the session either
                stats.bump("gen.cases.c15-stale-handshake-while-idle");
                hs_noise = true;
                for _ in 0..3 {
                    ops2.push("hsleep 200".into());
                    ops2.push(format!("hdel from{}", x));
                }
                ops2.push("hsleep 150".into());
            } else if round == 0 || rng.chance(1, 2) { ops2.push("hsleep 700".into()); }
            let (a, b) = if hs_noise { (y, x) } else if noise || rng.chance(1, 2) { (x, y) } else { (y, x) };
            ops2.push(format!("hreq {} {} enr {} {}", a, b, rid, rng.range(1, 4))); rid += 1;
            for _ in 0..2 { ops2.push("hdel next".into()); }
            ops2.push(format!("hwru {} next known", b));
            for _ in 0..3 { ops2.push("hdel next".into()); }
            ops2.push(format!("hresp {} next auto", b));
            ops2.push("hdel next".into());
        }
        ops.extend(ops2);
        ops.push("hquiet".into());
        stats.bump("gen.cases.c15");
        return ops;
    }
    if profile == "C19" && rng.chance(1, 6) {
        // directed case: one long-lived session, dozens of messages in each direction under the same keys
        stats.bump("gen.cases.directed-long-session");
        let (x, y) = if rng.chance(1, 2) { (1, 2) } else { (2, 1) };
        let mut ops = vec!["hworld 2 1 400 1000 86400000".to_string()];
        ops.push(format!("hreq {} {} enr 1 1", x, y));
        for _ in 0..2 { ops.push("hdel next".into()); }
        ops.push(format!("hwru {} next known", y));
        for _ in 0..3 { ops.push("hdel next".into()); }
        ops.push(format!("hresp {} next auto", y));
        ops.push("hdel next".into());
        for i in 0..rng.range(36, 48) {
            ops.push(format!("hreq {} {} enr {} {}", x, y, 2 + i, rng.range(1, 4)));
            ops.push("hdel next".into());
            ops.push(format!("hresp {} next auto", y));
            ops.push("hdel next".into());
        }
        ops.push("hquiet".into());
        return ops;
    }
    if profile == "C04" && rng.chance(1, 10) {
        // directed case: a short session timeout (300 ms of the real clock), a session in steady use; an
        // answer arrives well within the timeout after the request went out, but later than one timeout
        // after the session was made: the session is in use, the answer is delivered
        stats.bump("gen.cases.directed-steady-use-across-the-session-timeout");
        let (x, y) = if rng.chance(1, 2) { (1, 2) } else { (2, 1) };
        let mut ops = vec!["hworld 2 1 1000 1000 300".to_string()];
        ops.push(format!("hreq {} {} enr 1 1", x, y));
        for _ in 0..2 { ops.push("hdel next".into()); }
        ops.push(format!("hwru {} next known", y));
        for _ in 0..3 { ops.push("hdel next".into()); }
        ops.push(format!("hresp {} next auto", y));
        ops.push("hdel next".into());
        ops.push("hsleep 120".into());
        ops.push(format!("hreq {} {} enr 2 {}", x, y, rng.range(1, 4)));
        ops.push("hdel next".into());
        ops.push(format!("hresp {} next auto", y));
        ops.push("hdel next".into());
        ops.push("hsleep 120".into());
        ops.push(format!("hreq {} {} enr 3 {}", x, y, rng.range(1, 4)));
        ops.push("hdel next".into());
        ops.push(format!("hresp {} next auto", y));
        ops.push("hsleep 100".into());
        ops.push("hdel next".into());
        ops.push("hquiet".into());
        return ops;
    }
    if profile == "C04" && rng.chance(1, 12) {
        // directed case: a multi-packet answer trickles in, one packet per timeout period; the request is
        // retransmitted in between, but never more often than its retries allow
        stats.bump("gen.cases.directed-trickling-multi-packet-answer");
        let r = rng.range(1, 3);
        let mut ops = vec![format!("hworld 2 {} 400 1000 86400000", r)];
        let (x, y) = if rng.chance(1, 2) { (1, 2) } else { (2, 1) };
        let fresh = rng.chance(1, 2);
        if !fresh {
            ops.push(format!("hreq {} {} enr 1 1", x, y));
            for _ in 0..2 { ops.push("hdel next".into()); }
            ops.push(format!("hwru {} next known", y));
            for _ in 0..3 { ops.push("hdel next".into()); }
            ops.push(format!("hresp {} next auto", y));
            ops.push("hdel next".into());
            ops.push(format!("hreq {} {} enr 2 3", x, y));
            ops.push("hdel next".into());
        } else {
            // (the request rides on the handshake)
            ops.push(format!("hreq {} {} enr 2 3", x, y));
            for _ in 0..2 { ops.push("hdel next".into()); }
            ops.push(format!("hwru {} next known", y));
            for _ in 0..3 { ops.push("hdel next".into()); }
        }
        for i in 0..rng.range(3, 6) {
            ops.push(format!("hresp {} {} nodes20", y, if i == 0 { "next" } else { "same" }));
            ops.push("hdel last".into());
            ops.push("hadv 401".into());
            if rng.chance(1, 2) { ops.push("hdel skip".into()); } else { ops.push("hdel next".into()); }
        }
        ops.push("hquiet".into());
        return ops;
    }
    if profile == "C04" && rng.chance(1, 12) {
        // the largest retry count the configuration can express, a short timeout, a silent peer:
        // the request is put on the wire 255 times and then fails
        stats.bump("gen.cases.max-retries");
        let mut ops = vec!["hworld 2 255 20 1000 86400000".to_string()];
        // (a contact with a record: a record-less one would put a second, internal request on the
        // same timer instant 255 times over, and the serving order of simultaneous timers is tokio's)
        ops.push(format!("hreq 1 2 enr 1 {}", rng.range(1, 4)));
        if rng.chance(1, 2) {
            // (or the handshake is what stays unanswered)
            ops.push("hdel next".into());
            ops.push("hwru 2 next known".into());
            ops.push("hdel next".into());
        }
        ops.push("hquiet".into());
        return ops;
    }
    if profile == "C19respawn" {
        // a node challenges a few strangers, is shut down and started again from the same configuration
        // value, and challenges a few more: no id-nonce of its first life comes back in its second
        stats.bump("gen.cases.node-restarted");
        let mut ops = vec!["hworld 2 1 400 1000 86400000".to_string()];
        // (three lives: whatever else was started in between, the second and the third begin alike)
        for life in 0..3 {
            for _ in 0..rng.range(3, 6) {
                ops.push("hcraft random 9 1".into());
                ops.push("hdel last 9".into());
                ops.push("hdel skip".into());
                ops.push(format!("hwru 1 next {}", if rng.chance(1, 2) { "none" } else { "known" }));
                ops.push("hdel skip".into());
                ops.push("hadv 450".into());
            }
            if life < 2 {
                ops.push("hrespawn 1".into());
            }
        }
        ops.push("hquiet".into());
        return ops;
    }
    if profile == "C19bump" {
        // a handshake that carries the node's record goes unanswered; the record changes; the handshake is
        // sent again (two retries): whatever goes out the second time, no (key, nonce) pair seals two
        // different datagrams
        stats.bump("gen.cases.record-changes-between-transmissions");
        let x = rng.range(1, 2);
        let y = 3 - x;
        let mut ops = vec![format!("hworld 2 2 400 1000 86400000")];
        ops.push(format!("hreq {} {} enr 1 {}", x, y, rng.range(1, 4)));
        ops.push("hdel next".into());
        ops.push(format!("hwru {} next none", y));
        ops.push("hdel next".into());
        // (the handshake is lost, or arrives and its answer is lost)
        if rng.chance(1, 2) { ops.push("hdel skip".into()); } else { ops.push("hdel next".into()); ops.push("hdel skip".into()); }
        ops.push(format!("henrbump {}", x));
        ops.push("hadv 450".into());
        ops.push("hdel next".into());
        ops.push("hadv 450".into());
        ops.push("hdel next".into());
        ops.push("hadv 900".into());
        ops.push("hquiet".into());
        return ops;
    }
    if profile == "C13scope" {
        // IPv6 world; a peer opens a session with this node; the node's application then sends it requests
        // through a contact whose socket address carries an interface scope; the peer answers what reaches
        // it; when everything has ended no exemption is left
        stats.bump("gen.cases.scoped-contact");
        let x = rng.range(1, 2);
        let y = 3 - x;
        let mut ops = vec![format!("hworld 2 {} 400 1000 86400000 v6", rng.range(1, 2))];
        let mut rid = 1u64;
        if rng.chance(4, 5) {
            ops.push(format!("hreq {} {} enr {} 1", y, x, rid)); rid += 1;
            for _ in 0..2 { ops.push("hdel next".into()); }
            ops.push(format!("hwru {} next known", x));
            for _ in 0..3 { ops.push("hdel next".into()); }
            ops.push(format!("hresp {} next auto", x));
            ops.push("hdel next".into());
        }
        for _ in 0..rng.range(1, 3) {
            ops.push(format!("hreq {} {} scoped {} {}", x, y, rid, rng.range(1, 4))); rid += 1;
            for _ in 0..3 {
                ops.push("hdel next".into());
                ops.push(format!("hwru {} next known", y));
                ops.push("hdel next".into());
                ops.push(format!("hresp {} next auto", y));
                ops.push("hdel next".into());
            }
            if rng.chance(1, 2) { ops.push("hadv 450".into()); }
        }
        ops.push("hadv 900".into());
        ops.push("hquiet".into());
        return ops;
    }
    if profile == "C04hold" {
        // a slow application: 55-70 requests to a silent peer queue up behind the first one; the
        // application stops reading; the first request runs out of retries and every request to that
        // peer fails at once - more reports than the channel to the application holds; the application
        // reads again: every request has its outcome
        stats.bump("gen.cases.slow-application");
        let x = rng.range(1, 2);
        let y = 3 - x;
        let m = rng.range(55, 70);
        let mut ops = vec![format!("hworld 2 {} 400 1000 86400000", rng.range(1, 2))];
        let with_session = rng.chance(1, 2);
        let mut rid = 1u64;
        if with_session {
            // (the requests are in flight on a session instead; the peer has gone silent)
            ops.push(format!("hreq {} {} enr {} 1", x, y, rid)); rid += 1;
            for _ in 0..2 { ops.push("hdel next".into()); }
            ops.push(format!("hwru {} next known", y));
            for _ in 0..3 { ops.push("hdel next".into()); }
            ops.push(format!("hresp {} next auto", y));
            ops.push("hdel next".into());
        }
        for _ in 0..m {
            ops.push(format!("hreq {} {} enr {} {}", x, y, rid, rng.range(1, 4))); rid += 1;
        }
        ops.push(format!("hhold {}", x));
        ops.push("hadv 900".into());
        ops.push("hadv 900".into());
        ops.push(format!("hrelease {}", x));
        ops.push("hquiet".into());
        return ops;
    }
    let adversarial = profile == "C01" || profile == "C02" || profile == "C03" || rng.chance(1, 2);
    if (profile == "C04" || profile == "C20") && !dual_redirect && rng.chance(1, 8) {
        // directed prefix: a burst of requests to a peer without a session (they queue up behind the
        // handshake), all released at once, all answered at once
        stats.bump("gen.cases.directed-burst");
        let x = rng.range(1, n);
        let y = other(rng, x);
        let m = rng.range(34, 44);
        if profile == "C20" && rng.chance(1, 3) {
            // variant: a peer whose request ids do not change (a constant, a small counter that wraps):
            // twenty requests in a row carry the same id, each is answered before the next one comes
            stats.bump("gen.cases.directed-constant-request-id");
            let m = 20;
            ops.push(format!("hreq {} {} enr {} 1", x, y, rid));
            ops.push("hdel next".into());
            ops.push(format!("hwru {} next known", y));
            for _ in 0..2 { ops.push("hdel next".into()); }
            ops.push(format!("hresp {} next auto", y));
            ops.push("hdel next".into());
            for _ in 0..m {
                ops.push(format!("hreq {} {} enr {} 4", x, y, rid));
                ops.push("hdel next".into());
                ops.push(format!("hresp {} next auto", y));
                ops.push("hdel next".into());
            }
            rid += 1;
            emitted += 2 * m + 5;
        } else if rng.chance(1, 2) {
            // variant: the session exists already; the requests arrive one by one and are held by the
            // peer's application, which then answers all of them at once
            ops.push(format!("hreq {} {} enr {} 1", x, y, rid)); rid += 1;
            ops.push("hdel next".into());
            ops.push(format!("hwru {} next known", y));
            for _ in 0..2 { ops.push("hdel next".into()); }
            ops.push(format!("hresp {} next auto", y));
            ops.push("hdel next".into());
            for _ in 0..m {
                ops.push(format!("hreq {} {} enr {} {}", x, y, rid, if profile == "C20" { 4 } else { rng.range(1, 4) })); rid += 1;
                ops.push("hdel next".into());
            }
            ops.push(format!("hrespall {}", y));
            for _ in 0..m { ops.push("hdel next".into()); }
            emitted += 2 * m + 5;
        } else {
        for _ in 0..m {
            ops.push(format!("hreq {} {} enr {} {}", x, y, rid, if profile == "C20" { 4 } else { rng.range(1, 4) })); rid += 1;
        }
        ops.push("hdel next".into());
        ops.push(format!("hwru {} next known", y));
        ops.push("hdel next".into());
        // the handshake and every released request
        for _ in 0..m + 1 { ops.push("hdel next".into()); }
        if rng.chance(3, 4) {
            ops.push(format!("hrespall {}", y));
            for _ in 0..m { ops.push("hdel next".into()); }
        }
        emitted += 2 * m + 3;
        }
    }
    if profile == "C02" && n == 3 && !dual_redirect && rng.chance(1, 5) {
        // directed prefix: a node waits for answers from two peers; one of them answers with the
        // request id of the request sent to the other
        stats.bump("gen.cases.directed-response-with-foreign-request-id");
        let x = rng.range(1, 3);
        let y = other(rng, x);
        let z = 6 - x - y;
        let ry = rid; rid += 1;
        for (peer, r) in [(y, ry), (z, rid)] {
            ops.push(format!("hreq {} {} enr {} 1", x, peer, r));
            ops.push("hdel next".into());
            ops.push(format!("hwru {} next known", peer));
            for _ in 0..2 { ops.push("hdel next".into()); }
        }
        rid += 1;
        ops.push(format!("hresp {} next pong {}", z, ry));
        ops.push("hdel next".into());
        if rng.chance(1, 2) {
            ops.push(format!("hresp {} next auto", y));
            ops.push("hdel next".into());
        }
        emitted += 10;
    }
    if (profile == "C01" || profile == "C02") && !dual_redirect && rng.chance(1, 5) {
        // directed prefix: a session is re-keyed by a genuine exchange (the peer could not read a
        // damaged request and challenged it), traffic flows under the new keys, and then a request
        // sealed under the all-zero key arrives from the peer's address; once more after a further re-key
        stats.bump("gen.cases.directed-zero-key-after-rekey");
        let x = rng.range(1, n);
        let y = other(rng, x);
        ops.push(format!("hreq {} {} enr {} 1", x, y, rid)); rid += 1;
        ops.push("hdel next".into());
        ops.push(format!("hwru {} next known", y));
        for _ in 0..2 { ops.push("hdel next".into()); }
        ops.push(format!("hresp {} next auto", y));
        ops.push("hdel next".into());
        for _ in 0..2 {
            ops.push(format!("hreq {} {} enr {} {}", x, y, rid, rng.range(1, 4))); rid += 1;
            ops.push(format!("hmut next flip {}", 600 + rng.below(100)));
            ops.push("hdel last".into());
            // neither the original nor (again) the damaged copy arrives later
            ops.push("hdel skip".into());
            ops.push("hdel skip".into());
            ops.push(format!("hwru {} next known", y));
            for _ in 0..2 { ops.push("hdel next".into()); }
            ops.push(format!("hresp {} next auto", y));
            ops.push("hdel next".into());
        }
        // forgeries only now (an undecryptable datagram makes its receiver ask its application who
        // the sender is, which would disturb the script above): first at the node that re-keyed twice
        for (victim, claimed) in [(x, y), (y, x)] {
            ops.push(format!("hcraft zerokey {} {} {}", claimed, victim, rng.range(1, 4)));
            ops.push("hdel last".into());
        }
        emitted += 8;
    }
    if profile == "C02" && rng.chance(1, 3) {
        // directed prefix: the handshake that answers a WHOAREYOU (and carries the node's record)
        // is replaced in flight by a copy with bytes appended behind the record inside the
        // auth-data (size field fixed, header re-masked): signature and record are intact, only the
        // AEAD binding to the header can reject it
        stats.bump("gen.cases.directed-authpad-handshake");
        let x = rng.range(1, n);
        let y = other(rng, x);
        ops.push(format!("hreq {} {} enr {} {}", x, y, rid, rng.range(1, 4))); rid += 1;
        ops.push("hdel next".into());
        ops.push(format!("hwru {} next {}", y, if rng.chance(1, 2) { "none" } else { "stale" }));
        ops.push("hdel next".into());
        ops.push(format!("hmut next authpad {}", rng.below(7)));
        ops.push("hdel last".into());
        ops.push("hdel skip".into());
        ops.push(format!("hresp {} next auto", y));
        emitted += 5;
    }
    if dual_redirect {
        // directed prefix: the handshake answering a challenge arrives from the other socket the
        // sender's record advertises (nobody was challenged there); the original is lost
        stats.bump("gen.cases.directed-handshake-from-advertised-other-family");
        let x = rng.range(1, n);
        let y = other(rng, x);
        ops.push(format!("hreq {} {} enr {} {}", x, y, rid, rng.range(1, 4))); rid += 1;
        ops.push("hdel next".into());
        ops.push(format!("hwru {} next {}", y, if rng.chance(2, 3) { "known" } else { "none" }));
        ops.push("hdel next".into());
        ops.push("hdel next 30".into());
        ops.push(format!("hresp {} next auto", y));
        ops.push("hdel next".into());
        emitted += 4;
    }
    if profile == "C03" && !dual_redirect && rng.chance(1, 6) {
        // directed prefix: the handshake answering a challenge arrives with a damaged message body
        // (signature and record intact); the same bytes are then presented again
        stats.bump("gen.cases.directed-damaged-handshake-replayed");
        let x = rng.range(1, n);
        let y = other(rng, x);
        ops.push(format!("hreq {} {} enr {} {}", x, y, rid, rng.range(1, 4))); rid += 1;
        ops.push("hdel next".into());
        ops.push(format!("hwru {} next {}", y, if rng.chance(1, 2) { "known" } else { "none" }));
        ops.push("hdel next".into());
        ops.push(format!("hmut next fliptail {}", rng.below(64)));
        ops.push("hdel last".into());
        ops.push("hdel skip".into());
        ops.push("hdel last".into());
        if rng.chance(1, 2) { ops.push("hdel last".into()); }
        emitted += 4;
    }
    if profile == "C12" && rng.chance(1, 5) {
        // directed prefix: a node answers a challenge with a handshake that carries an older record
        // of itself than the one the challenger already knows
        stats.bump("gen.cases.directed-older-record-in-handshake");
        let y = rng.range(1, n);
        let x = other(rng, y);
        ops.push(format!("hcraft random {} {}", x, y));
        ops.push(format!("hdel last {}", x));
        ops.push(format!("hwru {} next known", y));
        ops.push(format!("hcraft handshake {} {} {} w stale:{} 1", x, x, y, x));
        ops.push(format!("hdel last {}", x));
        emitted += 3;
    }
    if (profile == "C03" && rng.chance(1, 4)) || rng.chance(1, 16) {
        // directed prefix: a request has done its handshake and is unanswered; the session is
        // re-keyed by a challenge to a second request (the first is replayed under the new keys);
        // then a WHOAREYOU arrives for the replayed first request
        stats.bump("gen.cases.directed-rekey-then-second-whoareyou");
        let x = rng.range(1, n);
        let y = other(rng, x);
        ops.push(format!("hreq {} {} enr {} 1", x, y, rid)); rid += 1;
        ops.push("hdel next".into());
        ops.push(format!("hwru {} next known", y));
        ops.push("hdel next".into());
        if rng.chance(1, 2) { ops.push("hdel next".into()); } else { ops.push("hdel skip".into()); }
        ops.push(format!("hreq {} {} enr {} {}", x, y, rid, rng.range(1, 4))); rid += 1;
        if rng.chance(1, 2) { ops.push("hdel skip".into()); }
        ops.push(format!("hcraft whoareyou {} r 0", x));
        ops.push("hdel last".into());
        ops.push(format!("hcraft whoareyou {} r 0", x));
        ops.push("hdel last".into());
        if rng.chance(1, 2) {
            ops.push(format!("hcraft whoareyou {} r 0", x));
            ops.push("hdel last".into());
        }
        emitted += 9;
    }
    if rng.chance(1, 8) {
        // directed prefix: dial without a record; the peer answers the request but not the internal
        // record request, which times out; a new request goes out and stays unanswered; then the
        // late answer to the old record request arrives
        stats.bump("gen.cases.directed-late-enr-answer");
        let x = rng.range(1, n);
        let y = other(rng, x);
        ops.push(format!("hreq {} {} raw {} 1", x, y, rid)); rid += 1;
        ops.push("hdel next".into());
        ops.push(format!("hwru {} next {}", y, if rng.chance(1, 2) { "none" } else { "known" }));
        for _ in 0..4 { ops.push("hdel next".into()); }
        ops.push(format!("hresp {} 0 auto", y));
        ops.push("hdel next".into());
        ops.push("hadv 450".into());
        ops.push(format!("hreq {} {} enr {} 1", x, y, rid)); rid += 1;
        ops.push(format!("hresp {} 1 nodes1", y));
        ops.push("hdel last".into());
        ops.push("hadv 20".into());
        emitted += 9;
    } else if rng.chance(1, 3) {
        // directed prefix: dial a node without knowing its record, let everything be answered
        // honestly, then issue another request while the first exchange is a while ago
        stats.bump("gen.cases.directed-raw-contact");
        let x = rng.range(1, n);
        let y = other(rng, x);
        ops.push(format!("hreq {} {} raw {} {}", x, y, rid, rng.range(1, 4)));
        rid += 1;
        ops.push("hdel next".into());
        ops.push(format!("hwru {} next {}", y, if rng.chance(1, 2) { "none" } else { "known" }));
        ops.push("hdel next".into());
        if rng.chance(1, 3) {
            // a second WHOAREYOU for the same request, echoing the handshake packet's nonce
            ops.push(format!("hcraft whoareyou {} h 0", x));
            ops.push("hdel last".into());
        }
        for _ in 0..2 { ops.push("hdel next".into()); }
        let enr_answer = match rng.below(7) { 0 => "nodesother", 1 => "nodesbad", 2 => "nodesownother", 3 => "nodesotherown", _ => "auto" };
        ops.push(format!("hresp {} next auto", y)); ops.push("hdel next".into());
        ops.push(format!("hresp {} next {}", y, enr_answer)); ops.push("hdel next".into());
        ops.push("hdel next".into());
        ops.push(format!("hadv {}", rng.range(200, 390)));
        ops.push(format!("hreq {} {} enr {} {}", x, y, rid, rng.range(1, 4)));
        rid += 1;
        ops.push(format!("hadv {}", rng.range(30, 250)));
        ops.push("hdel next".into());
        ops.push(format!("hresp {} next auto", y));
        ops.push("hdel next".into());
        emitted += 10;
    }
    for _ in 0..steps {
        if profile == "C02" && emitted > 0 && rng.chance(1, 3) {
            // tamper campaign: every kind of mutation of a captured datagram, redirection to another
            // node, presentation from another source address
            let k = rng.below(emitted);
            match rng.below(9) {
                8 => {
                    // the next datagram in flight is replaced by a copy with bytes appended behind its
                    // auth-data (size field fixed up, header re-masked); the original is lost
                    ops.push(format!("hmut next authpad {}", rng.below(7)));
                    ops.push("hdel last".into());
                    ops.push("hdel skip".into());
                }
                7 => { ops.push(format!("hmut {} authpad {}", k, rng.below(7))); ops.push("hdel last".into()); }
                0 | 1 => { ops.push(format!("hmut {} flip {}", k, rng.below(12000))); ops.push("hdel last".into()); }
                2 => { ops.push(format!("hmut {} trunc {}", k, rng.below(400))); ops.push("hdel last".into()); }
                3 => { ops.push(format!("hmut {} extend {}", k, rng.below(40))); ops.push("hdel last".into()); }
                4 => { ops.push(format!("hmut {} splice {}", k, rng.below(emitted))); ops.push("hdel last".into()); }
                5 => ops.push(format!("hdel {} {} {}", k, rng.range(1, 9), rng.range(1, n))),
                // the same bytes from another port of the host they came from
                // ... or from the socket their sender's record advertises (which need not be where it lives)
                6 if rng.chance(1, 2) => ops.push(format!("hdel {} {}", if rng.chance(1, 2) { "last".to_string() } else { k.to_string() }, if rng.chance(1, 2) { 20 } else { 40 })),
                _ => ops.push(format!("hdel {} {}", k, rng.range(1, 9))),
            }
            emitted += 1;
            continue;
        }
        match rng.below(100) {
            0..=13 => {
                let x = rng.range(1, n);
                // (rarely a node is asked to talk to itself: refused at once, nothing on the wire)
                let y = if rng.chance(1, 40) { x } else { other(rng, x) };
                let body = if profile == "C20" && rng.chance(2, 3) { 4 } else if rng.chance(1, 6) { rng.range(5, 6) } else { rng.range(1, 4) };
                ops.push(format!("hreq {} {} {} {} {}", x, y, if rng.chance(3, 4) { "enr" } else { "raw" }, rid, body));
                rid += 1;
                if y != x { emitted += 1; }
            }
            14..=55 => {
                // (in adversarial cases an in-flight datagram now and then arrives from another port of
                // its sender's host instead: the original never arrives)
                if adversarial && rng.chance(1, 25) { ops.push(format!("hdel next {}", match rng.below(4) { 0 => 30, 1 => 40, _ => 20 })); } else { ops.push("hdel next".into()); }
                emitted += 1;
            }
            56..=58 => {
                if adversarial && rng.chance(1, 6) {
                    // a request to an identity whose key cannot do the key agreement; somebody at that
                    // address answers with a WHOAREYOU: no session can be made, the request fails
                    let x = rng.range(1, n);
                    ops.push(format!("hreq {} 8 {} {} {}", x, if rng.chance(1, 2) { "enr" } else { "raw" }, rid, rng.range(1, 4)));
                    rid += 1;
                    ops.push(format!("hcraft whoareyou {} r {}", x, rng.below(3)));
                    ops.push("hdel last".into());
                    emitted += 2;
                } else {
                    ops.push("hdel skip".into());
                }
            }
            59..=62 => {
                // duplicate / reordered delivery of an earlier datagram, sometimes from a foreign address
                if emitted > 0 {
                    let k = rng.below(emitted);
                    match rng.below(6) {
                        0 => ops.push(format!("hdel {} {}", k, rng.range(1, 9))),
                        1 => ops.push(format!("hdel {} {}", k, if rng.chance(1, 2) { 20 } else { 20 + rng.range(1, n) })), // another port of a node's host
                        _ => ops.push(format!("hdel {}", k)),
                    }
                    emitted += 1;
                }
            }
            63..=72 => {
                let x = rng.range(1, n);
                let what = match rng.below(6) { 0 => "none", 1 => "stale", _ => "known" };
                ops.push(format!("hwru {} next {}", x, what));
                emitted += 1;
            }
            73..=84 => {
                let x = rng.range(1, n);
                let kind = match rng.below(18) { 0 => "nodes1", 1 => "nodes3", 2 => "nodes0", 3 => "talk", 4 => "nodesbad", 5 => "pong", 6 => "nodesother", 7 => "nodesownother", 8 => "nodesotherown", 9 => "nodes20", _ => "auto" };
                ops.push(format!("hresp {} next {}", x, kind));
                emitted += 1;
            }
            85..=87 => ops.push(format!("hadv {}", match rng.below(5) { 0 => 401, 1 => 150, 2 => 399, 3 => 250, _ => 20 })),
            88 => {
                // a complete multi-packet NODES answer (every packet delivered), then a full timeout
                let x = rng.range(1, n);
                ops.push(format!("hresp {} next nodes2", x));
                ops.push("hdel last".into());
                ops.push(format!("hresp {} same nodes2", x));
                ops.push("hdel last".into());
                if rng.chance(1, 2) { ops.push("hadv 450".into()); }
                emitted += 2;
            }
            _ => {
                if !adversarial { ops.push("hdel next".into()); emitted += 1; continue; }
                let y = rng.range(1, n);
                let x = other(rng, y);
                match rng.below(10) {
                    0..=2 => {
                        // forgery attempt: random packet claiming src = X from the attacker's address,
                        // the victim's application answers the query, the attacker answers the
                        // challenge with a handshake of its own making
                        ops.push(format!("hcraft random {} {}", x, y));
                        ops.push("hdel last 9".into());
                        ops.push(format!("hwru {} next {}", y, match rng.below(3) { 0 => "none", 1 => "stale", _ => "known" }));
                        let rec = match rng.below(4) { 0 => "none".to_string(), 1 => "own".to_string(), 2 => format!("of:{}", x), _ => format!("stale:{}", x) };
                        let signer = match rng.below(12) { 0 | 1 => x.to_string(), 2 => "empty".into(), 3 => "garbage".into(), 4 => "short".into(), 5 => format!("draft:{}", x), 6 => format!("for:{}:9", x), _ => "9".to_string() };
                        if rng.chance(1, 8) {
                            // claim the identity that only has an Ed25519 key, presenting its public record
                            ops.pop(); ops.pop(); ops.pop();
                            ops.push(format!("hcraft random {} {}", ED_IDENTITY, y));
                            ops.push("hdel last 9".into());
                            ops.push(format!("hwru {} next none", y));
                            ops.push(format!("hcraft handshake {} {} {} w ed 1", ED_IDENTITY, signer, y));
                        } else {
                            ops.push(format!("hcraft handshake {} {} {} w {} 1", x, signer, y, rec));
                        }
                        ops.push("hdel last 9".into());
                        emitted += 4;
                    }
                    3..=4 => {
                        // a WHOAREYOU echoing the nonce of the victim's latest datagram, from the
                        // right or a foreign address; sometimes twice
                        let echo = if rng.chance(1, 2) { "h" } else { "r" };
                        ops.push(format!("hcraft whoareyou {} {} {}", y, echo, rng.below(3)));
                        match rng.below(5) { 0 => ops.push("hdel last 9".into()), 1 => ops.push(format!("hdel last {}", x)), 2 => ops.push(format!("hdel last {}", 20 + x)), _ => ops.push("hdel last".into()) }
                        if rng.chance(1, 3) { ops.push(format!("hcraft whoareyou {} {} 0", y, echo)); ops.push("hdel last".into()); }
                        emitted += 2;
                    }
                    5..=6 => {
                        if emitted > 0 {
                            let rec = match rng.below(4) { 0 => "none".to_string(), 1 => "own".to_string(), 2 => format!("of:{}", x), _ => format!("stale:{}", x) };
                            ops.push(format!("hcraft handshake {} 9 {} w {} 1", x, y, rec));
                            ops.push(format!("hdel last {}", if rng.chance(1, 2) { x } else { 9 }));
                        }
                    }
                    7 if rng.chance(1, 2) => {
                        // a request sealed under the all-zero key, from the claimed peer's own address
                        ops.push(format!("hcraft zerokey {} {} {}", x, y, rng.range(1, 4)));
                        ops.push("hdel last".into());
                    }
                    7 | 8 => {
                        // a peer with a session of its own sends, from its own socket and under its own
                        // key, a request that names somebody else (another node, or the attacker) as source
                        let claimed = if rng.chance(1, 2) { 9 } else { other(rng, x) };
                        ops.push(format!("hcraft otherid {} {} {} {}", claimed, x, y, rng.range(1, 4)));
                        ops.push("hdel last".into());
                    }
                    _ => {
                        if emitted > 0 {
                            let how = match rng.below(4) { 0 => "flip", 1 => "trunc", 2 => "extend", _ => "splice" };
                            ops.push(format!("hmut {} {} {}", rng.below(emitted), how, rng.below(2000)));
                            ops.push("hdel last".into());
                        }
                    }
                }
                emitted += 1;
            }
        }
    }
    // drain: deliver everything still in flight, answer what is pending, then go quiet
    for _ in 0..rng.range(0, 12) {
        ops.push("hdel next".into());
        if rng.chance(1, 3) { ops.push(format!("hwru {} next known", rng.range(1, n))); }
        if rng.chance(1, 3) { ops.push(format!("hresp {} next pong", rng.range(1, n))); }
    }
    ops.push("hquiet".into());
    stats.bump("gen.cases");
    ops
}

//! Correspondence harness library: shared pieces of the per-engine binaries `h_<engine>`
//! (`src/bin/h_<engine>.rs` + `src/eng_<engine>.rs`).  `run` executes op lines on the real discv5
//! code, `gen` generates op lines from one seed.  One reply line per op; lines starting with `!MON`
//! are implementation-side monitor failures (property violated by the implementation itself,
//! independent of the model).
pub mod rng;
pub mod util;

use std::collections::BTreeMap;
use std::io::{BufRead, Write};

#[derive(Default)]
pub struct Stats(pub BTreeMap<String, u64>);
impl Stats {
    pub fn bump(&mut self, k: &str) {
        *self.0.entry(k.to_string()).or_insert(0) += 1;
    }
    pub fn add(&mut self, k: &str, n: u64) {
        *self.0.entry(k.to_string()).or_insert(0) += n;
    }
    pub fn dump(&self) -> String {
        let items: Vec<String> = self.0.iter().map(|(k, v)| format!("\"{}\":{}", k, v)).collect();
        format!("{{{}}}", items.join(","))
    }
}

pub trait Runner {
    /// New case: forget all state.
    fn reset(&mut self);
    /// Executes one op; pushes any number of `!MON …` lines and exactly one reply line.
    fn step(&mut self, line: &str, out: &mut Vec<String>, stats: &mut Stats);
}

/// A `tracing` subscriber that is enabled for every level and formats every field of every event
/// and span into a sink.  The crate's log statements evaluate their arguments only when a subscriber
/// wants them (a node run with `RUST_LOG=trace` does); "never panics" has to hold then as well.
pub mod logsink {
    use std::fmt::Write;
    use tracing::field::{Field, Visit};
    use tracing::span::{Attributes, Id, Record};
    use tracing::{Event, Metadata, Subscriber};

    struct Null;
    impl Write for Null {
        fn write_str(&mut self, _: &str) -> std::fmt::Result {
            Ok(())
        }
    }
    struct Sink;
    impl Visit for Sink {
        fn record_debug(&mut self, _f: &Field, v: &dyn std::fmt::Debug) {
            let _ = write!(Null, "{:?}", v);
        }
    }
    pub struct EvalAll;
    impl Subscriber for EvalAll {
        fn enabled(&self, _: &Metadata<'_>) -> bool {
            true
        }
        fn new_span(&self, attrs: &Attributes<'_>) -> Id {
            attrs.record(&mut Sink);
            Id::from_u64(1)
        }
        fn record(&self, _: &Id, values: &Record<'_>) {
            values.record(&mut Sink);
        }
        fn record_follows_from(&self, _: &Id, _: &Id) {}
        fn event(&self, event: &Event<'_>) {
            event.record(&mut Sink);
        }
        fn enter(&self, _: &Id) {}
        fn exit(&self, _: &Id) {}
    }
    pub fn install() {
        let _ = tracing::subscriber::set_global_default(EvalAll);
    }
}

pub type GenFn = fn(&mut rng::Rng, &str, &str, &mut Stats) -> Vec<String>;

/// `h_<engine> gen ENGINE SEED FIRST N TIER PROFILE` | `h_<engine> run ENGINE`
pub fn main_loop(mut r: Box<dyn Runner>, gen: GenFn) {
    let args: Vec<String> = std::env::args().collect();
    if args.len() < 3 {
        eprintln!("usage: h_ENGINE gen ENGINE SEED FIRST N TIER PROFILE | h_ENGINE run ENGINE");
        std::process::exit(2);
    }
    let stdout = std::io::stdout();
    let mut w = std::io::BufWriter::new(stdout.lock());
    let mut stats = Stats::default();
    match args[1].as_str() {
        "gen" => {
            let seed: u64 = args[3].parse().expect("seed");
            let first: u64 = args[4].parse().expect("first");
            let n: u64 = args[5].parse().expect("n");
            let tier = args.get(6).map(|s| s.as_str()).unwrap_or("quick");
            let profile = args.get(7).map(|s| s.as_str()).unwrap_or("");
            for i in first..first + n {
                let mut rng = rng::Rng::new(seed.wrapping_mul(0x2545_F491_4F6C_DD1D) ^ i.wrapping_mul(0x9E37_79B9));
                let ops = gen(&mut rng, tier, profile, &mut stats);
                writeln!(w, "#case {} seed={}", i, seed).unwrap();
                for o in ops {
                    writeln!(w, "{}", o).unwrap();
                }
            }
        }
        "run" => {
            logsink::install();
            std::panic::set_hook(Box::new(|_| {})); // panics are caught and reported as results
            let stdin = std::io::stdin();
            let mut out = Vec::new();
            for line in stdin.lock().lines() {
                let line = line.unwrap();
                let t = line.trim();
                if t.is_empty() || t.starts_with('#') {
                    if t.starts_with("#case") {
                        r.reset();
                        stats.bump("cases");
                    }
                    writeln!(w, "{}", t).unwrap();
                    continue;
                }
                out.clear();
                r.step(t, &mut out, &mut stats);
                stats.bump("ops");
                for o in &out {
                    writeln!(w, "{}", o).unwrap();
                }
            }
        }
        _ => std::process::exit(2),
    }
    w.flush().unwrap();
    eprintln!("STATS {}", stats.dump());
}

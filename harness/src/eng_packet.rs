//! Packet engine (C05): `penc` / `pdec` ops against `Packet::encode/decode`.
use crate::rng::Rng;
use crate::util::*;
use crate::{Runner, Stats};
use discv5::packet::{PacketKind, ProtocolIdentity};
use discv5::verif::{enr_decode_prefix, packet_decode, packet_encode, RawPacket};

const DEFAULT_PID: &[u8] = b"discv5";
const DEFAULT_VER: &[u8] = &[0, 1];

thread_local! {
    /// The protocol identity of the network the current case plays in (`ConfigBuilder::protocol_identity`):
    /// mostly the default, in one case out of five another id and / or another version.
    static CASE_IDENTITY: std::cell::RefCell<(Vec<u8>, Vec<u8>)> = std::cell::RefCell::new((DEFAULT_PID.to_vec(), DEFAULT_VER.to_vec()));
}

fn case_pid() -> Vec<u8> {
    CASE_IDENTITY.with(|c| c.borrow().0.clone())
}

fn case_ver() -> Vec<u8> {
    CASE_IDENTITY.with(|c| c.borrow().1.clone())
}

fn proto(pid: &[u8], ver: &[u8]) -> Option<ProtocolIdentity> {
    Some(ProtocolIdentity {
        protocol_id: pid.try_into().ok()?,
        protocol_version: ver.try_into().ok()?,
    })
}

fn show_kind(k: &PacketKind) -> String {
    match k {
        PacketKind::Message { src_id } => format!("m:{}", hx(&src_id.raw())),
        PacketKind::WhoAreYou { id_nonce, enr_seq } => format!("w:{}:{}", hx(id_nonce), enr_seq),
        PacketKind::Handshake { src_id, id_nonce_sig, ephem_pubkey, enr_record } => format!(
            "h:{}:{}:{}:{}",
            hx(&src_id.raw()),
            hx(id_nonce_sig),
            hx(ephem_pubkey),
            match enr_record {
                None => "none".to_string(),
                Some(e) => hx(&alloy_rlp::encode(e)),
            }
        ),
    }
}

fn parse_kind(s: &str) -> Option<PacketKind> {
    let f: Vec<&str> = s.split(':').collect();
    match f.as_slice() {
        ["m", src] => Some(PacketKind::Message { src_id: node_id_of(&unhx(src)?)? }),
        ["w", idn, seq] => Some(PacketKind::WhoAreYou {
            id_nonce: unhx(idn)?.try_into().ok()?,
            enr_seq: seq.parse().ok()?,
        }),
        ["h", src, sig, eph, rec] => Some(PacketKind::Handshake {
            src_id: node_id_of(&unhx(src)?)?,
            id_nonce_sig: unhx(sig)?,
            ephem_pubkey: unhx(eph)?,
            enr_record: if *rec == "none" { None } else { Some(enr_decode_prefix(&unhx(rec)?)?) },
        }),
        _ => None,
    }
}

fn err_name(e: &str) -> &'static str {
    if e.starts_with("TooLarge") {
        "too-large"
    } else if e.starts_with("TooSmall") {
        "too-small"
    } else if e.starts_with("HeaderLengthInvalid") {
        "header-len"
    } else if e.starts_with("HeaderDecryptionFailed") {
        "header-decrypt"
    } else if e.starts_with("InvalidVersion") {
        "version"
    } else if e.starts_with("InvalidAuthDataSize") {
        "auth-size"
    } else if e.starts_with("InvalidNodeId") {
        "node-id"
    } else if e.starts_with("InvalidEnr") {
        "enr"
    } else if e.starts_with("UnknownPacket") {
        "unknown"
    } else {
        "other"
    }
}

pub struct PacketRunner;

impl Runner for PacketRunner {
    fn reset(&mut self) {}

    fn step(&mut self, line: &str, out: &mut Vec<String>, stats: &mut Stats) {
        let t: Vec<&str> = line.split(' ').collect();
        match t.as_slice() {
            ["penc", ks_tok, pid, ver, dst, iv, nonce, kind, msg] => {
                let r = (|| {
                    let proto = proto(&unhx(pid)?, &unhx(ver)?)?;
                    let dst = node_id_of(&unhx(dst)?)?;
                    let iv: [u8; 16] = unhx(iv)?.try_into().ok()?;
                    let p = RawPacket {
                        iv: u128::from_be_bytes(iv),
                        nonce: unhx(nonce)?.try_into().ok()?,
                        kind: parse_kind(kind)?,
                        message: unhx(msg)?,
                    };
                    Some((proto, dst, p))
                })();
                let Some((proto, dst, p)) = r else {
                    out.push("bad-op".into());
                    return;
                };
                stats.bump(&format!("penc.kind.{}", &kind[..1]));
                let p2 = p.clone();
                match no_panic(move || packet_encode(p2, proto, &dst)) {
                    None => {
                        out.push("!MON C05 encode-panic".into());
                        out.push("panic".into());
                    }
                    Some((data, ad)) => {
                        // implementation-side monitor: round trip through the real decoder
                        let in_window = data.len() >= 63 && data.len() <= 1280;
                        let d2 = data.clone();
                        match no_panic(move || packet_decode(&dst, proto, &d2)) {
                            None => out.push("!MON C05 decode-panic-on-own-encoding".into()),
                            Some(Ok((q, ad2))) => {
                                if in_window && (q != p || ad2 != ad) {
                                    out.push("!MON C05 roundtrip-mismatch".into());
                                }
                                if !in_window {
                                    out.push("!MON C05 accepted-out-of-window".into());
                                }
                            }
                            Some(Err(e)) => {
                                if in_window {
                                    out.push(format!("!MON C05 roundtrip-rejected {}", err_name(&e)));
                                }
                            }
                        }
                        // implementation-side monitor: the datagram is iv ‖ (header ⊕ keystream) ‖ message,
                        // with the keystream computed independently (AES-128-CTR, key = destination id
                        // prefix, counter block = iv) and the header as returned in the authenticated data
                        // the header itself, spelled out from the op's fields as the wire format has it:
                        // protocol id ‖ version ‖ flag ‖ nonce ‖ authdata-size ‖ authdata, everything
                        // big-endian (authdata: src-id | id-nonce ‖ enr-seq(8) | src-id ‖ sig-size ‖
                        // key-size ‖ sig ‖ key ‖ record)
                        if let (Some(pidb), Some(verb), Some(nb)) = (unhx(pid), unhx(ver), unhx(nonce)) {
                            let f: Vec<&str> = kind.split(':').collect();
                            let auth: Option<(u8, Vec<u8>)> = match f.as_slice() {
                                ["m", src] => unhx(src).map(|s| (0u8, s)),
                                ["w", idn, seq] => match (unhx(idn), seq.parse::<u64>()) {
                                    (Some(mut a), Ok(q)) => { a.extend_from_slice(&q.to_be_bytes()); Some((1u8, a)) }
                                    _ => None,
                                },
                                ["h", src, sig, eph, rec] => match (unhx(src), unhx(sig), unhx(eph)) {
                                    (Some(mut a), Some(sg), Some(ep)) if sg.len() < 256 && ep.len() < 256 => {
                                        a.push(sg.len() as u8);
                                        a.push(ep.len() as u8);
                                        a.extend_from_slice(&sg);
                                        a.extend_from_slice(&ep);
                                        if *rec != "none" { if let Some(r) = unhx(rec) { a.extend_from_slice(&r); } else { a.clear(); } }
                                        if a.is_empty() { None } else { Some((2u8, a)) }
                                    }
                                    _ => None,
                                },
                                _ => None,
                            };
                            // (records are re-encoded by the crate: only compared when the op carries none)
                            let comparable = !(f[0] == "h" && f.get(4) != Some(&"none"));
                            if let (Some((flag, a)), true) = (auth, comparable) {
                                let mut h = pidb.clone();
                                h.extend_from_slice(&verb);
                                h.push(flag);
                                h.extend_from_slice(&nb);
                                h.extend_from_slice(&(a.len() as u16).to_be_bytes());
                                h.extend_from_slice(&a);
                                if ad.len() < 16 || ad[16..] != h[..] {
                                    out.push("!MON C05 header-differs-from-wire-layout".into());
                                }
                            }
                        }
                        if let (Some(ks), Some(ivb), Some(m)) = (unhx(ks_tok), unhx(iv), unhx(msg)) {
                            let header = if ad.len() >= 16 { &ad[16..] } else { &ad[..0] };
                            let mut want = ivb.clone();
                            want.extend(header.iter().zip(ks.iter()).map(|(h, k)| h ^ k));
                            want.extend_from_slice(&m);
                            if ks.len() >= header.len() && want != data {
                                out.push("!MON C05 datagram-differs-from-wire-layout".into());
                            }
                        }
                        stats.bump(if in_window { "penc.in-window" } else { "penc.out-of-window" });
                        out.push(format!("{} {}", hx(&data), hx(&ad)));
                    }
                }
            }
            ["pdec", _ks, pid, ver, local, data, _rectail, _recres] => {
                let r = (|| Some((proto(&unhx(pid)?, &unhx(ver)?)?, node_id_of(&unhx(local)?)?, unhx(data)?)))();
                let Some((proto, local, data)) = r else {
                    out.push("bad-op".into());
                    return;
                };
                let d2 = data.clone();
                match no_panic(move || packet_decode(&local, proto, &d2)) {
                    None => {
                        stats.bump("pdec.panic");
                        out.push("!MON C05 decode-panic".into());
                        out.push("panic".into());
                    }
                    Some(Ok((p, ad))) => {
                        stats.bump(&format!("pdec.ok.{}", &show_kind(&p.kind)[..1]));
                        if data.len() < 63 || data.len() > 1280 {
                            out.push("!MON C05 accepted-out-of-window".into());
                        }
                        if matches!(p.kind, PacketKind::WhoAreYou { .. }) && !p.message.is_empty() {
                            out.push("!MON C05 whoareyou-with-body".into());
                        }
                        // strictness monitor on the authenticated data (unmasked header)
                        if ad.len() < 39 || &ad[16..22] != proto.protocol_id || &ad[22..24] != proto.protocol_version {
                            out.push("!MON C05 foreign-protocol-accepted".into());
                        } else {
                            let flag = ad[24];
                            let n = u16::from_be_bytes([ad[37], ad[38]]) as usize;
                            let consistent = match &p.kind {
                                PacketKind::Message { .. } => flag == 0 && n == 32,
                                PacketKind::WhoAreYou { .. } => flag == 1 && n == 24,
                                PacketKind::Handshake { id_nonce_sig, ephem_pubkey, .. } => {
                                    flag == 2 && n >= 34 + id_nonce_sig.len() + ephem_pubkey.len()
                                }
                            };
                            if !consistent || ad.len() != 39 + n || 39 + n + p.message.len() != data.len() {
                                out.push("!MON C05 inconsistent-auth-size-accepted".into());
                            }
                            // whatever follows signature and key inside the auth-data of a handshake is
                            // the sender's record: a handshake with such bytes and "no record" has
                            // swallowed them
                            if let PacketKind::Handshake { id_nonce_sig, ephem_pubkey, enr_record, .. } = &p.kind {
                                if consistent && n > 34 + id_nonce_sig.len() + ephem_pubkey.len() && enr_record.is_none() {
                                    out.push("!MON C05 handshake-auth-data-surplus-accepted-without-record".into());
                                }
                            }
                        }
                        out.push(format!(
                            "ok {} {} {} {} {}",
                            hx(&p.iv.to_be_bytes()),
                            hx(&p.nonce),
                            show_kind(&p.kind),
                            hx(&p.message),
                            hx(&ad)
                        ));
                    }
                    Some(Err(e)) => {
                        stats.bump(&format!("pdec.err.{}", err_name(&e)));
                        out.push(format!("err:{}", err_name(&e)));
                    }
                }
            }
            _ => out.push("bad-op".into()),
        }
    }
}

// ---------------------------------------------------------------------------------------------
// generator

/// `recur`: Some((k, seq)) forces a handshake whose record is signed by fixed key number `k` under
/// sequence number `seq` (with content of its own each time).
fn gen_kind(rng: &mut Rng, stats: &mut Stats, recur: Option<(u64, u64)>) -> (String, usize) {
    match if recur.is_some() { 2 } else { rng.below(3) } {
        0 => (format!("m:{}", hx(&rng.bytes(32))), 32),
        1 => {
            let seq = match rng.below(4) {
                0 => 0,
                1 => u64::MAX,
                2 => rng.below(1000),
                _ => rng.next(),
            };
            (format!("w:{}:{}", hx(&rng.bytes(16)), seq), 24)
        }
        _ => {
            let pick = |rng: &mut Rng| match rng.below(6) {
                0 => 0,
                1 => 255,
                2 => 64,
                3 => 33,
                _ => rng.below(256) as usize,
            };
            let sig = pick(rng);
            let eph = pick(rng);
            let rec = if recur.is_some() || rng.chance(1, 2) {
                // (the same identity presents different records of one sequence number - a node
                // restarted with a fresh record does: fixed key, fixed sequence number, content of its own)
                let e = if let Some((k, seq)) = recur {
                    stats.bump("gen.handshake.record-of-a-recurring-identity");
                    let key = harness::util::key_from(&mut Rng::new(0x5eed_0000 + k));
                    let ip4 = Some((std::net::Ipv4Addr::from(rng.next() as u32), rng.range(1, 65535) as u16));
                    harness::util::make_enr(&key, seq, ip4, None, rng.below(40) as usize)
                } else {
                    random_enr(rng).1
                };
                stats.bump("gen.handshake.with-record");
                Some(alloy_rlp::encode(&e))
            } else {
                None
            };
            let rl = rec.as_ref().map(|r| r.len()).unwrap_or(0);
            (
                format!(
                    "h:{}:{}:{}:{}",
                    hx(&rng.bytes(32)),
                    hx(&rng.bytes(sig)),
                    hx(&rng.bytes(eph)),
                    rec.map(|r| hx(&r)).unwrap_or_else(|| "none".into())
                ),
                34 + sig + eph + rl,
            )
        }
    }
}

/// The harness' own (independent) parse of an unmasked datagram, only to find the byte string the
/// implementation will hand to the record decoder; the model checks that it asks for the same one.
fn record_oracle(ks: &[u8], data: &[u8]) -> (String, String) {
    let na = ("na".to_string(), "na".to_string());
    if data.len() < 63 || data.len() > 1280 {
        return na;
    }
    let un: Vec<u8> = data[16..].iter().zip(ks.iter()).map(|(a, b)| a ^ b).collect();
    if un[8] != 2 {
        return na;
    }
    let n = u16::from_be_bytes([un[21], un[22]]) as usize;
    if n > un.len() - 23 || n < 34 {
        return na;
    }
    let auth = &un[23..23 + n];
    let total = auth[32] as usize + auth[33] as usize;
    if n <= 34 + total {
        return na;
    }
    let tail = &auth[34 + total..];
    let res = match enr_decode_prefix(tail) {
        Some(e) => hx(&alloy_rlp::encode(&e)),
        None => "bad".to_string(),
    };
    (hx(tail), res)
}

fn pdec_line(local: &[u8], data: &[u8]) -> String {
    let iv: Vec<u8> = data.iter().take(16).cloned().collect();
    let ks = keystream(local, &iv, data.len().saturating_sub(16).min(1400));
    let (tail, res) = record_oracle(&ks, data);
    format!("pdec {} {} {} {} {} {} {}", hx(&ks), hx(&case_pid()), hx(&case_ver()), hx(local), hx(data), tail, res)
}

/// Builds a datagram from an *unmasked* header + body, masking it for `dst`.
fn mask(dst: &[u8], iv: &[u8], header: &[u8], body: &[u8]) -> Vec<u8> {
    let ks = keystream(dst, iv, header.len());
    let mut d = iv.to_vec();
    d.extend(header.iter().zip(ks.iter()).map(|(a, b)| a ^ b));
    d.extend_from_slice(body);
    d
}

/// Masking IVs: random, and (one in four) with a counter part about to carry - the low byte, the
/// low 32 bits or the low 64 bits within a few blocks of rolling over (the header spans 3-20 blocks).
fn gen_iv(rng: &mut Rng) -> Vec<u8> {
    let mut iv = rng.bytes(16);
    match rng.below(12) {
        0 => { iv[15] = 0xff - rng.below(4) as u8; }
        1 => { for b in &mut iv[12..15] { *b = 0xff; } iv[15] = 0xff - rng.below(24) as u8; }
        2 => { for b in &mut iv[8..15] { *b = 0xff; } iv[15] = 0xff - rng.below(24) as u8; }
        _ => {}
    }
    iv
}

pub fn gen_case(rng: &mut Rng, _tier: &str, _profile: &str, stats: &mut Stats) -> Vec<String> {
    let mut ops = Vec::new();
    let dst = rng.bytes(32);
    // the network's protocol identity
    let ident = match rng.below(10) {
        0 => (rng.bytes(6), rng.bytes(2)),
        1 => (DEFAULT_PID.to_vec(), match rng.below(3) { 0 => vec![0, 2], 1 => vec![1, 0], _ => rng.bytes(2) }),
        _ => (DEFAULT_PID.to_vec(), DEFAULT_VER.to_vec()),
    };
    if ident.1 != DEFAULT_VER { stats.bump("gen.case.other-protocol-version"); }
    if ident.0 != DEFAULT_PID { stats.bump("gen.case.other-protocol-id"); }
    CASE_IDENTITY.with(|c| *c.borrow_mut() = ident);
    // 1. structured encodes at boundary sizes
    // (one case in eight: its packets are handshakes of one identity, each with another record of the
    // same sequence number)
    let recur = if rng.chance(1, 8) { Some((rng.below(3), 1 + rng.below(2))) } else { None };
    for _ in 0..3 {
        let iv = gen_iv(rng);
        let nonce = rng.bytes(12);
        let (mut kind, authlen) = gen_kind(rng, stats, recur);
        // (now and then the packet names the destination itself as its source: the codec has no opinion
        // on who talks to whom)
        if !kind.starts_with("w:") && rng.chance(1, 6) {
            kind.replace_range(2..66, &hx(&dst));
            stats.bump("gen.penc.source-is-destination");
        }
        let fixed = 16 + 23 + authlen;
        let is_w = kind.starts_with("w:");
        let msg_len = if is_w {
            0
        } else {
            let room = 1280usize.saturating_sub(fixed);
            match rng.below(8) {
                0 => 0,
                1 => room,                                   // exactly 1280
                2 => room.saturating_sub(1),
                3 => (63usize).saturating_sub(fixed),       // exactly the minimum
                4 => 44,
                _ => rng.below(room as u64 + 1) as usize,
            }
        };
        let msg = rng.bytes(msg_len);
        let ks = keystream(&dst, &iv, 23 + authlen);
        ops.push(format!(
            "penc {} {} {} {} {} {} {} {}",
            hx(&ks), hx(&case_pid()), hx(&case_ver()), hx(&dst), hx(&iv), hx(&nonce), kind, hx(&msg)
        ));
        stats.bump("gen.penc");
    }
    // 2. decodes: hand-built unmasked headers with mutated fields
    for _ in 0..4 {
        let iv = gen_iv(rng);
        let (kind, _) = gen_kind(rng, stats, None);
        let auth: Vec<u8> = {
            let f: Vec<&str> = kind.split(':').collect();
            match f[0] {
                "m" => unhx(f[1]).unwrap(),
                "w" => {
                    let mut a = unhx(f[1]).unwrap();
                    a.extend_from_slice(&f[2].parse::<u64>().unwrap().to_be_bytes());
                    a
                }
                _ => {
                    let sig = unhx(f[2]).unwrap();
                    let eph = unhx(f[3]).unwrap();
                    let mut a = unhx(f[1]).unwrap();
                    // size bytes: sometimes lie
                    let (s, e) = match rng.below(6) {
                        0 => (sig.len().wrapping_add(1) as u8, eph.len() as u8),
                        1 => (sig.len() as u8, eph.len().wrapping_add(7) as u8),
                        2 => (255, 255),
                        _ => (sig.len() as u8, eph.len() as u8),
                    };
                    a.push(s);
                    a.push(e);
                    a.extend_from_slice(&sig);
                    a.extend_from_slice(&eph);
                    if f[4] != "none" {
                        let mut r = unhx(f[4]).unwrap();
                        match rng.below(5) {
                            0 => { let i = rng.below(r.len() as u64) as usize; r[i] ^= 1 << rng.below(8); } // corrupt record
                            1 => r.extend_from_slice(&rng.bytes(3)),      // trailing junk after the record
                            2 => { r.truncate(r.len() / 2); }
                            _ => {}
                        }
                        a.extend_from_slice(&r);
                    } else if rng.chance(1, 6) {
                        a.extend_from_slice(&rng.bytes(5)); // junk instead of a record
                    }
                    a
                }
            }
        };
        let true_flag = match &kind[..1] { "m" => 0u8, "w" => 1, _ => 2 };
        let flag = match rng.below(8) { 0 => rng.below(256) as u8, 1 => (true_flag + 1) % 3, 2 => 3, _ => true_flag };
        let claimed: usize = match rng.below(8) {
            0 => auth.len() + 1,
            1 => auth.len().saturating_sub(1),
            2 => 0,
            3 => 65535,
            4 => rng.below(2000) as usize,
            _ => auth.len(),
        };
        let mut header = Vec::new();
        let pid: Vec<u8> = if rng.chance(1, 10) {
            match rng.below(4) { 0 => b"discv4".to_vec(), 1 => b"Discv5".to_vec(), 2 => DEFAULT_PID.to_vec(), _ => { let mut x = case_pid(); let i = rng.below(6) as usize; x[i] ^= 1 << rng.below(8); x } }
        } else { case_pid() };
        let ver: Vec<u8> = if rng.chance(1, 8) {
            match rng.below(5) { 0 => vec![0, 2], 1 => vec![0, 0], 2 => vec![1, 1], 3 => DEFAULT_VER.to_vec(), _ => rng.bytes(2) }
        } else { case_ver() };
        header.extend_from_slice(&pid);
        header.extend_from_slice(&ver);
        header.push(flag);
        header.extend_from_slice(&rng.bytes(12));
        header.extend_from_slice(&(claimed as u16).to_be_bytes());
        header.extend_from_slice(&auth);
        let body_len = match rng.below(6) {
            0 => 0,
            1 => 1,
            2 => 1280usize.saturating_sub(16 + header.len()),
            3 => 1281usize.saturating_sub(16 + header.len()),
            _ => rng.below(200) as usize,
        };
        let body = rng.bytes(body_len);
        let mut data = mask(&dst, &iv, &header, &body);
        // truncations / extensions / decode under another id
        match rng.below(8) {
            0 => { let n = rng.below(data.len() as u64 + 1) as usize; data.truncate(n); }
            1 => data.truncate(62),
            2 => data.truncate(63),
            3 => { let n = rng.below(300) as usize; data.extend_from_slice(&rng.bytes(n)); }
            _ => {}
        }
        let local = if rng.chance(1, 10) { rng.bytes(32) } else { dst.clone() };
        ops.push(pdec_line(&local, &data));
        stats.bump("gen.pdec.structured");
    }
    // 3. decodes: raw random byte strings of length 0..1400
    for _ in 0..2 {
        let n = match rng.below(6) { 0 => 0, 1 => 62, 2 => 63, 3 => 1280, 4 => 1281, _ => rng.below(1401) as usize };
        let data = rng.bytes(n);
        ops.push(pdec_line(&dst, &data));
        stats.bump("gen.pdec.random");
    }
    ops
}

//! kbucket engine (ops starting with `k`): C07 (structural invariants), C08 (closest / by-distance
//! lookups), C16 (IP diversity limits) against `KBucketsTable<NodeId, Enr>`.
use crate::rng::Rng;
use crate::util::*;
use crate::{Runner, Stats};
use discv5::enr::{CombinedKey, NodeId};
use discv5::kbucket::{
    ConnectionState, Entry, FailureReason, InsertResult, KBucketsTable, Key, NodeStatus, UpdateResult,
};
use discv5::{ConnectionDirection, Enr};
use std::collections::{BTreeMap, HashMap, HashSet};
use std::net::Ipv4Addr;
use std::time::Duration;

type Table = KBucketsTable<NodeId, Enr>;

/// Deterministic record for a value token `v<id>:<subnet|->`.
fn make_val(id: u64, subnet: Option<u64>) -> Enr {
    // all record variants of one table key (ids 8k .. 8k+7) are records of one node: same signing key
    let mut r = Rng::new((id / 8).wrapping_mul(0x1234_5678_9ABC_DEF1) ^ 0xA5A5);
    let key: CombinedKey = key_from(&mut r);
    // (host parts run over the whole /24, its first and its last address included: 10.0.0.255 is a host of
    // 10.0.0.0/16 like any other, and /24 is only the granularity the table counts in)
    let host = if id % 7 == 0 { 255 } else if id % 11 == 0 { 0 } else { (id % 250 + 1) as u8 };
    let ip4 = subnet.map(|s| (Ipv4Addr::new(10, (s >> 8) as u8, s as u8, host), 9000 + (id % 1000) as u16));
    // records without IPv4 often have an IPv6 address from the low end of the address space
    // (`::a.b.c.d` would read as an IPv4 address if somebody converted it)
    let ip6 = if subnet.is_none() && id % 2 == 0 {
        Some((std::net::Ipv6Addr::new(0, 0, 0, 0, 0, 0, 0, (id % 200 + 1) as u16), 9000 + (id % 1000) as u16))
    } else {
        None
    };
    // one record in five with an IPv4 address has no UDP port for it (a TCP port only) and is
    // reachable over IPv6: its IPv4 address counts towards the /24 limits like any other
    if let (Some((ip, port)), true) = (ip4, id % 5 == 3) {
        let mut b = Enr::builder();
        b.seq(id + 1);
        b.ip4(ip);
        b.tcp4(port);
        b.ip6(std::net::Ipv6Addr::new(0x2001, 0xdb8, 0, 0, 0, 0, 1, (id % 60000 + 1) as u16));
        b.udp6(9000 + (id % 1000) as u16);
        if let Ok(e) = b.build(&key) {
            return e;
        }
    }
    make_enr(&key, id + 1, ip4, ip6, 0)
}

fn parse_val(s: &str) -> Option<(u64, Option<u64>)> {
    let (a, b) = s.split_once(':')?;
    let id = a.strip_prefix('v')?.parse().ok()?;
    let sub = if b == "-" { None } else { Some(b.parse().ok()?) };
    Some((id, sub))
}

fn fail_name(r: &FailureReason) -> &'static str {
    match r {
        FailureReason::TooManyIncoming => "too-many-incoming",
        FailureReason::BucketFilter => "bucket-filter",
        FailureReason::TableFilter => "table-filter",
        FailureReason::KeyNonExistent => "no-key",
        FailureReason::BucketFull => "bucket-full",
        FailureReason::InvalidSelfUpdate => "self",
    }
}

fn show_upd(r: &UpdateResult) -> String {
    match r {
        UpdateResult::Updated => "updated".into(),
        UpdateResult::UpdatedAndPromoted => "promoted".into(),
        UpdateResult::UpdatedPending => "updated-pending".into(),
        UpdateResult::Failed(f) => format!("failed:{}", fail_name(f)),
        UpdateResult::NotModified => "not-modified".into(),
    }
}

fn show_ins(r: &InsertResult<NodeId>) -> String {
    match r {
        InsertResult::Inserted => "inserted".into(),
        InsertResult::Pending { disconnected } => format!("pending:{}", hx(&disconnected.preimage().raw())),
        InsertResult::StatusUpdated { promoted_to_connected } => format!("status-updated:{}", promoted_to_connected),
        InsertResult::ValueUpdated => "value-updated".into(),
        InsertResult::Updated { promoted_to_connected } => format!("updated:{}", promoted_to_connected),
        InsertResult::UpdatedPending => "updated-pending".into(),
        InsertResult::Failed(f) => format!("failed:{}", fail_name(f)),
    }
}

fn log2_dist(a: &[u8; 32], b: &[u8; 32]) -> Option<usize> {
    for i in 0..32 {
        let x = a[i] ^ b[i];
        if x != 0 {
            return Some(255 - (i * 8 + x.leading_zeros() as usize));
        }
    }
    None
}

fn xor_dist(a: &[u8; 32], b: &[u8; 32]) -> [u8; 32] {
    let mut o = [0u8; 32];
    for i in 0..32 {
        o[i] = a[i] ^ b[i];
    }
    o
}

#[derive(Clone, PartialEq, Eq, Debug)]
struct SnapNode {
    key: [u8; 32],
    conn: bool,
    incoming: bool,
    val: u64,
    subnet: Option<[u8; 3]>,
}

#[derive(Clone, Default, Debug)]
struct SnapBucket {
    nodes: Vec<SnapNode>,
    num_connected: usize,
    pending: Option<SnapNode>,
}

pub struct KbucketRunner {
    table: Option<Table>,
    local: [u8; 32],
    max_incoming: usize,
    pending_ms: u64,
    ip_filters: bool,
    now_ms: u64,
    op_index: u64,
    vals: HashMap<(u64, Option<u64>), Enr>,
    val_ids: HashMap<(NodeId, u64), u64>,
    keys_seen: HashSet<[u8; 32]>,
    stamps: HashMap<[u8; 32], u64>,
    pending_since: HashMap<[u8; 32], u64>,
    prev: BTreeMap<usize, SnapBucket>,
}

impl Default for KbucketRunner {
    fn default() -> Self {
        KbucketRunner {
            table: None,
            local: [0; 32],
            max_incoming: 16,
            pending_ms: 0,
            ip_filters: false,
            now_ms: 0,
            op_index: 0,
            vals: HashMap::new(),
            val_ids: HashMap::new(),
            keys_seen: HashSet::new(),
            stamps: HashMap::new(),
            pending_since: HashMap::new(),
            prev: BTreeMap::new(),
        }
    }
}

impl KbucketRunner {
    fn val(&mut self, tok: &str) -> Option<Enr> {
        let (id, sub) = parse_val(tok)?;
        if !self.vals.contains_key(&(id, sub)) {
            let e = make_val(id, sub);
            self.val_ids.insert((e.node_id(), e.seq()), id);
            self.vals.insert((id, sub), e);
        }
        self.vals.get(&(id, sub)).cloned()
    }

    fn key(&mut self, s: &str) -> Option<Key<NodeId>> {
        let b: [u8; 32] = unhx(s)?.try_into().ok()?;
        self.keys_seen.insert(b);
        Some(NodeId::new(&b).into())
    }

    fn val_id(&self, e: &Enr) -> u64 {
        *self.val_ids.get(&(e.node_id(), e.seq())).unwrap_or(&u64::MAX)
    }

    fn snapshot(&self) -> BTreeMap<usize, SnapBucket> {
        let mut out = BTreeMap::new();
        let Some(t) = self.table.as_ref() else { return out };
        for (i, b) in t.buckets_iter().enumerate() {
            let nodes: Vec<SnapNode> = b
                .iter()
                .map(|n| SnapNode {
                    key: n.key.preimage().raw(),
                    conn: n.status.is_connected(),
                    incoming: n.status.is_incoming(),
                    val: self.val_id(&n.value),
                    subnet: n.value.ip4().map(|ip| [ip.octets()[0], ip.octets()[1], ip.octets()[2]]),
                })
                .collect();
            let pending = b.pending().and_then(|p| {
                // the pending node's key is private: find it among the keys this case has used
                let k = self.keys_seen.iter().find(|k| b.as_pending(&NodeId::new(k).into()).is_some())?;
                Some(SnapNode {
                    key: *k,
                    conn: p.status().is_connected(),
                    incoming: p.status().is_incoming(),
                    val: self.val_id(p.value()),
                    subnet: p.value().ip4().map(|ip| [ip.octets()[0], ip.octets()[1], ip.octets()[2]]),
                })
            });
            if !nodes.is_empty() || b.pending().is_some() {
                out.insert(i, SnapBucket { nodes, num_connected: b.num_connected(), pending });
            }
        }
        out
    }

    fn dump(snap: &BTreeMap<usize, SnapBucket>) -> String {
        if snap.is_empty() {
            return "empty".into();
        }
        let show = |n: &SnapNode| {
            format!("{}/{}/{}/v{}", hx(&n.key), if n.conn { "c" } else { "d" }, if n.incoming { "i" } else { "o" }, n.val)
        };
        snap.iter()
            .map(|(i, b)| {
                format!(
                    "{}:[{}]nc={}/p={}",
                    i,
                    b.nodes.iter().map(show).collect::<Vec<_>>().join(","),
                    b.num_connected,
                    b.pending.as_ref().map(show).unwrap_or_else(|| "-".into())
                )
            })
            .collect::<Vec<_>>()
            .join(" ")
    }

    /// Implementation-side monitors for C07 / C16, evaluated on the table after every op.
    fn monitors(&mut self, op: &str, op_key: Option<[u8; 32]>, restamp: bool, out: &mut Vec<String>, stats: &mut Stats) {
        let snap = self.snapshot();
        // ledger of "last entered its group"
        for (i, b) in &snap {
            for n in &b.nodes {
                let was_pending = self.prev.get(i).and_then(|pb| pb.pending.as_ref()).map(|p| p.key == n.key).unwrap_or(false);
                let was_node = self.prev.get(i).map(|pb| pb.nodes.iter().any(|m| m.key == n.key)).unwrap_or(false);
                if (was_pending && !was_node) || !self.stamps.contains_key(&n.key) || (restamp && op_key == Some(n.key)) {
                    self.stamps.insert(n.key, self.op_index);
                }
            }
            if let Some(p) = &b.pending {
                let was = self.prev.get(i).and_then(|pb| pb.pending.as_ref()).map(|q| q.key == p.key).unwrap_or(false);
                if !was {
                    self.pending_since.insert(p.key, self.now_ms);
                }
            }
        }
        let mut all_keys: HashSet<[u8; 32]> = HashSet::new();
        let mut table_subnets: HashMap<[u8; 3], usize> = HashMap::new();
        for (i, b) in &snap {
            if b.nodes.len() > 16 {
                out.push(format!("!MON C07 bucket-overfull bucket={} len={}", i, b.nodes.len()));
            }
            let mut seen_conn = false;
            let mut last_stamp_dis = 0u64;
            let mut last_stamp_con = 0u64;
            let mut inc = 0;
            let mut bucket_subnets: HashMap<[u8; 3], usize> = HashMap::new();
            for n in b.nodes.iter().chain(b.pending.iter()) {
                if !all_keys.insert(n.key) {
                    out.push(format!("!MON C07 duplicate-key key={}", hx(&n.key)));
                }
                match log2_dist(&self.local, &n.key) {
                    None => out.push("!MON C07 local-id-stored".into()),
                    Some(d) if d != *i => out.push(format!("!MON C07 wrong-bucket bucket={} log2={}", i, d)),
                    _ => {}
                }
                if let Some(s) = n.subnet {
                    *table_subnets.entry(s).or_insert(0) += 1;
                }
            }
            for n in &b.nodes {
                if n.conn {
                    seen_conn = true;
                    let s = *self.stamps.get(&n.key).unwrap_or(&0);
                    if s < last_stamp_con {
                        out.push(format!("!MON C07 connected-group-out-of-order bucket={}", i));
                    }
                    last_stamp_con = s;
                    if n.incoming {
                        inc += 1;
                    }
                } else {
                    if seen_conn {
                        out.push(format!("!MON C07 disconnected-after-connected bucket={}", i));
                    }
                    let s = *self.stamps.get(&n.key).unwrap_or(&0);
                    if s < last_stamp_dis {
                        out.push(format!("!MON C07 disconnected-group-out-of-order bucket={}", i));
                    }
                    last_stamp_dis = s;
                }
                if let Some(s) = n.subnet {
                    *bucket_subnets.entry(s).or_insert(0) += 1;
                }
            }
            let nconn = b.nodes.iter().filter(|n| n.conn).count();
            if nconn != b.num_connected {
                out.push(format!("!MON C07 first-connected-pos-inconsistent bucket={}", i));
            }
            if inc > self.max_incoming {
                out.push(format!("!MON C07 too-many-incoming bucket={} n={}", i, inc));
            }
            if self.ip_filters {
                for (s, c) in &bucket_subnets {
                    if *c > 2 {
                        out.push(format!("!MON C16 bucket-subnet-limit bucket={} subnet={:?} n={}", i, s, c));
                    }
                }
            }
            // the pending node is discarded when the node it would have replaced (the head of the
            // bucket) is reported connected first
            if let (Some(pb), Some(k)) = (self.prev.get(i), op_key) {
                let head_was = pb.nodes.first().map(|n| n.key == k).unwrap_or(false);
                let now_conn = b.nodes.iter().find(|n| n.key == k).map(|n| n.conn).unwrap_or(false);
                let status_op = op.starts_with("kstatus") || op.starts_with("kins") || op.starts_with("kupd");
                if status_op && head_was && now_conn && pb.pending.is_some() {
                    if let (Some(pp), Some(pn)) = (&pb.pending, &b.pending) {
                        if pp.key == pn.key {
                            out.push(format!("!MON C07 pending-kept-although-the-head-reconnected bucket={}", i));
                        }
                    }
                }
            }
            // pending promotion semantics
            if let Some(pb) = self.prev.get(i) {
                if let Some(p) = &pb.pending {
                    let promoted = b.nodes.iter().any(|n| n.key == p.key) && !pb.nodes.iter().any(|n| n.key == p.key);
                    if promoted {
                        stats.bump("kb.pending-promoted");
                        let since = *self.pending_since.get(&p.key).unwrap_or(&0);
                        let removed_here = op.starts_with("krm") || op.starts_with("kupd") || op.starts_with("kins") || op.starts_with("kstatus");
                        if pb.nodes.len() >= 16 {
                            let first = &pb.nodes[0];
                            let first_gone = !b.nodes.iter().any(|n| n.key == first.key);
                            let other_gone = pb.nodes.iter().skip(1).any(|m| !b.nodes.iter().any(|n| n.key == m.key));
                            if other_gone && !removed_here {
                                out.push(format!("!MON C07 pending-evicted-wrong-node bucket={}", i));
                            }
                            if first_gone && first.conn && !(removed_here && op_key == Some(first.key)) {
                                out.push(format!("!MON C07 pending-evicted-connected-node bucket={}", i));
                            }
                            if self.now_ms < since + self.pending_ms && !(removed_here && op_key.map(|k| pb.nodes.iter().any(|n| n.key == k)).unwrap_or(false)) {
                                out.push(format!("!MON C07 pending-promoted-before-timeout bucket={}", i));
                            }
                        }
                    }
                }
            }
        }
        if self.ip_filters {
            for (s, c) in &table_subnets {
                if *c > 10 {
                    out.push(format!("!MON C16 table-subnet-limit subnet={:?} n={}", s, c));
                }
            }
        }
        let full = snap.values().filter(|b| b.nodes.len() >= 16).count();
        if full > 0 {
            stats.bump("kb.ops-with-full-bucket");
        }
        if snap.values().any(|b| b.pending.is_some()) {
            stats.bump("kb.ops-with-pending");
        }
        self.prev = snap;
    }

    fn sorted_scan(&self, target: &[u8; 32]) -> Vec<[u8; 32]> {
        let mut v: Vec<[u8; 32]> = self.table.as_ref().unwrap().iter_ref().map(|e| e.node.key.preimage().raw()).collect();
        v.sort_by_key(|k| xor_dist(k, target));
        v
    }
}

fn parse_state(s: &str) -> Option<ConnectionState> {
    match s {
        "c" => Some(ConnectionState::Connected),
        "d" => Some(ConnectionState::Disconnected),
        _ => None,
    }
}

fn parse_dir(s: &str) -> Option<ConnectionDirection> {
    match s {
        "i" => Some(ConnectionDirection::Incoming),
        "o" => Some(ConnectionDirection::Outgoing),
        _ => None,
    }
}

fn keys_line(keys: &[[u8; 32]]) -> String {
    if keys.is_empty() {
        "-".into()
    } else {
        keys.iter().map(|k| hx(k)).collect::<Vec<_>>().join(",")
    }
}

impl Runner for KbucketRunner {
    fn reset(&mut self) {
        *self = KbucketRunner::default();
    }

    fn step(&mut self, line: &str, out: &mut Vec<String>, stats: &mut Stats) {
        let t: Vec<&str> = line.split(' ').collect();
        self.op_index += 1;
        if t[0] == "knew" && t.len() == 6 {
            let Some(local) = unhx(t[1]).and_then(|b| <[u8; 32]>::try_from(b).ok()) else {
                out.push("bad-op".into());
                return;
            };
            self.reset();
            self.local = local;
            self.pending_ms = t[2].parse().unwrap_or(0);
            self.max_incoming = t[3].parse().unwrap_or(16);
            self.ip_filters = t[4] == "ip" && t[5] == "ip";
            self.table = Some(discv5::verif::kbucket::new_table(
                NodeId::new(&local),
                Duration::from_millis(self.pending_ms),
                self.max_incoming,
                t[4] == "ip",
                t[5] == "ip",
            ));
            out.push("ok".into());
            return;
        }
        if self.table.is_none() {
            out.push("bad-op".into());
            return;
        }
        match t.as_slice() {
            ["ksleep", ms] => {
                let ms: u64 = ms.parse().unwrap_or(0);
                std::thread::sleep(Duration::from_millis(ms));
                self.now_ms += ms;
                stats.bump("kb.sleeps");
                out.push("ok".into());
            }
            ["kins", key, val, conn, dir] => {
                let (Some(k), Some(v), Some(c), Some(d)) = (self.key(key), self.val(val), parse_state(conn), parse_dir(dir)) else {
                    out.push("bad-op".into());
                    return;
                };
                let r = self.table.as_mut().unwrap().insert_or_update(&k, v, NodeStatus { state: c, direction: d });
                let s = show_ins(&r);
                stats.bump(&format!("kins.{}", s.split(':').next().unwrap()));
                if let InsertResult::Failed(f) = &r {
                    stats.bump(&format!("kins.failed.{}", fail_name(f)));
                    if matches!(f, FailureReason::BucketFilter | FailureReason::TableFilter) && parse_val(val).map(|(_, sub)| sub.is_none()).unwrap_or(false) {
                        out.push(format!("!MON C16 record-without-ipv4-refused-by-ip-filter op=kins reason={}", fail_name(f)));
                    }
                }
                self.monitors("kins", Some(k.preimage().raw()), true, out, stats);
                out.push(s);
            }
            ["kupd", key, val, state] => {
                let (Some(k), Some(v)) = (self.key(key), self.val(val)) else {
                    out.push("bad-op".into());
                    return;
                };
                let st = parse_state(state);
                let r = self.table.as_mut().unwrap().update_node(&k, v, st);
                let s = show_upd(&r);
                if let UpdateResult::Failed(f) = &r {
                    if matches!(f, FailureReason::BucketFilter | FailureReason::TableFilter) && parse_val(val).map(|(_, sub)| sub.is_none()).unwrap_or(false) {
                        out.push(format!("!MON C16 record-without-ipv4-refused-by-ip-filter op=kupd reason={}", fail_name(f)));
                    }
                }
                stats.bump(&format!("kupd.{}", s));
                self.monitors("kupd", Some(k.preimage().raw()), st.is_some(), out, stats);
                out.push(s);
            }
            ["kstatus", key, state, dir] => {
                let (Some(k), Some(c)) = (self.key(key), parse_state(state)) else {
                    out.push("bad-op".into());
                    return;
                };
                let r = self.table.as_mut().unwrap().update_node_status(&k, c, parse_dir(dir));
                let s = show_upd(&r);
                stats.bump(&format!("kstatus.{}", s));
                self.monitors("kstatus", Some(k.preimage().raw()), true, out, stats);
                out.push(s);
            }
            ["krm", key] => {
                let Some(k) = self.key(key) else {
                    out.push("bad-op".into());
                    return;
                };
                let r = self.table.as_mut().unwrap().remove(&k);
                self.monitors("krm", Some(k.preimage().raw()), false, out, stats);
                out.push(format!("{}", r));
            }
            ["kentry", key] => {
                let Some(k) = self.key(key) else {
                    out.push("bad-op".into());
                    return;
                };
                let kraw = k.preimage().raw();
                let r = {
                    let mut guard = self.table.take().unwrap();
                    let r = match guard.entry(&k) {
                        Entry::Present(e, st) => {
                            let id = self.val_id(e.value());
                            format!(
                                "present:{}/{}/{}/v{}",
                                hx(&kraw),
                                if st.is_connected() { "c" } else { "d" },
                                if st.is_incoming() { "i" } else { "o" },
                                id
                            )
                        }
                        Entry::Pending(e, _) => format!("pending:v{}", self.val_id(e.value())),
                        Entry::Absent(_) => "absent".to_string(),
                        Entry::SelfEntry => "self".to_string(),
                    };
                    self.table = Some(guard);
                    r
                };
                self.monitors("kentry", Some(kraw), false, out, stats);
                out.push(r);
            }
            ["kiter"] => {
                let keys: Vec<[u8; 32]> = self.table.as_mut().unwrap().iter().map(|e| e.node.key.preimage().raw()).collect();
                self.monitors("kiter", None, false, out, stats);
                out.push(keys_line(&keys));
            }
            ["kclosest", target] | ["kclosestp", target, _] => {
                let Some(tb) = unhx(target).and_then(|b| <[u8; 32]>::try_from(b).ok()) else {
                    out.push("bad-op".into());
                    return;
                };
                let tk: Key<NodeId> = NodeId::new(&tb).into();
                let pred_mod: Option<u64> = t.get(2).and_then(|m| m.parse().ok());
                let mut flags = Vec::new();
                let keys: Vec<[u8; 32]> = if let Some(m) = pred_mod {
                    let ids = self.val_ids.clone();
                    let pred = move |e: &Enr| ids.get(&(e.node_id(), e.seq())).map(|id| id % m == 0).unwrap_or(false);
                    let v: Vec<([u8; 32], bool, bool)> = self
                        .table
                        .as_mut()
                        .unwrap()
                        .closest_values_predicate(&tk, &pred)
                        .map(|p| (p.key.preimage().raw(), p.predicate_match, pred(&p.value)))
                        .collect();
                    for (_, f, want) in &v {
                        if f != want {
                            out.push("!MON C08 predicate-flag-wrong".into());
                        }
                        flags.push(*f);
                    }
                    v.into_iter().map(|x| x.0).collect()
                } else {
                    self.table.as_mut().unwrap().closest_keys(&tk).map(|k| k.preimage().raw()).collect()
                };
                // monitor: exactly the sorted full scan
                let scan = self.sorted_scan(&tb);
                if keys != scan {
                    let mut uniq = HashSet::new();
                    let dup = keys.iter().any(|k| !uniq.insert(*k));
                    let sig = if dup {
                        "closest-yields-duplicate"
                    } else if keys.len() != scan.len() {
                        "closest-misses-nodes"
                    } else {
                        "closest-not-sorted"
                    };
                    out.push(format!("!MON C08 {} target-log2={:?}", sig, log2_dist(&self.local, &tb)));
                }
                if !scan.is_empty() {
                    stats.bump("kclosest.nonempty");
                }
                if self.prev.contains_key(&0) || self.prev.contains_key(&1) || self.prev.contains_key(&2) {
                    stats.bump("kclosest.low-bucket-occupied");
                }
                self.monitors("kclosest", None, false, out, stats);
                if pred_mod.is_some() {
                    let s: Vec<String> = keys.iter().zip(flags.iter()).map(|(k, f)| format!("{}/{}", hx(k), f)).collect();
                    out.push(if s.is_empty() { "-".into() } else { s.join(",") });
                } else {
                    out.push(keys_line(&keys));
                }
            }
            ["kbydist", ds, max_n] => {
                let dl: Vec<u64> = if *ds == "-" { vec![] } else { ds.split(',').filter_map(|d| d.parse().ok()).collect() };
                let max_n: usize = max_n.parse().unwrap_or(16);
                let keys: Vec<[u8; 32]> = self
                    .table
                    .as_mut()
                    .unwrap()
                    .nodes_by_distances(&dl, max_n)
                    .into_iter()
                    .map(|e| e.node.key.preimage().raw())
                    .collect();
                // monitor (for distinct distance lists): only nodes at the requested distances,
                // all of them up to the cap, nothing outside 1..=256
                let distinct = dl.iter().collect::<HashSet<_>>().len() == dl.len();
                let want: Vec<[u8; 32]> = {
                    let t = self.table.as_ref().unwrap();
                    let mut v = Vec::new();
                    for d in dl.iter().filter(|d| **d >= 1 && **d <= 256) {
                        for e in t.iter_ref() {
                            let k = e.node.key.preimage().raw();
                            if log2_dist(&self.local, &k) == Some(*d as usize - 1) {
                                v.push(k);
                            }
                        }
                    }
                    v
                };
                if distinct && max_n >= 1 {
                    let cap = want.len().min(max_n);
                    let got: HashSet<[u8; 32]> = keys.iter().cloned().collect();
                    let wanted: HashSet<[u8; 32]> = want.iter().cloned().collect();
                    if !got.is_subset(&wanted) {
                        out.push("!MON C08 bydist-returns-off-distance-node".into());
                    } else if keys.len() != cap || got.len() != keys.len() {
                        out.push(format!("!MON C08 bydist-wrong-count got={} want={}", keys.len(), cap));
                    }
                }
                if !keys.is_empty() {
                    stats.bump("kbydist.nonempty");
                }
                self.monitors("kbydist", None, false, out, stats);
                out.push(keys_line(&keys));
            }
            ["ktake"] => {
                let r = match self.table.as_mut().unwrap().take_applied_pending() {
                    None => "none".to_string(),
                    Some(a) => {
                        stats.bump("ktake.some");
                        format!(
                            "{}/{}",
                            hx(&a.inserted.preimage().raw()),
                            a.evicted.map(|n| hx(&n.key.preimage().raw())).unwrap_or_else(|| "-".into())
                        )
                    }
                };
                out.push(r);
            }
            // configuration-level check of C16: a node built through `Discv5::new` with `ip_limit`
            // enforces the /24 limits whatever its listen mode (monitor only; the model answers "ok")
            ["kdiscv5", mode, seed] => {
                let seed: u64 = seed.parse().unwrap_or(1);
                let mut r = Rng::new(0xD15C_0000 + seed);
                let key = key_from(&mut r);
                let lc = match *mode {
                    "ip6" => discv5::ListenConfig::Ipv6 { ip: std::net::Ipv6Addr::LOCALHOST, port: 9000 },
                    "dual" => discv5::ListenConfig::DualStack { ipv4: Ipv4Addr::LOCALHOST, ipv4_port: 9000, ipv6: std::net::Ipv6Addr::LOCALHOST, ipv6_port: 9001 },
                    _ => discv5::ListenConfig::Ipv4 { ip: Ipv4Addr::LOCALHOST, port: 9000 },
                };
                let local = make_enr(&key, 1, Some((Ipv4Addr::new(127, 0, 0, 1), 9000)), Some((std::net::Ipv6Addr::LOCALHOST, 9001)), 0);
                let cfg = discv5::ConfigBuilder::new(lc).ip_limit().build();
                if let Ok(d) = discv5::Discv5::new(local, key, cfg) {
                    let mut per_bucket: HashMap<usize, usize> = HashMap::new();
                    let mut total = 0usize;
                    let lid = d.local_enr().node_id().raw();
                    for i in 0..120u64 {
                        let k = key_from(&mut r);
                        // dual-stack records of one /24 (contactable in every listen mode)
                        let e = make_enr(&k, 1, Some((Ipv4Addr::new(192, 168, 7, (i % 250 + 1) as u8), 9000 + i as u16)),
                            Some((std::net::Ipv6Addr::new(0x2001, 0xdb8, 0, 0, 0, 0, 0, i as u16 + 1), 9000)), 0);
                        if d.add_enr(e.clone()).is_ok() {
                            total += 1;
                            if let Some(b) = log2_dist(&lid, &e.node_id().raw()) {
                                *per_bucket.entry(b).or_insert(0) += 1;
                            }
                        }
                    }
                    stats.bump("kb.discv5-config-check");
                    if total > 10 {
                        out.push(format!("!MON C16 table-subnet-limit-not-enforced-by-configured-node mode={} n={}", mode, total));
                    }
                    if let Some((b, n)) = per_bucket.iter().find(|(_, n)| **n > 2) {
                        out.push(format!("!MON C16 bucket-subnet-limit-not-enforced-by-configured-node mode={} bucket={} n={}", mode, b, n));
                    }
                }
                out.push("ok".into());
            }
            ["kdump"] => {
                let snap = self.snapshot();
                out.push(Self::dump(&snap));
            }
            _ => out.push("bad-op".into()),
        }
    }
}

// ---------------------------------------------------------------------------------------------
// generator

fn key_at(local: &[u8; 32], bucket: usize, rng: &mut Rng) -> [u8; 32] {
    // distance with most significant bit `bucket`, random lower bits
    let mut d = [0u8; 32];
    let r = rng.bytes(32);
    for bit in 0..bucket {
        let byte = 31 - bit / 8;
        if r[byte] & (1 << (bit % 8)) != 0 {
            d[byte] |= 1 << (bit % 8);
        }
    }
    d[31 - bucket / 8] |= 1 << (bucket % 8);
    xor_dist(local, &d)
}

pub fn gen_case(rng: &mut Rng, tier: &str, profile: &str, stats: &mut Stats) -> Vec<String> {
    let mut ops = Vec::new();
    let local: [u8; 32] = rng.bytes(32).try_into().unwrap();
    let ip = profile == "C16" || (profile != "C07" && profile != "C08" && rng.chance(1, 3));
    // pending-timeout regimes: already elapsed (0), never elapses, elapses mid-sequence (real sleeps)
    let c07_variant = if profile == "C07" { rng.below(12) } else { 99 };
    let directed_c07 = c07_variant < 2;
    let directed_c07b = c07_variant == 2 || c07_variant == 3 || c07_variant == 5; // incoming limit vs. promotion
    // (variant 5: a member leaves before the candidate's timeout elapses - the candidate is promoted
    // into a bucket that has room, not in exchange for the disconnected head)
    let c07b_room = c07_variant == 5;
    let directed_c07c = c07_variant == 4; // the only disconnected node disappears while a candidate waits
    let c16_variant = if profile == "C16" { rng.below(10) } else { 99 };
    let directed_c08 = profile == "C08" && rng.chance(1, 8);
    let directed_c16b = c16_variant < 2;
    let directed_c16c = c16_variant == 2; // the candidate no longer passes the bucket filter when its timeout elapses
    let regime = if directed_c07 || directed_c07b || directed_c07c || directed_c16b || directed_c16c || directed_c08 { 0 } else if tier == "thorough" { rng.below(12) } else { rng.below(40) };
    let (pending_ms, sleeps) = match regime {
        0 => (200u64, true),
        r if r % 2 == 1 => (0, false),
        _ => (100_000_000, false),
    };
    let max_in = if directed_c07b { rng.range(2, 8) } else { match rng.below(8) {
        0 => 0,
        1 => 1,
        2 | 3 => rng.below(17),
        _ => 16,
    } };
    ops.push(format!("knew {} {} {} {} {}", hx(&local), pending_ms, max_in, if ip { "ip" } else { "none" }, if ip { "ip" } else { "none" }));
    // key universe: 2-4 hot buckets (driven to fullness), low-index buckets, a spread over all distances
    let mut hot: Vec<usize> = vec![255 - rng.below(3) as usize];
    if rng.chance(1, 2) {
        hot.push(rng.range(5, 250) as usize);
    }
    hot.push(rng.range(4, 8) as usize);
    let mut keys: Vec<[u8; 32]> = Vec::new();
    for &h in &hot {
        for _ in 0..rng.range(17, 22) {
            keys.push(key_at(&local, h, rng));
        }
    }
    for b in 0..4usize {
        for _ in 0..(1usize << b).min(3) {
            keys.push(key_at(&local, b, rng));
        }
    }
    let nspread = if ip { 16 } else { 6 };
    for j in 0..nspread {
        // with IP filters: many different medium buckets, so that one /24 can reach the table limit
        let b = if ip { 100 + 7 * j as usize + rng.below(5) as usize } else { rng.below(256) as usize };
        keys.push(key_at(&local, b, rng));
    }
    keys.push(local);
    let mut seen = std::collections::HashSet::new();
    keys.retain(|k| seen.insert(*k));
    // values: per key a few record variants; few subnets so that IP limits are reached
    let nsub = rng.range(2, 3);
    let mut next_val = 0u64;
    let mut vals: Vec<Vec<String>> = Vec::new();
    let mut key_no = 0u64;
    let nhot_keys = keys.len().saturating_sub(nspread as usize + 9);
    for (kidx, _) in keys.iter().enumerate() {
        let mut v = Vec::new();
        for j in 0..3 {
            let sub = if !ip {
                if rng.chance(1, 7) { None } else { Some(rng.below(nsub)) }
            } else if kidx < nhot_keys {
                // hot (full) buckets need many records that the bucket filter lets in: mostly no IPv4
                if rng.chance(7, 10) { None } else { Some(rng.below(nsub)) }
            } else {
                // spread keys: mostly the same /24, to saturate the table limit
                match rng.below(10) { 0 => None, 1 | 2 => Some(1), _ => Some(0) }
            };
            next_val = key_no * 8 + j as u64;
            v.push(format!("v{}:{}", next_val, sub.map(|s| s.to_string()).unwrap_or_else(|| "-".into())));
            if j == 0 && rng.chance(1, 2) {
                break;
            }
        }
        vals.push(v);
        key_no += 1;
    }
    if directed_c07 {
        // directed prefix: a full bucket with several disconnected and connected nodes, a pending
        // candidate whose status changes while it waits, the timeout elapsing, then an access
        stats.bump("gen.case.directed-pending-status-change");
        let hb = hot[0];
        let mut fresh = 2_000_000u64;
        // (sometimes every node of the bucket is disconnected)
        let ndis = if rng.chance(1, 4) { 16 } else { rng.range(2, 5) };
        for j in 0..16 {
            let k = key_at(&local, hb, rng);
            ops.push(format!("kins {} v{}:- {} o", hx(&k), fresh, if j < ndis { "d" } else { "c" }));
            fresh += 8;
        }
        let pk = key_at(&local, hb, rng);
        ops.push(format!("kins {} v{}:- c {}", hx(&pk), fresh, if rng.chance(1, 2) { "i" } else { "o" }));
        ops.push("kdump".into());
        let how = rng.below(4);
        match how {
            0 | 3 => ops.push(format!("kstatus {} d -", hx(&pk))),
            1 => ops.push(format!("kstatus {} c o", hx(&pk))),
            _ => {}
        }
        if how == 3 {
            // a second candidate is offered while the first (now disconnected) still waits; the
            // bucket is looked at after the first candidate's timeout and before the second one's
            let pk2 = key_at(&local, hb, rng);
            ops.push("ksleep 100".into());
            ops.push(format!("kins {} v{}:- c o", hx(&pk2), fresh + 8));
            ops.push("ksleep 120".into());
            ops.push(format!("kentry {}", hx(&pk2)));
            ops.push("kdump".into());
        }
        ops.push("ksleep 450".into());
        ops.push(format!("kentry {}", hx(&pk)));
        ops.push("kdump".into());
        ops.push("ktake".into());
    }
    if directed_c08 {
        // directed prefix: a full bucket with a waiting candidate loses a member; once the candidate's
        // timeout has elapsed the by-distance lookup itself lets it in - and must still return
        // everything stored at the requested distances, up to the cap
        stats.bump("gen.case.directed-bydist-promotes-pending");
        let hb = hot[0];
        let mut members: Vec<[u8; 32]> = Vec::new();
        for j in 0..16u64 {
            let k = key_at(&local, hb, rng);
            members.push(k);
            ops.push(format!("kins {} v{}:- {} o", hx(&k), 7_000_000 + 8 * j, if j == 0 { "d" } else { "c" }));
        }
        let pk = key_at(&local, hb, rng);
        ops.push(format!("kins {} v{}:- c o", hx(&pk), 7_000_000 + 8 * 16));
        // several members leave: the candidate still waits although there is room
        if rng.chance(1, 3) {
            // (or all of them: the bucket is empty, the candidate still waits for its timeout)
            stats.bump("gen.case.directed-bucket-emptied-around-a-waiting-candidate");
            for m in members.iter() {
                ops.push(format!("krm {}", hx(m)));
            }
        } else {
            let gone = rng.range(1, 10) as usize;
            for m in members.iter().skip(1).take(gone) {
                ops.push(format!("krm {}", hx(m)));
            }
        }
        // another bucket with a few nodes
        let ob = hot[hot.len() - 1];
        for j in 0..rng.range(2, 6) {
            let k = key_at(&local, ob, rng);
            ops.push(format!("kins {} v{}:- c o", hx(&k), 7_100_000 + 8 * j));
        }
        // and a few buckets holding a single node each (a walk that stops counting too early loses them)
        for b in [3usize, 40, 130, 200] {
            if b != hb && b != ob && rng.chance(2, 3) {
                let k = key_at(&local, b, rng);
                ops.push(format!("kins {} v{}:- c o", hx(&k), 7_200_000 + 8 * b as u64));
            }
        }
        ops.push("ksleep 450".into());
        let other = ob as u64 + 1;
        if rng.chance(1, 3) {
            // (the candidate is let in by an operation that is not a lookup; the lookup comes afterwards)
            match rng.below(3) {
                0 => ops.push("kiter".into()),
                1 => ops.push(format!("kstatus {} c o", hx(&pk))),
                _ => ops.push(format!("kbydist {} 16", hb + 1)),
            }
            let target: [u8; 32] = rng.bytes(32).try_into().unwrap();
            ops.push(format!("kclosest {}", hx(&target)));
            ops.push(format!("kclosestp {} 1", hx(&target)));
        }
        if rng.chance(1, 2) {
            // (or a closest-nodes walk, which promotes the candidate while it runs)
            let target: [u8; 32] = rng.bytes(32).try_into().unwrap();
            ops.push(format!("kclosest {}", hx(&target)));
            ops.push("kdump".into());
        }
        let ds = match rng.below(3) { 0 => format!("{}", hb + 1), 1 => format!("{},{}", other, hb + 1), _ => format!("{},{}", hb + 1, other) };
        ops.push(format!("kbydist {} {}", ds, *rng.pick(&[16u64, 16, 40, 5])));
        ops.push("kdump".into());
    }
    if directed_c07b {
        // directed prefix: the bucket's connected-incoming count is one below the limit when a
        // connected-incoming candidate is queued, reaches the limit while it waits, then the
        // candidate's timeout elapses (the head of the bucket is a disconnected *incoming* node)
        stats.bump("gen.case.directed-incoming-limit-promotion");
        let hb = hot[0];
        let mut fresh = 4_000_000u64;
        let mut members: Vec<[u8; 32]> = Vec::new();
        for j in 0..16u64 {
            let k = key_at(&local, hb, rng);
            members.push(k);
            let (st, dir) = if j == 0 { ("d", "i") } else if j < max_in { ("c", "i") } else { ("c", "o") };
            ops.push(format!("kins {} v{}:- {} {}", hx(&k), fresh, st, dir));
            fresh += 8;
        }
        let pk = key_at(&local, hb, rng);
        ops.push(format!("kins {} v{}:- c i", hx(&pk), fresh));
        ops.push(format!("kstatus {} c i", hx(&members[15])));
        if c07b_room {
            stats.bump("gen.case.directed-incoming-limit-promotion-into-room");
            ops.push(format!("krm {}", hx(&members[14])));
        }
        ops.push("kdump".into());
        ops.push("ksleep 450".into());
        ops.push(format!("kentry {}", hx(&pk)));
        ops.push("kdump".into());
    }
    if directed_c07c {
        stats.bump("gen.case.directed-disconnected-head-removed");
        let hb = hot[0];
        let mut fresh = 5_000_000u64;
        let mut members: Vec<[u8; 32]> = Vec::new();
        for j in 0..16 {
            let k = key_at(&local, hb, rng);
            members.push(k);
            ops.push(format!("kins {} v{}:- {} o", hx(&k), fresh, if j == 0 { "d" } else { "c" }));
            fresh += 8;
        }
        let pk = key_at(&local, hb, rng);
        ops.push(format!("kins {} v{}:- c o", hx(&pk), fresh));
        fresh += 8;
        ops.push(format!("krm {}", hx(&members[0])));
        let nk = key_at(&local, hb, rng);
        ops.push(format!("kins {} v{}:- c o", hx(&nk), fresh));
        ops.push("kdump".into());
        ops.push("ksleep 450".into());
        ops.push(format!("kentry {}", hx(&pk)));
        ops.push("kdump".into());
    }
    if directed_c16b {
        // directed prefix: bucket already holding two records of one /24, a pending candidate from
        // elsewhere, a slot freed before its timeout, then the candidate re-inserted with a record
        // of that /24 (and, as a variant, updated in place)
        stats.bump("gen.case.directed-pending-reinsert");
        let hb = hot[0];
        let mut fresh = 3_000_000u64;
        let mut members: Vec<[u8; 32]> = Vec::new();
        for j in 0..16 {
            let k = key_at(&local, hb, rng);
            members.push(k);
            let sub = if j == 3 || j == 9 { "0" } else { "-" };
            ops.push(format!("kins {} v{}:{} {} o", hx(&k), fresh, sub, if j < 2 { "d" } else { "c" }));
            fresh += 8;
        }
        let pk = key_at(&local, hb, rng);
        ops.push(format!("kins {} v{}:1 c o", hx(&pk), fresh));
        // (another record of the same node)
        fresh += 1;
        ops.push(format!("krm {}", hx(&members[rng.range(4, 8) as usize])));
        if rng.chance(1, 2) {
            ops.push(format!("kins {} v{}:0 c o", hx(&pk), fresh));
        } else {
            ops.push(format!("kupd {} v{}:0 -", hx(&pk), fresh));
            ops.push("ksleep 450".into());
            ops.push(format!("kentry {}", hx(&pk)));
        }
        ops.push("kdump".into());
    }
    if directed_c16c {
        // directed prefix: a candidate of some /24 is queued while the bucket holds one record of
        // that /24; a member's record then moves into the /24; when the candidate's timeout elapses
        // the bucket already holds two of them
        stats.bump("gen.case.directed-pending-fails-filter-at-promotion");
        let hb = hot[0];
        let base = 6_000_000u64;
        let mut members: Vec<[u8; 32]> = Vec::new();
        for j in 0..16u64 {
            let k = key_at(&local, hb, rng);
            members.push(k);
            let sub = if j == 3 { "0" } else { "-" };
            ops.push(format!("kins {} v{}:{} {} o", hx(&k), base + 8 * j, sub, if j == 0 { "d" } else { "c" }));
        }
        let pk = key_at(&local, hb, rng);
        ops.push(format!("kins {} v{}:0 c o", hx(&pk), base + 8 * 16));
        let mover = rng.range(5, 12);
        ops.push(format!("kupd {} v{}:0 -", hx(&members[mover as usize]), base + 8 * mover + 1));
        if rng.chance(1, 2) {
            // (the candidate's peer disconnects while it waits: the filter applies all the same)
            ops.push(format!("kstatus {} d -", hx(&pk)));
        }
        ops.push("kdump".into());
        ops.push("ksleep 450".into());
        ops.push(format!("kentry {}", hx(&pk)));
        ops.push("kdump".into());
        ops.push("ktake".into());
    }
    if ip && !directed_c16b && !directed_c16c && rng.chance(1, 3) {
        // directed prefix: a full bucket of records without IPv4 whose first node is disconnected,
        // one /24 driven close to the table limit in other buckets, then a pending candidate of
        // that /24, more inserts of that /24 elsewhere, and finally an access that promotes it.
        stats.bump("gen.case.directed-pending-saturation");
        let hb = hot[0];
        let mut fresh = 1_000_000u64;
        let mut hot_keys: Vec<[u8; 32]> = Vec::new();
        for j in 0..16 {
            let k = key_at(&local, hb, rng);
            hot_keys.push(k);
            ops.push(format!("kins {} v{}:- {} o", hx(&k), fresh, if j < 2 { "d" } else { "c" }));
            fresh += 8;
        }
        let near = rng.range(7, 10);
        let mut b = 20usize;
        let mut placed = 0;
        while placed < near {
            // at most two of one /24 per bucket: use a new bucket every second record
            let k = key_at(&local, b, rng);
            ops.push(format!("kins {} v{}:0 c o", hx(&k), fresh));
            fresh += 8;
            placed += 1;
            if placed % 2 == 0 {
                b += 3;
            }
        }
        let pk = key_at(&local, hb, rng);
        ops.push(format!("kins {} v{}:0 c o", hx(&pk), fresh));
        fresh += 8;
        for _ in 0..rng.range(1, 4) {
            b += 3;
            let k = key_at(&local, b, rng);
            ops.push(format!("kins {} v{}:0 c o", hx(&k), fresh));
            fresh += 8;
        }
        if sleeps {
            ops.push("ksleep 450".into());
        }
        ops.push(format!("kentry {}", hx(&hot_keys[5])));
        ops.push("kdump".into());
    }
    let nops = if tier == "thorough" { rng.range(200, 400) } else { rng.range(150, 300) };
    let mut sleeps_left = if sleeps { 2 } else { 0 };
    for i in 0..nops {
        // first third: fill the hot buckets; afterwards churn over the whole universe
        let nhot = nhot_keys.max(1);
        let ki = if i < nops / 3 || rng.chance(if ip { 1 } else { 2 }, 3) { rng.below(nhot as u64) as usize } else { rng.below(keys.len() as u64) as usize };
        let key = hx(&keys[ki]);
        let val = rng.pick(&vals[ki]).clone();
        let conn = if rng.chance(3, 5) { "c" } else { "d" };
        let dir = if rng.chance(1, 3) { "i" } else { "o" };
        match rng.below(100) {
            0..=44 => ops.push(format!("kins {} {} {} {}", key, val, conn, dir)),
            45..=59 => ops.push(format!("kstatus {} {} {}", key, conn, if rng.chance(1, 3) { "-" } else { dir })),
            60..=69 => ops.push(format!("kupd {} {} {}", key, val, match rng.below(3) { 0 => "c", 1 => "d", _ => "-" })),
            70..=76 => ops.push(format!("krm {}", key)),
            77..=80 => ops.push(format!("kentry {}", key)),
            81..=83 => ops.push("kiter".into()),
            84..=89 => {
                // targets: the local id, stored ids, ids at every log2 distance, low bits set
                let target: [u8; 32] = match rng.below(6) {
                    0 => local,
                    1 => keys[rng.below(keys.len() as u64) as usize],
                    2 => key_at(&local, rng.below(256) as usize, rng),
                    3 => {
                        let mut t = key_at(&local, rng.below(256) as usize, rng);
                        t[31] ^= rng.range(1, 7) as u8; // lowest bits of the distance set
                        t
                    }
                    4 => key_at(&local, rng.below(4) as usize, rng),
                    _ => rng.bytes(32).try_into().unwrap(),
                };
                if rng.chance(1, 3) {
                    ops.push(format!("kclosestp {} {}", hx(&target), rng.range(1, 3)));
                } else {
                    ops.push(format!("kclosest {}", hx(&target)));
                }
                stats.bump("gen.kclosest");
            }
            90..=94 => {
                let n = rng.below(5);
                let mut ds: Vec<String> = Vec::new();
                for _ in 0..n {
                    let d = match rng.below(8) {
                        0 => 0,
                        1 => 257,
                        2 => 256,
                        3 => rng.range(1, 9),
                        // far outside 1..=256, but equal to an occupied distance when cut to 8 / 16 / 32 bits
                        4 => {
                            let base = hot[rng.below(hot.len() as u64) as usize] as u64 + 1;
                            *rng.pick(&[base + 256, base + 65536, base + (1u64 << 32), u64::MAX, u64::MAX - 255 + base % 256])
                        }
                        _ => hot[rng.below(hot.len() as u64) as usize] as u64 + 1,
                    };
                    if !ds.contains(&d.to_string()) || rng.chance(1, 10) {
                        ds.push(d.to_string());
                    }
                }
                // (the cap is the caller's: also absurdly large ones)
                let max_n = match rng.below(16) { 0..=3 => 1, 4..=7 => 16, 8..=10 => 5, 11 => *rng.pick(&[u32::MAX as u64, 1u64 << 40, u64::MAX >> 1]), _ => rng.range(1, 40) };
                ops.push(format!("kbydist {} {}", if ds.is_empty() { "-".into() } else { ds.join(",") }, max_n));
            }
            95..=96 => ops.push("ktake".into()),
            _ => {
                if sleeps_left > 0 && i > nops / 3 {
                    ops.push("ksleep 450".into());
                    sleeps_left -= 1;
                } else {
                    ops.push("kdump".into());
                }
            }
        }
        if rng.chance(1, 6) {
            ops.push("kdump".into());
        }
    }
    if profile == "C16" && rng.chance(1, 4) {
        ops.push(format!("kdiscv5 {} {}", rng.pick(&["ip4", "ip6", "dual"]), rng.below(1000)));
    }
    ops.push("kiter".into());
    ops.push("kdump".into());
    stats.bump(if ip { "gen.case.ip-filters" } else { "gen.case.no-filters" });
    stats.bump(&format!("gen.case.pending-regime.{}", if sleeps { "mid-sequence" } else if pending_ms == 0 { "elapsed" } else { "never" }));
    ops
}

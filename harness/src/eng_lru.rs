//! lru engine (ops starting with `c`): `LruTimeCache<u64, u64>` through `discv5::verif::lru::Lru`.
//!
//!   cnew TTL CAP | cins T K V | cget T K | cgm T K W | cpeek T K | clen T | crm T K | csweep T
//!
//! The cache reads `Instant::now()`, so the runner works in real time: `T` is the *scripted* time
//! in milliseconds since `cnew`; before an op the runner sleeps until `start + T·scale` ms and the
//! cache is created with `ttl = TTL·scale` ms.  Replies and monitors only ever mention scripted
//! values.  The generator keeps every (stamp, now) pair that an op can compare either clearly
//! inside the ttl (gap ≤ 0.6·ttl) or clearly outside (gap ≥ 2·ttl + 20 ms).  The runner measures
//! the real clock around every call; when the real gap of such a pair is not on the same side of
//! the ttl as the scripted one (a descheduled process), the whole case is re-run from `cnew` with
//! doubled durations (scale 2, 4, 8) before its replies are used.  This decision is taken from the
//! clock alone, never from what the cache returned.
use crate::rng::Rng;
use crate::util::*;
use crate::{Runner, Stats};
use discv5::verif::lru::Lru;
use std::collections::{BTreeSet, HashMap};
use std::panic::AssertUnwindSafe;
use std::time::{Duration, Instant};

/// Keys are drawn from `0..KEYSPACE`; the monitors probe all of them with `peek`.
const KEYSPACE: u64 = 8;

// ---------------------------------------------------------------------------------------------
// bookkeeping of stamps (generator: where may a sleep go; runner: which clock pairs matter)

#[derive(Clone)]
struct Stamps {
    /// (key, scripted stamp, index of the stamping op, scripted time of the insert), front first.
    entries: Vec<(u64, u64, usize, u64)>,
    ttl: u64,
    cap: Option<usize>,
}

impl Stamps {
    fn new(ttl: u64, cap: Option<usize>) -> Self {
        Stamps { entries: Vec::new(), ttl, cap }
    }
    fn has(&self, k: u64) -> bool {
        self.entries.iter().any(|e| e.0 == k)
    }
    fn expired(&self, stamp: u64, t: u64) -> bool {
        stamp + self.ttl < t
    }
    /// Returns true if an entry was evicted.
    fn insert(&mut self, t: u64, k: u64, op: usize) -> bool {
        self.entries.retain(|e| e.0 != k);
        self.entries.push((k, t, op, t));
        if let Some(c) = self.cap {
            if self.entries.len() > c {
                self.entries.remove(0);
                return true;
            }
        }
        false
    }
    /// 0 = vacant, 1 = expired (removed), 2 = hit (refreshed), 3 = hit more than one ttl after
    /// the insert (kept alive by earlier hits).
    fn touch(&mut self, t: u64, k: u64, op: usize) -> u8 {
        match self.entries.iter().position(|e| e.0 == k) {
            None => 0,
            Some(i) => {
                let e = self.entries.remove(i);
                if self.expired(e.1, t) {
                    1
                } else {
                    self.entries.push((k, t, op, e.3));
                    if t > e.3 + self.ttl {
                        3
                    } else {
                        2
                    }
                }
            }
        }
    }
    fn remove(&mut self, k: u64) {
        self.entries.retain(|e| e.0 != k);
    }
    fn sweep(&mut self, t: u64) -> usize {
        let mut n = 0;
        while let Some(f) = self.entries.first() {
            if !self.expired(f.1, t) {
                break;
            }
            self.entries.remove(0);
            n += 1;
        }
        n
    }
}

// ---------------------------------------------------------------------------------------------
// runner

struct Live {
    cache: Lru,
    start: Instant,
    ttl: u64,
    cap: Option<usize>,
    stamps: Stamps,
    /// Real clock around op `i`: (just before the first call, just after the last call).
    marks: Vec<(Instant, Instant)>,
    /// Monitor ledger, from the implementation's observable behaviour only: key → (scripted time,
    /// sequence number) of the last insert / last `get`/`get_mut` that returned a value.
    last_use: HashMap<u64, (u64, u64)>,
    seq: u64,
}

#[derive(Default)]
pub struct LruRunner {
    history: Vec<String>,
    scale: u64,
    live: Option<Live>,
}

fn show_opt(v: Option<u64>) -> String {
    match v {
        Some(v) => format!("some {}", v),
        None => "none".to_string(),
    }
}

fn visible(cache: &Lru) -> Option<BTreeSet<u64>> {
    no_panic(AssertUnwindSafe(|| (0..KEYSPACE).filter(|k| cache.peek(k).is_some()).collect()))
}

impl LruRunner {
    /// Executes `history[idx]` on the live cache.  Returns (reply, monitor lines, clock agreed).
    fn exec(&mut self, idx: usize, stats: Option<&mut Stats>) -> (String, Vec<String>, bool) {
        let line = self.history[idx].clone();
        let t: Vec<&str> = line.split(' ').collect();
        let mut mons = Vec::new();
        let num = |s: &str| s.parse::<u64>().ok();
        if let ["cnew", ttl, cap] = t.as_slice() {
            let (Some(ttl), Some(cap)) = (num(ttl), if *cap == "none" { Some(None) } else { num(cap).map(|c| Some(c as usize)) }) else {
                return ("bad-op".into(), mons, true);
            };
            let scale = self.scale.max(1);
            let now = Instant::now();
            self.live = Some(Live {
                cache: Lru::new(Duration::from_millis(ttl * scale), cap),
                start: now,
                ttl,
                cap,
                stamps: Stamps::new(ttl, cap),
                marks: vec![(now, now)],
                last_use: HashMap::new(),
                seq: 0,
            });
            return ("ok".into(), mons, true);
        }
        let scale = self.scale.max(1);
        let Some(lv) = self.live.as_mut() else {
            return ("bad-op".into(), mons, true);
        };
        // parse
        let (name, ts, k, v) = match t.as_slice() {
            [n @ ("cins" | "cgm"), ts, k, v] => (*n, num(ts), num(k), num(v)),
            [n @ ("cget" | "cpeek" | "crm"), ts, k] => (*n, num(ts), num(k), Some(0)),
            [n @ ("clen" | "csweep"), ts] => (*n, num(ts), Some(0), Some(0)),
            _ => return ("bad-op".into(), mons, true),
        };
        let (Some(ts), Some(k), Some(v)) = (ts, k, v) else {
            return ("bad-op".into(), mons, true);
        };
        // real time: wait for the scripted instant
        let target = lv.start + Duration::from_millis(ts * scale);
        let now = Instant::now();
        if target > now {
            std::thread::sleep(target - now);
        }
        let before = Instant::now();
        let mut st = stats;
        let mut bump = |s: &str| {
            if let Some(st) = st.as_mut() {
                st.bump(s)
            }
        };
        let ttl = lv.ttl;
        let cache = &mut lv.cache;
        let mut panicked = false;
        let reply = match name {
            "cins" => {
                let vis_before = visible(cache);
                let len_before = no_panic(AssertUnwindSafe(|| cache.len()));
                if no_panic(AssertUnwindSafe(|| cache.insert(k, v))).is_none() {
                    panicked = true;
                }
                let vis_after = visible(cache);
                let len_after = no_panic(AssertUnwindSafe(|| cache.len()));
                if let (Some(vb), Some(va), Some(la)) = (vis_before, vis_after, len_after) {
                    if !va.contains(&k) && lv.cap != Some(0) && k < KEYSPACE {
                        mons.push(format!("!MON C15 inserted-key-missing key={} cap={:?}", k, lv.cap));
                    }
                    let gone: Vec<u64> = vb.iter().filter(|x| **x != k && !va.contains(x)).cloned().collect();
                    if !gone.is_empty() {
                        bump("c.ins.evicted-visible");
                        // the least recently used visible key, by the ledger
                        let expected = if vb.contains(&k) {
                            None
                        } else {
                            vb.iter().filter_map(|x| lv.last_use.get(x).map(|u| (u.1, *x))).min().map(|m| m.1)
                        };
                        if gone.iter().any(|g| Some(*g) != expected) {
                            mons.push(format!(
                                "!MON C15 evicted-not-lru inserted={} disappeared={:?} least-recently-used={:?}",
                                k, gone, expected
                            ));
                        }
                        if let Some(c) = lv.cap {
                            if la < c {
                                mons.push(format!(
                                    "!MON C15 evicted-below-capacity inserted={} disappeared={:?} len={} cap={}",
                                    k, gone, la, c
                                ));
                            }
                        }
                        for g in &gone {
                            lv.last_use.remove(g);
                        }
                    }
                    if let (Some(lb), Some(c)) = (len_before, lv.cap) {
                        if lb == c && c > 0 && !vb.contains(&k) && vb.len() == c {
                            bump("c.ins.full-no-expired");
                        }
                    }
                }
                lv.seq += 1;
                if visible(cache).map(|va| va.contains(&k)).unwrap_or(false) {
                    lv.last_use.insert(k, (ts, lv.seq));
                } else {
                    lv.last_use.remove(&k);
                }
                "ok".to_string()
            }
            "cget" | "cgm" | "cpeek" => {
                let r: Option<Option<u64>> = match name {
                    "cget" => no_panic(AssertUnwindSafe(|| cache.get(&k).copied())),
                    "cgm" => no_panic(AssertUnwindSafe(|| {
                        cache.get_mut(&k).map(|slot| {
                            let old = *slot;
                            *slot = v;
                            old
                        })
                    })),
                    _ => no_panic(AssertUnwindSafe(|| cache.peek(&k).copied())),
                };
                match r {
                    None => {
                        panicked = true;
                        String::new()
                    }
                    Some(r) => {
                        if r.is_some() {
                            if let Some((used, _)) = lv.last_use.get(&k) {
                                if ts > *used + ttl {
                                    mons.push(format!(
                                        "!MON C15 stale-value-returned op={} key={} idle={}ms ttl={}ms",
                                        name,
                                        k,
                                        ts - *used,
                                        ttl
                                    ));
                                }
                            }
                        }
                        if r.is_none() && k < KEYSPACE {
                            // the ledger drops a key as soon as it is seen to disappear (miss,
                            // remove, sweep, eviction of a visible key), so a key it still holds
                            // with a recent use must be served
                            if let Some((used, _)) = lv.last_use.get(&k) {
                                if ts <= *used + ttl {
                                    mons.push(format!(
                                        "!MON C15 live-value-withheld op={} key={} idle={}ms ttl={}ms",
                                        name,
                                        k,
                                        ts - *used,
                                        ttl
                                    ));
                                }
                            }
                        }
                        if name != "cpeek" {
                            if r.is_some() {
                                lv.seq += 1;
                                lv.last_use.insert(k, (ts, lv.seq));
                            } else {
                                lv.last_use.remove(&k);
                            }
                        }
                        show_opt(r)
                    }
                }
            }
            "clen" => match no_panic(AssertUnwindSafe(|| cache.len())) {
                None => {
                    panicked = true;
                    String::new()
                }
                Some(n) => n.to_string(),
            },
            "crm" => match no_panic(AssertUnwindSafe(|| cache.remove(&k))) {
                None => {
                    panicked = true;
                    String::new()
                }
                Some(r) => {
                    lv.last_use.remove(&k);
                    show_opt(r)
                }
            },
            _ => match no_panic(AssertUnwindSafe(|| cache.remove_expired_values())) {
                None => {
                    panicked = true;
                    String::new()
                }
                Some(ks) => {
                    for k in &ks {
                        lv.last_use.remove(k);
                    }
                    if ks.is_empty() {
                        "keys -".to_string()
                    } else {
                        format!("keys {}", ks.iter().map(|k| k.to_string()).collect::<Vec<_>>().join(","))
                    }
                }
            },
        };
        // bound, after every op
        if let (Some(n), Some(c)) = (no_panic(AssertUnwindSafe(|| cache.len())), lv.cap) {
            if n > c {
                mons.push(format!("!MON C15 len-exceeds-capacity op={} len={} cap={}", name, n, c));
            }
        }
        let after = Instant::now();
        // did the real clock classify every (stamp, now) pair like the script?
        let ttl_real = Duration::from_millis(ttl * scale);
        let mut clock_ok = true;
        for e in &lv.stamps.entries {
            let (b_i, a_i) = lv.marks[e.2];
            if lv.stamps.expired(e.1, ts) {
                clock_ok &= before.saturating_duration_since(a_i) > ttl_real;
            } else {
                clock_ok &= after.saturating_duration_since(b_i) <= ttl_real;
            }
        }
        while lv.marks.len() <= idx {
            lv.marks.push((before, after));
        }
        lv.marks[idx] = (before, after);
        // distribution + stamp bookkeeping
        match name {
            "cins" => {
                if lv.stamps.insert(ts, k, idx) {
                    bump("c.ins.evict");
                }
                bump("c.ins");
            }
            "cget" | "cgm" => match lv.stamps.touch(ts, k, idx) {
                0 => bump("c.get.vacant"),
                1 => bump("c.get.expired"),
                2 => bump("c.get.hit"),
                _ => {
                    bump("c.get.hit");
                    bump("c.get.hit-kept-alive-beyond-ttl")
                }
            },
            "cpeek" => {
                let hit = lv.stamps.entries.iter().find(|e| e.0 == k).map(|e| !lv.stamps.expired(e.1, ts));
                bump(match hit {
                    None => "c.peek.vacant",
                    Some(false) => "c.peek.expired",
                    Some(true) => "c.peek.hit",
                });
            }
            "crm" => {
                bump(if lv.stamps.has(k) { "c.rm.present" } else { "c.rm.vacant" });
                lv.stamps.remove(k);
            }
            "csweep" => {
                bump(if lv.stamps.sweep(ts) > 0 { "c.sweep.nonempty" } else { "c.sweep.empty" });
            }
            _ => bump("c.len"),
        }
        if panicked {
            return ("panic".into(), mons, clock_ok);
        }
        (reply, mons, clock_ok)
    }
}

impl Runner for LruRunner {
    fn reset(&mut self) {
        self.history.clear();
        self.scale = 1;
        self.live = None;
    }

    fn step(&mut self, line: &str, out: &mut Vec<String>, stats: &mut Stats) {
        if self.scale == 0 {
            self.scale = 1;
        }
        self.history.push(line.to_string());
        let idx = self.history.len() - 1;
        let (mut reply, mut mons, mut ok) = self.exec(idx, Some(&mut *stats));
        let mut attempts = 0;
        while !ok && attempts < 3 {
            // the real clock disagreed with the script: redo the case with doubled durations
            attempts += 1;
            self.scale *= 2;
            stats.bump("c.clock.rerun");
            ok = true;
            for i in 0..=idx {
                let (r, m, o) = self.exec(i, None);
                ok &= o;
                if i == idx {
                    reply = r;
                    mons = m;
                }
            }
        }
        if !ok {
            stats.bump("c.clock.unresolved");
        }
        out.extend(mons);
        out.push(reply);
    }
}

// ---------------------------------------------------------------------------------------------
// generator

pub fn gen_case(rng: &mut Rng, tier: &str, _profile: &str, stats: &mut Stats) -> Vec<String> {
    let ttl: u64 = *rng.pick(&[20, 20, 24, 30, 30, 40, 60]);
    let cap: Option<usize> = match rng.below(24) {
        0 => Some(0),
        1..=4 => None,
        _ => Some(rng.range(1, 4) as usize),
    };
    let nkeys: u64 = match cap {
        Some(c) => (c as u64 + 2).clamp(3, 6),
        None => 5,
    };
    if rng.chance(1, 8) {
        // directed: an entry is inserted and never used again while its cache is asked for its size
        // at short intervals (each well inside the ttl) for longer than two ttls; a lookup then
        // finds it expired - being counted is not a use
        stats.bump("gen.len-chain");
        let capt = match cap { Some(0) => "2".to_string(), Some(c) => c.to_string(), None => "none".into() };
        let mut ops = vec![format!("cnew {} {}", ttl, capt)];
        let k = rng.below(nkeys);
        ops.push(format!("cins 0 {} {}", k, rng.below(100)));
        if rng.chance(1, 2) && nkeys > 1 {
            ops.push(format!("cins 0 {} {}", (k + 1) % nkeys, rng.below(100)));
        }
        let step = (ttl * 6 / 10).max(1);
        let mut t = 0u64;
        while t < 2 * ttl + 20 {
            t += step;
            ops.push(format!("clen {}", t));
        }
        ops.push(format!("{} {} {}{}", if rng.chance(1, 2) { "cget" } else { "cpeek" }, t, k, ""));
        ops.push(format!("clen {}", t));
        return ops;
    }
    if rng.chance(1, 10) {
        // directed: the cache is swept while an entry is still alive (half a ttl old); the entry is then
        // looked up when it is 1.3 ttl old - less than one ttl after the sweep: it has expired, whatever
        // the sweep concluded about "everything that is left"
        stats.bump("gen.sweep-then-lookup-of-an-entry-that-expired-since");
        let ttl = 100u64;
        let capt = match cap { Some(0) => "2".to_string(), Some(c) => c.to_string(), None => "none".into() };
        let mut ops = vec![format!("cnew {} {}", ttl, capt)];
        let k = rng.below(nkeys);
        ops.push(format!("cins 0 {} {}", k, rng.below(100)));
        if rng.chance(1, 2) && nkeys > 1 {
            ops.push(format!("cins 0 {} {}", (k + 1) % nkeys, rng.below(100)));
        }
        ops.push("csweep 50".into());
        match rng.below(3) {
            0 => ops.push(format!("cget 130 {}", k)),
            1 => ops.push(format!("cpeek 130 {}", k)),
            _ => ops.push(format!("cgm 130 {} {}", k, rng.below(100))),
        }
        ops.push("clen 130".into());
        return ops;
    }
    let keepalive = rng.chance(1, 3);
    let mut long_budget = if rng.chance(3, 5) { 1 } else { 0 };
    let drain = rng.chance(1, 2);
    let nops = if tier == "thorough" { rng.range(6, 18) } else { rng.range(6, 14) } + if keepalive { 4 } else { 0 };
    stats.bump(&format!("gen.cap.{}", cap.map(|c| c.to_string()).unwrap_or_else(|| "none".into())));
    if keepalive {
        stats.bump("gen.keepalive");
    }
    let mut ops = vec![format!("cnew {} {}", ttl, cap.map(|c| c.to_string()).unwrap_or_else(|| "none".into()))];
    let mut st = Stamps::new(ttl, cap);
    let mut t: u64 = 0;
    let short_max = (ttl * 3 / 10).max(1);
    let fresh_max = ttl * 6 / 10;
    let long = |rng: &mut Rng| 2 * ttl + 20 + rng.below(8);

    // applies an op to the bookkeeping and records the line
    fn emit(ops: &mut Vec<String>, st: &mut Stamps, line: String) {
        let idx = ops.len();
        let f: Vec<&str> = line.split(' ').collect();
        let n = |i: usize| f[i].parse::<u64>().unwrap();
        match f[0] {
            "cins" => {
                st.insert(n(1), n(2), idx);
            }
            "cget" | "cgm" => {
                st.touch(n(1), n(2), idx);
            }
            "crm" => st.remove(n(2)),
            "csweep" => {
                st.sweep(n(1));
            }
            _ => {}
        }
        ops.push(line);
    }

    let mut after_long = false;
    for i in 0..nops {
        // 1. passage of time
        let r = rng.below(100);
        let short_p = if keepalive { 45 } else { 25 };
        if r < short_p {
            let d = if keepalive { short_max } else { rng.range(1, short_max) };
            let blockers: Vec<u64> = st
                .entries
                .iter()
                .filter(|e| !st.expired(e.1, t) && t + d - e.1 > fresh_max)
                .map(|e| e.0)
                .collect();
            if blockers.is_empty() {
                t += d;
                stats.bump("gen.sleep.short");
            } else if keepalive || rng.chance(1, 3) {
                // refresh (or drop) everything that would drift towards the ttl, then sleep
                for k in blockers {
                    let line = match rng.below(10) {
                        0 => format!("crm {} {}", t, k),
                        1..=2 => format!("cins {} {} {}", t, k, rng.below(1000)),
                        3..=5 => format!("cgm {} {} {}", t, k, rng.below(1000)),
                        _ => format!("cget {} {}", t, k),
                    };
                    emit(&mut ops, &mut st, line);
                    stats.bump("gen.refresh");
                }
                t += d;
                stats.bump("gen.sleep.short");
            }
        } else if r < short_p + 12 && long_budget > 0 && i >= 2 {
            t += long(rng);
            long_budget -= 1;
            after_long = true;
            stats.bump("gen.sleep.long");
        }
        // 2. the op
        let present: Vec<u64> = st.entries.iter().map(|e| e.0).collect();
        let absent: Vec<u64> = (0..nkeys).filter(|k| !present.contains(k)).collect();
        let hit_key = |rng: &mut Rng, p_present: u64| -> u64 {
            if !present.is_empty() && rng.chance(p_present, 100) {
                *rng.pick(&present)
            } else {
                rng.below(nkeys)
            }
        };
        let pick = if i == 0 && rng.chance(9, 10) || i == 1 && rng.chance(3, 5) {
            0 // start by filling
        } else if after_long && rng.chance(7, 10) {
            rng.range(30, 75) // a read right after the long idle
        } else {
            rng.below(100)
        };
        let p_present = if after_long { 95 } else { 75 };
        after_long = false;
        let line = match pick {
            0..=29 => {
                let k = if !absent.is_empty() && rng.chance(3, 5) { *rng.pick(&absent) } else { hit_key(rng, 80) };
                format!("cins {} {} {}", t, k, rng.below(1000))
            }
            30..=49 => format!("cget {} {}", t, hit_key(rng, p_present)),
            50..=61 => format!("cgm {} {} {}", t, hit_key(rng, p_present), rng.below(1000)),
            62..=75 => format!("cpeek {} {}", t, hit_key(rng, p_present)),
            76..=81 => format!("clen {}", t),
            82..=89 => format!("crm {} {}", t, hit_key(rng, 70)),
            _ => format!("csweep {}", t),
        };
        emit(&mut ops, &mut st, line);
    }
    // 3. content and order at the end: after a long idle the sweep returns every key, front first
    if drain {
        if rng.chance(1, 2) {
            for k in 0..nkeys {
                ops.push(format!("cpeek {} {}", t, k));
            }
        }
        ops.push(format!("clen {}", t));
        t += long(rng);
        if rng.chance(1, 3) {
            let present: Vec<u64> = st.entries.iter().map(|e| e.0).collect();
            if !present.is_empty() {
                // a stale read before the sweep: must be a miss
                let k = *rng.pick(&present);
                let line = if rng.chance(1, 2) { format!("cget {} {}", t, k) } else { format!("cpeek {} {}", t, k) };
                emit(&mut ops, &mut st, line);
            }
        }
        ops.push(format!("csweep {}", t));
        ops.push(format!("clen {}", t));
        stats.bump("gen.drain");
    }
    stats.add("gen.scripted-ms", t);
    ops
}

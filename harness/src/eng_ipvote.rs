//! ipvote engine (C17): ops starting with `v` against `service::ip_vote::IpVote` (through the
//! facade `discv5::verif::ipvote`).
//!
//! Ops / replies (see `lean/Driver/IpvoteDrv.lean`):
//!   vnew MIN DUR_MS | vins VOTER F:ADDR | vsleep MS | vmaj | vhas | vthr N | vthrcode N
//!
//! Time.  `IpVote` reads `Instant::now()`, the model has an explicit clock that only `vsleep`
//! advances.  The generator keeps every vote's age at every check either `<= DUR - MARGIN` or
//! `>= DUR` in model time; the runner measures the real drift (real elapsed minus model clock)
//! and, when it comes close to the margin, re-executes the case's ops so far on a fresh `IpVote`
//! (the real code is simply run again; nothing is skipped).
//!
//! Monitors (`!MON C17 …`), from the runner's own ledger (latest vote per voter, expiry by the
//! model clock) and the property's own numbers (margin 0.3, spelled here as a literal):
//!   below-minimum        majority() returned an address with fewer than MIN unexpired votes
//!   rival-within-margin  majority() returned an address although a rival has at least
//!                        round(count * (1.0 - 0.3)) votes
//!   thr-above-margin     derived from majority() itself: the leader with n votes is still
//!                        returned with a rival at round(n * (1.0 - 0.3)) votes
//! The other direction (clear majority but nothing returned) is not a violation of C17 ("only");
//! it is counted (`vmaj.clear-but-none`) and shows up as a disagreement with the model.
#![allow(unused)]
use crate::rng::Rng;
use crate::util::*;
use crate::{Runner, Stats};
use discv5::enr::NodeId;
use discv5::verif::ipvote::{thresholds_via_majority, IpVote};
use std::collections::{BTreeMap, HashMap};
use std::net::{Ipv4Addr, Ipv6Addr, SocketAddr, SocketAddrV4, SocketAddrV6};
use std::panic::AssertUnwindSafe;
use std::time::{Duration, Instant};

/// The clear-majority threshold as the property states it (margin 0.3), evaluated in binary64 as
/// the documentation of `ip_vote.rs` describes.  Independent of /repo.
fn spec_thr(n: usize) -> usize {
    ((n as f64) * (1.0 - 0.3)).round() as usize
}

// ---- integer mirror (transliteration of `thrF64` in Model/IpVote.lean, for `vthr`) -------------
fn rne(x: u128, d: u128) -> u128 {
    let q = x / d;
    let r = x % d;
    if 2 * r < d {
        q
    } else if d < 2 * r {
        q + 1
    } else if q % 2 == 0 {
        q
    } else {
        q + 1
    }
}
fn log2(n: u128) -> u32 {
    127 - n.leading_zeros()
}
fn rnd53(n: u128) -> u128 {
    if n < (1u128 << 53) {
        n
    } else {
        let s = log2(n) - 52;
        rne(n, 1u128 << s) * (1u128 << s)
    }
}
fn rat_to_f64(p: u128, q: u128) -> (u128, u32) {
    if p == 0 {
        return (0, 0);
    }
    let k0 = 52 + log2(q) - log2(p);
    let k = if (p << k0) / q >= (1u128 << 52) { k0 } else { k0 + 1 };
    (rne(p << k, q), k)
}
fn mirror_thr(n: u64) -> u64 {
    let (m, k) = rat_to_f64(3, 10);
    let cm = rnd53((1u128 << k) - m);
    let r = rnd53(rnd53(n as u128) * cm);
    ((2 * r + (1u128 << k)) / (1u128 << (k + 1))) as u64
}

// ---- addresses --------------------------------------------------------------------------------
fn parse_sock(tok: &str) -> Option<SocketAddr> {
    let (fam, rest) = tok.split_once(':')?;
    let (ip, port) = rest.rsplit_once(':')?;
    let port: u16 = port.parse().ok()?;
    match fam {
        "4" => Some(SocketAddr::V4(SocketAddrV4::new(ip.parse().ok()?, port))),
        "6" => {
            let b: [u8; 16] = unhx(ip)?.try_into().ok()?;
            Some(SocketAddr::V6(SocketAddrV6::new(Ipv6Addr::from(b), port, 0, 0)))
        }
        _ => None,
    }
}
fn show4(a: &SocketAddrV4) -> String {
    format!("{}:{}", a.ip(), a.port())
}
fn show6(a: &SocketAddrV6) -> String {
    format!("{}:{}", hx(&a.ip().octets()), a.port())
}
fn voter_id(v: u64) -> NodeId {
    let mut raw = [0u8; 32];
    raw[24..32].copy_from_slice(&v.to_be_bytes());
    raw[0] = 0x5a;
    NodeId::new(&raw)
}

/// Real drift (ms) beyond which a timed case is re-executed; the generator's margin is 40 ms.
const DRIFT_LIMIT_MS: u64 = 22;

#[derive(Default)]
pub struct IpvoteRunner {
    votes: Option<IpVote>,
    min: usize,
    dur_ms: u64,
    clock: u64,
    start: Option<Instant>,
    /// family -> voter -> (address token, model time of the insert)
    ledger: [HashMap<u64, (String, u64)>; 2],
    /// state-changing ops of the current case (for re-execution)
    log: Vec<String>,
}

impl IpvoteRunner {
    fn timed(&self) -> bool {
        self.dur_ms < 600_000
    }

    fn drift(&self) -> u64 {
        match self.start {
            Some(s) => (s.elapsed().as_millis() as u64).saturating_sub(self.clock),
            None => 0,
        }
    }

    /// Executes a state-changing op on the real `IpVote`; returns the reply text.
    fn exec(&mut self, toks: &[&str]) -> String {
        match toks {
            ["vnew", m, d] => {
                let (m, d): (usize, u64) = match (m.parse(), d.parse()) {
                    (Ok(m), Ok(d)) => (m, d),
                    _ => return "bad-op".into(),
                };
                self.min = m;
                self.dur_ms = d;
                self.clock = 0;
                self.votes = no_panic(|| IpVote::new(m, Duration::from_millis(d)));
                self.start = Some(Instant::now());
                if self.votes.is_some() {
                    "ok".into()
                } else {
                    "err:panic".into()
                }
            }
            ["vins", voter, sock] => {
                let (Some(v), Ok(voter), Some(s)) = (self.votes.as_mut(), voter.parse::<u64>(), parse_sock(sock)) else {
                    return "bad-op".into();
                };
                match no_panic(AssertUnwindSafe(|| v.insert(voter_id(voter), s))) {
                    Some(()) => "ok".into(),
                    None => "panic".into(),
                }
            }
            ["vsleep", ms] => {
                let Ok(ms) = ms.parse::<u64>() else { return "bad-op".into() };
                if self.timed() {
                    std::thread::sleep(Duration::from_millis(ms));
                }
                self.clock += ms;
                "ok".into()
            }
            ["vmaj"] => {
                let Some(v) = self.votes.as_mut() else { return "bad-op".into() };
                match no_panic(AssertUnwindSafe(|| v.majority())) {
                    Some((m4, m6)) => format!(
                        "4={} 6={}",
                        m4.as_ref().map(show4).unwrap_or_else(|| "none".into()),
                        m6.as_ref().map(show6).unwrap_or_else(|| "none".into())
                    ),
                    None => "panic".into(),
                }
            }
            ["vhas"] => {
                let Some(v) = self.votes.as_mut() else { return "bad-op".into() };
                match no_panic(AssertUnwindSafe(|| v.has_minimum_threshold())) {
                    Some((a, b)) => format!("{} {}", a, b),
                    None => "panic".into(),
                }
            }
            _ => "bad-op".into(),
        }
    }

    /// Re-executes the case so far on a fresh `IpVote` until the drift is small.
    fn resync(&mut self, stats: &mut Stats) {
        for _ in 0..4 {
            if self.drift() <= DRIFT_LIMIT_MS {
                return;
            }
            stats.bump("vtime.reexecuted");
            let log = std::mem::take(&mut self.log);
            for l in &log {
                let t: Vec<&str> = l.split(' ').collect();
                let _ = self.exec(&t);
            }
            self.log = log;
        }
        stats.bump("vtime.unresolved-drift");
    }

    /// Latest unexpired votes per address for a family, by the model clock.
    fn recount(&self, fam: usize) -> BTreeMap<String, usize> {
        let mut c = BTreeMap::new();
        for (_, (addr, t)) in self.ledger[fam].iter() {
            if self.clock < t + self.dur_ms {
                *c.entry(addr.clone()).or_insert(0) += 1;
            }
        }
        c
    }

    fn monitor_majority(&self, fam: usize, got: &str, out: &mut Vec<String>, stats: &mut Stats) {
        let counts = self.recount(fam);
        let f = if fam == 0 { 4 } else { 6 };
        let expired = self.ledger[fam].values().filter(|(_, t)| self.clock >= t + self.dur_ms).count();
        if expired > 0 {
            stats.bump("vmaj.with-expired-votes");
        }
        let best = counts.values().copied().max().unwrap_or(0);
        if got != "none" {
            stats.bump(if fam == 0 { "vmaj.some4" } else { "vmaj.some6" });
            let c = counts.get(got).copied().unwrap_or(0);
            let rival = counts.iter().filter(|(a, _)| a.as_str() != got).map(|(_, n)| *n).max().unwrap_or(0);
            if c < self.min {
                out.push(format!(
                    "!MON C17 below-minimum fam={} addr={} unexpired-votes={} minimum={}",
                    f, got, c, self.min
                ));
            }
            if c >= 1 && rival >= spec_thr(c) {
                out.push(format!(
                    "!MON C17 rival-within-margin fam={} addr={} votes={} rival-votes={} margin-threshold={}",
                    f, got, c, rival, spec_thr(c)
                ));
            }
            if rival > 0 {
                stats.bump("vmaj.some-with-rival");
            }
            if rival + 1 == spec_thr(c) {
                stats.bump("vmaj.some-at-margin");
            }
            if c == self.min {
                stats.bump("vmaj.some-at-minimum");
            }
        } else {
            // is there a clear majority by the property's own numbers?
            let mut clear = false;
            for (a, &c) in counts.iter() {
                let rival = counts.iter().filter(|(b, _)| *b != a).map(|(_, n)| *n).max().unwrap_or(0);
                if c >= self.min && rival < spec_thr(c) {
                    clear = true;
                }
                if c >= self.min && rival >= spec_thr(c) && c == best {
                    stats.bump("vmaj.none-competing");
                    if rival == spec_thr(c) {
                        stats.bump("vmaj.none-at-margin");
                    }
                }
            }
            if clear {
                stats.bump("vmaj.clear-but-none");
            } else if best > 0 && best < self.min {
                stats.bump("vmaj.none-below-minimum");
                if best + 1 == self.min {
                    stats.bump("vmaj.none-one-below-minimum");
                }
            }
        }
    }
}

impl Runner for IpvoteRunner {
    fn reset(&mut self) {
        *self = IpvoteRunner::default();
    }

    fn step(&mut self, line: &str, out: &mut Vec<String>, stats: &mut Stats) {
        let toks: Vec<&str> = line.split(' ').collect();
        match toks.as_slice() {
            ["vnew", ..] => {
                self.log.clear();
                self.ledger = Default::default();
                let r = self.exec(&toks);
                self.log.push(line.to_string());
                stats.bump(if r == "ok" { "vnew.ok" } else { "vnew.rejected" });
                if r == "ok" && self.timed() {
                    stats.bump("vnew.timed");
                }
                out.push(r);
            }
            ["vins", voter, sock] => {
                if self.timed() {
                    self.resync(stats);
                }
                let r = self.exec(&toks);
                if r == "ok" {
                    self.log.push(line.to_string());
                    let fam = if sock.starts_with("6:") { 1 } else { 0 };
                    let addr = sock[2..].to_string();
                    let voter: u64 = voter.parse().unwrap_or(0);
                    match self.ledger[fam].insert(voter, (addr.clone(), self.clock)) {
                        Some((old, _)) if old != addr => stats.bump("vins.changed-vote"),
                        Some(_) => stats.bump("vins.repeated-vote"),
                        None => stats.bump("vins.first-vote"),
                    }
                    stats.bump(if fam == 0 { "vins.v4" } else { "vins.v6" });
                }
                out.push(r);
            }
            ["vsleep", _] => {
                let r = self.exec(&toks);
                if r == "ok" {
                    self.log.push(line.to_string());
                    stats.bump("vsleep");
                }
                out.push(r);
            }
            ["vmaj"] | ["vhas"] => {
                if self.timed() {
                    self.resync(stats);
                }
                let r = self.exec(&toks);
                self.log.push(line.to_string());
                if toks[0] == "vmaj" {
                    if let Some((a, b)) = r.split_once(' ') {
                        if let (Some(m4), Some(m6)) = (a.strip_prefix("4="), b.strip_prefix("6=")) {
                            self.monitor_majority(0, m4, out, stats);
                            self.monitor_majority(1, m6, out, stats);
                            if m4 != "none" && m6 != "none" {
                                stats.bump("vmaj.both-families");
                            }
                        }
                    }
                    stats.bump("vmaj");
                } else {
                    stats.bump("vhas");
                }
                out.push(r);
            }
            ["vthr", n] => {
                let Ok(n) = n.parse::<u64>() else {
                    out.push("bad-op".into());
                    return;
                };
                let (mut sum, mut wsum, mut mismatch) = (0u128, 0u128, None);
                for i in 0..=n {
                    let t = ((i as f64) * (1.0 - 0.3)).round() as u64; // the real binary64 computation
                    if mismatch.is_none() && mirror_thr(i) != t {
                        mismatch = Some(i);
                    }
                    sum += t as u128;
                    wsum = (wsum + (i as u128 + 1) * t as u128) % 2305843009213693951u128;
                }
                stats.add("vthr.values", n + 1);
                out.push(format!(
                    "thr {} sum={} wsum={} mismatch={}",
                    n,
                    sum,
                    wsum,
                    mismatch.map(|i| i.to_string()).unwrap_or_else(|| "none".into())
                ));
            }
            ["vthrcode", n] => {
                let Ok(n) = n.parse::<usize>() else {
                    out.push("bad-op".into());
                    return;
                };
                match no_panic(|| thresholds_via_majority(n)) {
                    None => out.push("panic".into()),
                    Some(ts) => {
                        for (i, t) in ts.iter().enumerate() {
                            let cnt = i + 3;
                            match t {
                                Some(t) if *t > spec_thr(cnt) => out.push(format!(
                                    "!MON C17 thr-above-margin leader-votes={} still-returned-with-rival-votes={} margin-threshold={}",
                                    cnt, t - 1, spec_thr(cnt)
                                )),
                                Some(t) if *t < spec_thr(cnt) => stats.bump("vthrcode.stricter"),
                                Some(_) => stats.bump("vthrcode.equal"),
                                None => stats.bump("vthrcode.not-a-threshold"),
                            }
                        }
                        let s: Vec<String> =
                            ts.iter().map(|t| t.map(|t| t.to_string()).unwrap_or_else(|| "x".into())).collect();
                        out.push(format!("thrcode {} {}", n, s.join(",")));
                    }
                }
            }
            _ => out.push("bad-op".into()),
        }
    }
}

// ---- generator --------------------------------------------------------------------------------

struct Pool {
    v4: Vec<String>,
    v6: Vec<String>,
}

fn gen_pool(rng: &mut Rng) -> Pool {
    let ip = Ipv4Addr::from(rng.next() as u32 | 0x0100_0000);
    let port = rng.range(1024, 60000) as u16;
    let mut v4 = vec![format!("4:{}:{}", ip, port), format!("4:{}:{}", ip, port + 1)];
    for _ in 0..rng.below(3) {
        v4.push(format!("4:{}:{}", Ipv4Addr::from(rng.next() as u32 | 0x0100_0000), rng.range(1, 65535)));
    }
    let mut v6 = Vec::new();
    let ip6 = rng.bytes(16);
    let p6 = rng.range(1024, 60000);
    v6.push(format!("6:{}:{}", hx(&ip6), p6));
    v6.push(format!("6:{}:{}", hx(&ip6), p6 + 1));
    if rng.chance(1, 2) {
        v6.push(format!("6:{}:{}", hx(&rng.bytes(16)), rng.range(1, 65535)));
    }
    Pool { v4, v6 }
}

/// Leader counts where the binary64 threshold differs from the naive ⌊(7n+5)/10⌋.
const ODD_COUNTS: [usize; 9] = [45, 85, 165, 175, 325, 335, 345, 355, 365];

pub fn gen_case(rng: &mut Rng, tier: &str, _profile: &str, stats: &mut Stats) -> Vec<String> {
    let mut ops = Vec::new();
    // threshold-only cases (kept apart from the vote sequences so that a minimised failing case
    // names one mechanism)
    if rng.chance(1, 50) {
        stats.bump("gen.case.threshold");
        ops.push(format!("vthr {}", rng.range(0, 4000)));
        ops.push(format!("vthrcode {}", rng.range(3, 90)));
        return ops;
    }
    // rejected constructor
    if rng.chance(1, 60) {
        ops.push(format!("vnew {} 1000", rng.below(2)));
        stats.bump("gen.vnew-below-2");
    }
    let min = rng.range(2, 6) as usize;
    let pool = gen_pool(rng);
    let timed = rng.chance(1, 40);
    let mut next_voter: u64 = rng.below(1000) * 1000;
    let mut fresh = |n: &mut u64| {
        *n += 1;
        *n
    };
    if timed {
        // vote duration 100 ms, the clock moves in steps of 60 ms: ages 0/60 (live, margin 40 ms)
        // and >= 120 (expired)
        stats.bump("gen.case.timed");
        ops.push(format!("vnew {} 100", min));
        let a = pool.v4[0].clone();
        let b = pool.v4[1].clone();
        let a6 = pool.v6[0].clone();
        let g1 = min + rng.below(3) as usize;
        let mut old = Vec::new();
        for _ in 0..g1 {
            let v = fresh(&mut next_voter);
            old.push(v);
            ops.push(format!("vins {} {}", v, a));
        }
        if rng.chance(1, 2) {
            for _ in 0..min {
                ops.push(format!("vins {} {}", fresh(&mut next_voter), a6));
            }
        }
        ops.push("vmaj".into());
        ops.push("vsleep 60".into());
        // a second group, for the rival or the same address; some old voters renew or switch
        let g2 = rng.below(min as u64 + 2) as usize;
        let tgt = if rng.chance(1, 2) { a.clone() } else { b.clone() };
        for _ in 0..g2 {
            ops.push(format!("vins {} {}", fresh(&mut next_voter), tgt));
        }
        if rng.chance(1, 2) && !old.is_empty() {
            let v = old[rng.below(old.len() as u64) as usize];
            ops.push(format!("vins {} {}", v, if rng.chance(1, 2) { a.clone() } else { b.clone() }));
        }
        if rng.chance(1, 2) {
            // voters of the first group vote in the other family as well (dual-stack peers): a vote is
            // per family - their IPv4 votes are no younger for it
            stats.bump("gen.case.timed-same-voters-other-family");
            for v in old.iter() {
                if rng.chance(3, 4) {
                    ops.push(format!("vins {} {}", v, a6));
                }
            }
        }
        ops.push("vmaj".into());
        if rng.chance(1, 2) {
            ops.push("vhas".into());
        }
        ops.push("vsleep 60".into()); // first group (age 120) has expired, second (age 60) has not
        ops.push("vmaj".into());
        if rng.chance(1, 2) {
            ops.push(format!("vins {} {}", fresh(&mut next_voter), tgt));
            ops.push("vmaj".into());
        }
        ops.push("vhas".into());
        ops.push("vsleep 60".into()); // second group expired
        ops.push("vmaj".into());
        return ops;
    }
    ops.push(format!("vnew {} 3600000", min));
    match rng.below(10) {
        // random walk: votes from a small population over a few addresses, majority after every op
        0..=3 => {
            stats.bump("gen.case.random");
            let voters = rng.range(1, 24);
            let n = rng.range(4, if tier == "thorough" { 70 } else { 45 });
            let dual = rng.chance(1, 2);
            let base = next_voter;
            for _ in 0..n {
                let v = base + rng.below(voters);
                let addr = if dual && rng.chance(2, 5) {
                    rng.pick(&pool.v6).clone()
                } else if rng.chance(3, 5) {
                    pool.v4[0].clone()
                } else {
                    rng.pick(&pool.v4).clone()
                };
                ops.push(format!("vins {} {}", v, addr));
                ops.push("vmaj".into());
                if rng.chance(1, 8) {
                    ops.push("vhas".into());
                }
            }
        }
        // margin boundary: leader with n votes, rival walks over thr(n)-2 .. thr(n)+1
        4..=6 => {
            stats.bump("gen.case.margin");
            let n = match rng.below(6) {
                0 => *rng.pick(&ODD_COUNTS[..if tier == "thorough" { 9 } else { 4 }]),
                1 => min,
                2 => min + 1,
                _ => rng.range(min as u64, 40) as usize,
            };
            let v6 = rng.chance(1, 4);
            let (a, b, c) = if v6 {
                (pool.v6[0].clone(), pool.v6[1].clone(), pool.v6[pool.v6.len() - 1].clone())
            } else {
                (pool.v4[0].clone(), pool.v4[1].clone(), pool.v4[pool.v4.len() - 1].clone())
            };
            let t = spec_thr(n);
            let lead_first = rng.chance(1, 2);
            let mut rivals = Vec::new();
            let pre = t.saturating_sub(2);
            if lead_first {
                for _ in 0..n {
                    ops.push(format!("vins {} {}", fresh(&mut next_voter), a));
                }
            }
            for _ in 0..pre {
                let v = fresh(&mut next_voter);
                rivals.push(v);
                ops.push(format!("vins {} {}", v, b));
            }
            if !lead_first {
                for i in 0..n {
                    ops.push(format!("vins {} {}", fresh(&mut next_voter), a));
                    if i + 3 >= n {
                        ops.push("vmaj".into());
                    }
                }
            }
            ops.push("vmaj".into());
            // a third address that stays small
            if rng.chance(1, 3) {
                ops.push(format!("vins {} {}", fresh(&mut next_voter), c));
                ops.push("vmaj".into());
            }
            for _ in pre..t + 1 {
                let v = fresh(&mut next_voter);
                rivals.push(v);
                ops.push(format!("vins {} {}", v, b));
                ops.push("vmaj".into());
            }
            // rivals change their mind one by one (to the leader or to a third address) and back
            for _ in 0..rng.below(4) {
                if let Some(v) = rivals.pop() {
                    let to = if rng.chance(1, 2) { a.clone() } else { c.clone() };
                    ops.push(format!("vins {} {}", v, to));
                    ops.push("vmaj".into());
                    if rng.chance(1, 3) {
                        ops.push(format!("vins {} {}", v, b));
                        ops.push("vmaj".into());
                    }
                }
            }
        }
        // minimum boundary: addresses reach minimum-1, minimum; a few liars below the minimum
        7 => {
            stats.bump("gen.case.minimum");
            let a = pool.v4[0].clone();
            let b = pool.v4[1].clone();
            for _ in 0..min - 1 {
                ops.push(format!("vins {} {}", fresh(&mut next_voter), b));
                ops.push("vmaj".into());
            }
            // the same liars vote again and again
            let base = next_voter;
            for _ in 0..rng.below(6) {
                ops.push(format!("vins {} {}", base - rng.below(min as u64 - 1), b));
                ops.push("vmaj".into());
            }
            for _ in 0..min + 1 {
                ops.push(format!("vins {} {}", fresh(&mut next_voter), a));
                ops.push("vmaj".into());
            }
            ops.push("vhas".into());
        }
        // dual stack: both families near their own boundaries, interleaved
        8 => {
            stats.bump("gen.case.dual");
            let n4 = rng.range(min as u64 - 1, min as u64 + 6) as usize;
            let n6 = rng.range(min as u64 - 1, min as u64 + 6) as usize;
            let (mut i4, mut i6) = (0, 0);
            let base = next_voter;
            while i4 < n4 || i6 < n6 {
                if i6 >= n6 || (i4 < n4 && rng.chance(1, 2)) {
                    // the same peers vote in both families
                    let addr = if rng.chance(1, 5) { pool.v4[1].clone() } else { pool.v4[0].clone() };
                    ops.push(format!("vins {} {}", base + i4 as u64, addr));
                    i4 += 1;
                } else {
                    let addr = if rng.chance(1, 5) { pool.v6[1].clone() } else { pool.v6[0].clone() };
                    ops.push(format!("vins {} {}", base + i6 as u64, addr));
                    i6 += 1;
                }
                ops.push("vmaj".into());
                if rng.chance(1, 6) {
                    ops.push("vhas".into());
                }
            }
        }
        // three-way and ties
        _ => {
            stats.bump("gen.case.threeway");
            let k = rng.range(min as u64, 12) as usize;
            let addrs = [pool.v4[0].clone(), pool.v4[1].clone(), pool.v4[pool.v4.len() - 1].clone()];
            for i in 0..k {
                for a in addrs.iter() {
                    ops.push(format!("vins {} {}", fresh(&mut next_voter), a));
                }
                if i + 2 >= k {
                    ops.push("vmaj".into());
                }
            }
            // break the tie step by step
            for _ in 0..rng.range(1, 8) {
                ops.push(format!("vins {} {}", fresh(&mut next_voter), addrs[0]));
                ops.push("vmaj".into());
            }
        }
    }
    ops
}

//! Deterministic PRNG (splitmix64): every random choice of the harness derives from one seed.
#[derive(Clone)]
pub struct Rng(pub u64);

impl Rng {
    pub fn new(seed: u64) -> Self {
        Rng(seed ^ 0x9E37_79B9_7F4A_7C15)
    }
    pub fn fork(&mut self, salt: u64) -> Rng {
        Rng::new(self.next() ^ salt.wrapping_mul(0xD6E8_FEB8_6659_FD93))
    }
    pub fn next(&mut self) -> u64 {
        self.0 = self.0.wrapping_add(0x9E37_79B9_7F4A_7C15);
        let mut z = self.0;
        z = (z ^ (z >> 30)).wrapping_mul(0xBF58_476D_1CE4_E5B9);
        z = (z ^ (z >> 27)).wrapping_mul(0x94D0_49BB_1331_11EB);
        z ^ (z >> 31)
    }
    /// Uniform in `0..n` (n > 0).
    pub fn below(&mut self, n: u64) -> u64 {
        self.next() % n
    }
    pub fn range(&mut self, lo: u64, hi_incl: u64) -> u64 {
        lo + self.below(hi_incl - lo + 1)
    }
    pub fn chance(&mut self, num: u64, den: u64) -> bool {
        self.below(den) < num
    }
    pub fn bytes(&mut self, n: usize) -> Vec<u8> {
        let mut v = Vec::with_capacity(n);
        while v.len() < n {
            let x = self.next().to_le_bytes();
            let take = (n - v.len()).min(8);
            v.extend_from_slice(&x[..take]);
        }
        v
    }
    pub fn pick<'a, T>(&mut self, xs: &'a [T]) -> &'a T {
        &xs[self.below(xs.len() as u64) as usize]
    }
}

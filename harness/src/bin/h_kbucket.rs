//! Harness binary for the kbucket engine.
#[allow(unused_imports)]
use harness::{rng, util, Runner, Stats};
#[path = "../eng_kbucket.rs"]
mod eng;

fn main() {
    harness::main_loop(Box::new(eng::KbucketRunner::default()), eng::gen_case);
}

//! Harness binary for the lru engine.
#[allow(unused_imports)]
use harness::{rng, util, Runner, Stats};
#[path = "../eng_lru.rs"]
mod eng;

fn main() {
    harness::main_loop(Box::new(eng::LruRunner::default()), eng::gen_case);
}

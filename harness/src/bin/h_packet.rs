//! Harness binary for the packet engine.
#[allow(unused_imports)]
use harness::{rng, util, Runner, Stats};
#[path = "../eng_packet.rs"]
mod eng;

fn main() {
    harness::main_loop(Box::new(eng::PacketRunner), eng::gen_case);
}

//! Harness binary for the ipvote engine.
#[allow(unused_imports)]
use harness::{rng, util, Runner, Stats};
#[path = "../eng_ipvote.rs"]
mod eng;

fn main() {
    harness::main_loop(Box::new(eng::IpvoteRunner::default()), eng::gen_case);
}

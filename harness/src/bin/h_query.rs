//! Harness binary for the query engine.
#[allow(unused_imports)]
use harness::{rng, util, Runner, Stats};
#[path = "../eng_query.rs"]
mod eng;

fn main() {
    harness::main_loop(Box::new(eng::QueryRunner::default()), eng::gen_case);
}

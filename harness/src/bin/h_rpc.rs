//! Harness binary for the rpc engine.
#[allow(unused_imports)]
use harness::{rng, util, Runner, Stats};
#[path = "../eng_rpc.rs"]
mod eng;

fn main() {
    harness::main_loop(Box::new(eng::RpcRunner::default()), eng::gen_case);
}

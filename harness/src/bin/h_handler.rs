//! Harness binary for the handler engine.
#[allow(unused_imports)]
use harness::{rng, util, Runner, Stats};
#[path = "../eng_handler.rs"]
mod eng;

fn main() {
    harness::main_loop(Box::new(eng::HandlerRunner::default()), eng::gen_case);
}

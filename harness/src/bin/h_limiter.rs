//! Harness binary for the limiter engine.
#[allow(unused_imports)]
use harness::{rng, util, Runner, Stats};
#[path = "../eng_limiter.rs"]
mod eng;

fn main() {
    harness::main_loop(Box::new(eng::LimiterRunner::default()), eng::gen_case);
}

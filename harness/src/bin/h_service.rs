//! Harness binary for the service engine.
#[allow(unused_imports)]
use harness::{rng, util, Runner, Stats};
#[path = "../eng_service.rs"]
mod eng;

fn main() {
    harness::main_loop(Box::new(eng::ServiceRunner::default()), eng::gen_case);
}

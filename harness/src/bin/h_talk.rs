//! Harness binary for the talk engine.
#[allow(unused_imports)]
use harness::{rng, util, Runner, Stats};
#[path = "../eng_talk.rs"]
mod eng;

fn main() {
    harness::main_loop(Box::new(eng::TalkRunner::default()), eng::gen_case);
}

//! rpc engine (ops starting with `r`).
#![allow(unused)]
use crate::rng::Rng;
use crate::util::*;
use crate::{Runner, Stats};

#[derive(Default)]
pub struct RpcRunner;

impl Runner for RpcRunner {
    fn reset(&mut self) {}
    fn step(&mut self, _line: &str, out: &mut Vec<String>, _stats: &mut Stats) {
        out.push("bad-op".into());
    }
}

pub fn gen_case(_rng: &mut Rng, _tier: &str, _profile: &str, _stats: &mut Stats) -> Vec<String> {
    Vec::new()
}

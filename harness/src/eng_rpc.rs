//! rpc engine (C06): `renc` / `rdec` ops against `Message::encode` / `Message::decode`.
//!
//! Message syntax (shared with lean/Driver/RpcDrv.lean):
//! `ping:ID:SEQ`, `pong:ID:SEQ:4|6:IP:PORT`, `findnode:ID:D,D,…`, `nodes:ID:TOTAL:REC,REC,…`,
//! `talkreq:ID:PROTO:REQ`, `talkresp:ID:RESP` (hex fields, `-` = empty).
//! `rdec DATA ORACLE`: ORACLE = `ITEM=RESULT,…` are the answers of the real `Enr` decoder for the
//! record items the harness' own (independent, lenient) walk finds in DATA.
#![allow(unused)]
use crate::rng::Rng;
use crate::util::*;
use crate::{Runner, Stats};
use discv5::verif::rpc::{
    message_decode, message_encode, Message, Request, RequestBody, RequestId, Response, ResponseBody,
};
use discv5::verif::enr_decode_prefix;
use discv5::Enr;
use std::net::{IpAddr, Ipv4Addr, Ipv6Addr};
use std::num::NonZeroU16;

// ---------------------------------------------------------------------------------------------
// independent mini RLP (written against the RLP specification, not against alloy-rlp)

mod mini {
    fn be(b: &[u8]) -> Option<usize> {
        if b.len() > 8 {
            return None;
        }
        Some(b.iter().fold(0usize, |a, x| (a << 8) | *x as usize))
    }

    /// Lenient split of the first item: (is_list, header length, payload length).  No canonical
    /// form checks; `None` when the buffer is too short for what the header announces.
    pub fn split(buf: &[u8]) -> Option<(bool, usize, usize)> {
        let b = *buf.first()?;
        let (list, hl, pl) = match b {
            0..=0x7f => (false, 0, 1),
            0x80..=0xb7 => (false, 1, (b - 0x80) as usize),
            0xb8..=0xbf => {
                let n = (b - 0xb7) as usize;
                (false, 1 + n, be(buf.get(1..1 + n)?)?)
            }
            0xc0..=0xf7 => (true, 1, (b - 0xc0) as usize),
            _ => {
                let n = (b - 0xf7) as usize;
                (true, 1 + n, be(buf.get(1..1 + n)?)?)
            }
        };
        if buf.len() < hl.checked_add(pl)? {
            return None;
        }
        Some((list, hl, pl))
    }

    pub struct Item<'a> {
        pub list: bool,
        pub payload: &'a [u8],
        pub whole: &'a [u8],
    }

    /// All items of a payload (lenient); `None` if some item does not fit.
    pub fn items(mut p: &[u8]) -> Option<Vec<Item<'_>>> {
        let mut v = Vec::new();
        while !p.is_empty() {
            let (list, hl, pl) = split(p)?;
            v.push(Item { list, payload: &p[hl..hl + pl], whole: &p[..hl + pl] });
            p = &p[hl + pl..];
        }
        Some(v)
    }

    pub fn uint_of(b: &[u8]) -> Option<u128> {
        if b.len() > 16 {
            return None;
        }
        Some(b.iter().fold(0u128, |a, x| (a << 8) | *x as u128))
    }

    fn trimmed(n: u64) -> Vec<u8> {
        let b = n.to_be_bytes();
        let k = b.iter().position(|x| *x != 0).unwrap_or(8);
        b[k..].to_vec()
    }

    pub fn header(list: bool, len: usize) -> Vec<u8> {
        let (short, long) = if list { (0xc0u8, 0xf7u8) } else { (0x80, 0xb7) };
        if len < 56 {
            vec![short + len as u8]
        } else {
            let t = trimmed(len as u64);
            let mut v = vec![long + t.len() as u8];
            v.extend_from_slice(&t);
            v
        }
    }

    pub fn bytes(b: &[u8]) -> Vec<u8> {
        if b.len() == 1 && b[0] < 0x80 {
            return b.to_vec();
        }
        let mut v = header(false, b.len());
        v.extend_from_slice(b);
        v
    }

    pub fn uint(n: u64) -> Vec<u8> {
        bytes(&trimmed(n))
    }

    pub fn list(payload: &[u8]) -> Vec<u8> {
        let mut v = header(true, payload.len());
        v.extend_from_slice(payload);
        v
    }
}

// ---------------------------------------------------------------------------------------------
// message syntax

fn comma(s: &str) -> Vec<&str> {
    if s == "-" {
        Vec::new()
    } else {
        s.split(',').collect()
    }
}

fn show_list(v: Vec<String>) -> String {
    if v.is_empty() {
        "-".into()
    } else {
        v.join(",")
    }
}

fn parse_msg(s: &str) -> Option<Message> {
    let f: Vec<&str> = s.split(':').collect();
    let id = RequestId(unhx(f.get(1)?)?);
    Some(match f.as_slice() {
        ["ping", _, seq] => Message::Request(Request { id, body: RequestBody::Ping { enr_seq: seq.parse().ok()? } }),
        ["pong", _, seq, fam, ip, port] => {
            let ipb = unhx(ip)?;
            let ip = if *fam == "4" {
                IpAddr::V4(Ipv4Addr::from(<[u8; 4]>::try_from(ipb).ok()?))
            } else {
                IpAddr::V6(Ipv6Addr::from(<[u8; 16]>::try_from(ipb).ok()?))
            };
            Message::Response(Response {
                id,
                body: ResponseBody::Pong {
                    enr_seq: seq.parse().ok()?,
                    ip,
                    port: NonZeroU16::new(port.parse().ok()?)?,
                },
            })
        }
        ["findnode", _, ds] => {
            let mut distances = Vec::new();
            for d in comma(ds) {
                distances.push(d.parse().ok()?);
            }
            Message::Request(Request { id, body: RequestBody::FindNode { distances } })
        }
        ["nodes", _, total, recs] => {
            let mut nodes = Vec::new();
            for r in comma(recs) {
                let b = unhx(r)?;
                let e = enr_decode_prefix(&b)?;
                if alloy_rlp::encode(&e) != b {
                    return None;
                }
                nodes.push(e);
            }
            Message::Response(Response { id, body: ResponseBody::Nodes { total: total.parse().ok()?, nodes } })
        }
        ["talkreq", _, p, r] => {
            Message::Request(Request { id, body: RequestBody::Talk { protocol: unhx(p)?, request: unhx(r)? } })
        }
        ["talkresp", _, r] => Message::Response(Response { id, body: ResponseBody::Talk { response: unhx(r)? } }),
        _ => return None,
    })
}

fn show_msg(m: &Message) -> String {
    match m {
        Message::Request(Request { id, body }) => {
            let id = hx(&id.0);
            match body {
                RequestBody::Ping { enr_seq } => format!("ping:{id}:{enr_seq}"),
                RequestBody::FindNode { distances } => {
                    format!("findnode:{id}:{}", show_list(distances.iter().map(|d| d.to_string()).collect()))
                }
                RequestBody::Talk { protocol, request } => format!("talkreq:{id}:{}:{}", hx(protocol), hx(request)),
            }
        }
        Message::Response(Response { id, body }) => {
            let id = hx(&id.0);
            match body {
                ResponseBody::Pong { enr_seq, ip, port } => match ip {
                    IpAddr::V4(a) => format!("pong:{id}:{enr_seq}:4:{}:{}", hx(&a.octets()), port.get()),
                    IpAddr::V6(a) => format!("pong:{id}:{enr_seq}:6:{}:{}", hx(&a.octets()), port.get()),
                },
                ResponseBody::Nodes { total, nodes } => format!(
                    "nodes:{id}:{total}:{}",
                    show_list(nodes.iter().map(|e| hx(&alloy_rlp::encode(e))).collect())
                ),
                ResponseBody::Talk { response } => format!("talkresp:{id}:{}", hx(response)),
            }
        }
    }
}

fn kind_of(m: &Message) -> &'static str {
    match m {
        Message::Request(r) => match r.body {
            RequestBody::Ping { .. } => "ping",
            RequestBody::FindNode { .. } => "findnode",
            RequestBody::Talk { .. } => "talkreq",
        },
        Message::Response(r) => match r.body {
            ResponseBody::Pong { .. } => "pong",
            ResponseBody::Nodes { .. } => "nodes",
            ResponseBody::Talk { .. } => "talkresp",
        },
    }
}

fn err_name(e: &str) -> &'static str {
    let table: &[(&str, &str)] = &[
        ("InputTooShort", "too-short"),
        ("NonCanonicalSingleByte", "non-canonical-byte"),
        ("NonCanonicalSize", "non-canonical-size"),
        ("LeadingZero", "leading-zero"),
        ("Overflow", "overflow"),
        ("UnexpectedList", "unexpected-list"),
        ("UnexpectedString", "unexpected-string"),
        ("UnexpectedLength", "unexpected-length"),
        ("Custom(\"Invalid format of header\")", "header"),
        ("Custom(\"Reject the extra data\")", "extra-data"),
        ("Custom(\"Invalid ID length\")", "id-length"),
        ("Custom(\"Payload should be empty\")", "not-empty"),
        ("Custom(\"Incorrect List Length\")", "ip-length"),
        ("Custom(\"PONG response port number invalid\")", "zero-port"),
        ("Custom(\"FINDNODE request distance invalid\")", "distance"),
        ("Custom(\"Payload size is smaller than payload_length\")", "size-mismatch"),
        ("Custom(\"Unknown RPC message type\")", "unknown-type"),
    ];
    for (k, v) in table {
        if e.starts_with(k) {
            return v;
        }
    }
    "enr"
}

// ---------------------------------------------------------------------------------------------
// independent reference: spec layout of a message, folding rule, strictness clauses

/// `type ‖ rlp-list[fields in spec order]`, built with the mini encoder.
fn ref_encode(m: &Message) -> Vec<u8> {
    let (ty, fields): (u8, Vec<u8>) = match m {
        Message::Request(Request { id, body }) => {
            let mut f = mini::bytes(&id.0);
            match body {
                RequestBody::Ping { enr_seq } => {
                    f.extend(mini::uint(*enr_seq));
                    (1, f)
                }
                RequestBody::FindNode { distances } => {
                    let inner: Vec<u8> = distances.iter().flat_map(|d| mini::uint(*d)).collect();
                    f.extend(mini::list(&inner));
                    (3, f)
                }
                RequestBody::Talk { protocol, request } => {
                    f.extend(mini::bytes(protocol));
                    f.extend(mini::bytes(request));
                    (5, f)
                }
            }
        }
        Message::Response(Response { id, body }) => {
            let mut f = mini::bytes(&id.0);
            match body {
                ResponseBody::Pong { enr_seq, ip, port } => {
                    f.extend(mini::uint(*enr_seq));
                    match ip {
                        IpAddr::V4(a) => f.extend(mini::bytes(&a.octets())),
                        IpAddr::V6(a) => f.extend(mini::bytes(&a.octets())),
                    }
                    f.extend(mini::uint(port.get() as u64));
                    (2, f)
                }
                ResponseBody::Nodes { total, nodes } => {
                    f.extend(mini::uint(*total));
                    let inner: Vec<u8> = nodes.iter().flat_map(|e| alloy_rlp::encode(e)).collect();
                    f.extend(mini::list(&inner));
                    (4, f)
                }
                ResponseBody::Talk { response } => {
                    f.extend(mini::bytes(response));
                    (6, f)
                }
            }
        }
    };
    let mut v = vec![ty];
    v.extend(mini::list(&fields));
    v
}

/// What a decoder has to return for an encoded `ip`: IPv4-mapped / -compatible addresses fold to
/// IPv4, except `::1`.
fn folded(ip: IpAddr) -> IpAddr {
    match ip {
        IpAddr::V4(_) => ip,
        IpAddr::V6(a) => {
            let o = a.octets();
            let mut one = [0u8; 16];
            one[15] = 1;
            if o == one {
                return ip;
            }
            let zeros = o[..10].iter().all(|x| *x == 0);
            let tag = (o[10], o[11]);
            if zeros && (tag == (0, 0) || tag == (0xff, 0xff)) {
                IpAddr::V4(Ipv4Addr::new(o[12], o[13], o[14], o[15]))
            } else {
                ip
            }
        }
    }
}

fn expected_after_roundtrip(m: &Message) -> Message {
    match m {
        Message::Response(Response { id, body: ResponseBody::Pong { enr_seq, ip, port } }) => {
            Message::Response(Response {
                id: id.clone(),
                body: ResponseBody::Pong { enr_seq: *enr_seq, ip: folded(*ip), port: *port },
            })
        }
        _ => m.clone(),
    }
}

/// Which clause of the property forbids accepting this message value (if any).
fn forbidden_value(m: &Message) -> Option<&'static str> {
    let (id, dist) = match m {
        Message::Request(r) => (
            &r.id,
            match &r.body {
                RequestBody::FindNode { distances } => distances.iter().any(|d| *d > 256),
                _ => false,
            },
        ),
        Message::Response(r) => (&r.id, false),
    };
    if id.0.len() > 8 {
        Some("accepted-id-gt-8")
    } else if dist {
        Some("accepted-distance-gt-256")
    } else {
        None
    }
}

fn record_valid(item: &[u8]) -> bool {
    match enr_decode_prefix(item) {
        Some(e) => e.verify(),
        None => false,
    }
}

/// Strictness clauses re-checked on the *input bytes* of an accepted message.
fn strict_violations(data: &[u8]) -> Vec<&'static str> {
    let mut v = Vec::new();
    if data.len() < 2 {
        v.push("accepted-truncated");
        return v;
    }
    let Some((list, hl, pl)) = mini::split(&data[1..]) else {
        v.push("accepted-truncated");
        return v;
    };
    if !list {
        v.push("accepted-non-list");
        return v;
    }
    if 1 + hl + pl != data.len() {
        v.push("accepted-with-trailing-bytes");
    }
    let payload = &data[1 + hl..1 + hl + pl];
    if data[0] == 4 {
        // NODES: walked item by item.  The decoder is known to take every item behind the inner
        // list *header* for a record (whatever length that header announces); that tolerance is
        // outside the property, but everything it takes has to be a valid signed record.
        let mut p = payload;
        match mini::split(p) {
            Some((false, h, l)) => {
                if l > 8 {
                    v.push("accepted-id-gt-8");
                }
                p = &p[h + l..];
            }
            _ => {
                v.push("accepted-malformed-id");
                return v;
            }
        }
        match mini::split(p) {
            Some((false, h, l)) => p = &p[h + l..],
            _ => {
                v.push("accepted-malformed-total");
                return v;
            }
        }
        match mini::split(p) {
            Some((true, h, _)) => p = &p[h..],
            _ => {
                v.push("accepted-malformed-record-list");
                return v;
            }
        }
        while !p.is_empty() {
            match mini::split(p) {
                Some((true, h, l)) if record_valid(&p[..h + l]) => p = &p[h + l..],
                _ => {
                    v.push("accepted-invalid-record");
                    break;
                }
            }
        }
        return v;
    }
    let Some(fields) = mini::items(payload) else {
        v.push("accepted-malformed-fields");
        return v;
    };
    match fields.first() {
        Some(id) if !id.list => {
            if id.payload.len() > 8 {
                v.push("accepted-id-gt-8");
            }
        }
        _ => v.push("accepted-malformed-id"),
    }
    match data[0] {
        2 => {
            if let Some(ip) = fields.get(2) {
                if ip.list || (ip.payload.len() != 4 && ip.payload.len() != 16) {
                    v.push("accepted-bad-ip-length");
                }
            }
            if let Some(port) = fields.get(3) {
                if !port.list && mini::uint_of(port.payload) == Some(0) {
                    v.push("accepted-zero-port");
                }
            }
        }
        3 => {
            if let Some(ds) = fields.get(1) {
                if let Some(items) = mini::items(ds.payload) {
                    if items.iter().any(|d| d.list || mini::uint_of(d.payload).map_or(true, |x| x > 256)) {
                        v.push("accepted-distance-gt-256");
                    }
                }
            }
        }
        _ => {}
    }
    v
}

/// The harness' own lenient walk over a NODES message: the items it hands to the real record
/// decoder, with the answers (`bad` or the canonical re-encoding).
fn oracle_entries(data: &[u8]) -> Vec<(Vec<u8>, Option<Vec<u8>>)> {
    let mut out = Vec::new();
    (|| {
        if data.len() < 2 || data[0] != 4 {
            return None;
        }
        let (_, hl, _) = mini::split(&data[1..])?;
        let mut p = &data[1 + hl..];
        for _ in 0..2 {
            // id, total
            let (_, h, l) = mini::split(p)?;
            p = &p[h + l..];
        }
        let (_, h, _) = mini::split(p)?;
        p = &p[h..];
        while !p.is_empty() && out.len() < 40 {
            let (_, h, l) = mini::split(p)?;
            let item = &p[..h + l];
            let ans = enr_decode_prefix(item).map(|e| alloy_rlp::encode(&e));
            let adv = ans.as_ref().map(|a| a.len());
            out.push((item.to_vec(), ans));
            match adv {
                Some(a) if a > 0 && a <= p.len() => p = &p[a..],
                _ => break,
            }
        }
        Some(())
    })();
    out
}

fn oracle_for(data: &[u8]) -> String {
    let e = oracle_entries(data);
    if e.is_empty() {
        return "-".into();
    }
    e.iter()
        .map(|(i, a)| format!("{}={}", hx(i), a.as_ref().map(|a| hx(a)).unwrap_or_else(|| "bad".into())))
        .collect::<Vec<_>>()
        .join(",")
}

fn rdec_line(data: &[u8]) -> String {
    format!("rdec {} {}", hx(data), oracle_for(data))
}

// ---------------------------------------------------------------------------------------------
// runner

#[derive(Default)]
pub struct RpcRunner;

impl Runner for RpcRunner {
    fn reset(&mut self) {}

    fn step(&mut self, line: &str, out: &mut Vec<String>, stats: &mut Stats) {
        let t: Vec<&str> = line.split(' ').collect();
        match t.as_slice() {
            ["renc", msg] => {
                let Some(m) = parse_msg(msg) else {
                    out.push("bad-op".into());
                    return;
                };
                stats.bump(&format!("renc.{}", kind_of(&m)));
                let m2 = m.clone();
                let Some(bytes) = no_panic(move || message_encode(m2)) else {
                    out.push("!MON C06 encode-panic".into());
                    out.push("panic".into());
                    return;
                };
                if bytes != ref_encode(&m) {
                    out.push(format!("!MON C06 layout-mismatch {}", hx(&bytes)));
                }
                let b2 = bytes.clone();
                match no_panic(move || message_decode(&b2)) {
                    None => out.push("!MON C06 decode-panic-on-own-encoding".into()),
                    Some(Ok(d)) => {
                        if let Some(clause) = forbidden_value(&m) {
                            out.push(format!("!MON C06 {clause} {}", hx(&bytes)));
                        } else if d != expected_after_roundtrip(&m) {
                            out.push(format!("!MON C06 roundtrip-mismatch {}", show_msg(&d)));
                        } else {
                            stats.bump("renc.roundtrip-ok");
                        }
                    }
                    Some(Err(e)) => {
                        if forbidden_value(&m).is_none() {
                            out.push(format!("!MON C06 roundtrip-rejected {}", err_name(&e)));
                        } else {
                            stats.bump("renc.rejected-as-required");
                        }
                    }
                }
                out.push(hx(&bytes));
            }
            ["rdec", data, _oracle] => {
                let Some(data) = unhx(data) else {
                    out.push("bad-op".into());
                    return;
                };
                // assumption of the never-panics theorem about the record decoder
                for (item, ans) in oracle_entries(&data) {
                    if let Some(a) = ans {
                        if a.is_empty() || a.len() > item.len() {
                            out.push("!MON C06 record-size-exceeds-item".into());
                        }
                    }
                }
                let d2 = data.clone();
                match no_panic(move || message_decode(&d2)) {
                    None => {
                        stats.bump("rdec.panic");
                        out.push("!MON C06 decode-panic".into());
                        out.push("panic".into());
                    }
                    Some(Ok(m)) => {
                        stats.bump(&format!("rdec.ok.{}", kind_of(&m)));
                        for v in strict_violations(&data) {
                            out.push(format!("!MON C06 {v}"));
                        }
                        if let Some(clause) = forbidden_value(&m) {
                            out.push(format!("!MON C06 {clause} decoded-value"));
                        }
                        if let Message::Response(Response { body: ResponseBody::Nodes { nodes, .. }, .. }) = &m {
                            if nodes.iter().any(|e| !e.verify()) {
                                out.push("!MON C06 accepted-invalid-record decoded-value".into());
                            }
                            stats.bump(&format!("rdec.ok.nodes.{}", nodes.len().min(9)));
                        }
                        // decoded values are well-formed, so they must survive another round trip
                        let m2 = m.clone();
                        match no_panic(move || message_decode(&message_encode(m2))) {
                            Some(Ok(m3)) if m3 == m => {}
                            Some(_) => out.push("!MON C06 reencode-roundtrip-mismatch".into()),
                            None => out.push("!MON C06 reencode-panic".into()),
                        }
                        out.push(format!("ok {}", show_msg(&m)));
                    }
                    Some(Err(e)) => {
                        stats.bump(&format!("rdec.err.{}", err_name(&e)));
                        out.push(format!("err:{}", err_name(&e)));
                    }
                }
            }
            _ => out.push("bad-op".into()),
        }
    }
}

// ---------------------------------------------------------------------------------------------
// generator

fn rbytes(rng: &mut Rng, lo: u64, hi: u64) -> Vec<u8> {
    let n = rng.range(lo, hi) as usize;
    rng.bytes(n)
}

fn gen_id(rng: &mut Rng) -> Vec<u8> {
    let n = match rng.below(12) {
        0 => 0,
        1 => 1,
        2 | 3 => 8,
        4 => 9,
        _ => rng.below(9) as usize,
    };
    let mut id = rng.bytes(n);
    if n == 1 && rng.chance(1, 2) {
        id[0] &= 0x7f; // single byte below 0x80: encoded without a header
    }
    id
}

fn gen_u64(rng: &mut Rng) -> u64 {
    match rng.below(10) {
        0 => 0,
        1 => 127,
        2 => 128,
        3 => u64::MAX,
        4 => 255,
        5 => 256,
        6 => 1 << (8 * rng.range(1, 7)),
        7 => (1 << (8 * rng.range(1, 7))) - 1,
        _ => rng.next() >> rng.below(64),
    }
}

fn gen_port(rng: &mut Rng) -> u16 {
    match rng.below(8) {
        0 => 1,
        1 => 65535,
        2 => 127,
        3 => 128,
        4 => 255,
        5 => 256,
        _ => rng.range(1, 65535) as u16,
    }
}

fn gen_ip(rng: &mut Rng, stats: &mut Stats) -> (char, Vec<u8>) {
    match rng.below(12) {
        0 | 1 | 2 => ('4', rng.bytes(4)),
        3 => {
            stats.bump("gen.ip.v6-mapped");
            let mut b = vec![0u8; 10];
            b.extend_from_slice(&[0xff, 0xff]);
            b.extend(rng.bytes(4));
            ('6', b)
        }
        4 => {
            stats.bump("gen.ip.v6-compatible");
            let mut b = vec![0u8; 12];
            b.extend(rng.bytes(4));
            ('6', b)
        }
        5 => {
            stats.bump("gen.ip.v6-loopback");
            let mut b = vec![0u8; 16];
            b[15] = 1;
            ('6', b)
        }
        6 => ('6', vec![0u8; 16]),
        7 => {
            // near misses of the folding rule
            stats.bump("gen.ip.v6-near-mapped");
            let mut b = vec![0u8; 12];
            b.extend(rng.bytes(4));
            match rng.below(5) {
                0 => b[10] = 0xff,
                1 => b[11] = 0xff,
                2 => {
                    b[10] = 0xff;
                    b[11] = 0xfe;
                }
                3 => {
                    let i = rng.below(10) as usize;
                    b[i] = 1 << rng.below(8);
                    b[10] = 0xff;
                    b[11] = 0xff;
                }
                _ => {
                    let i = rng.below(10) as usize;
                    b[i] = 1 << rng.below(8);
                }
            }
            ('6', b)
        }
        8 => {
            let mut b = vec![0u8; 16];
            b[15] = rng.below(3) as u8;
            b[14] = rng.below(2) as u8;
            ('6', b)
        }
        _ => ('6', rng.bytes(16)),
    }
}

fn gen_payload(rng: &mut Rng, tier: &str) -> Vec<u8> {
    let n = match rng.below(14) {
        0 => 0,
        1 => 1,
        2 => 55,
        3 => 56,
        4 => 255,
        5 => 256,
        6 => 1200,
        7 => {
            if tier == "thorough" || rng.chance(1, 8) {
                65536 + rng.below(300) as usize
            } else {
                300
            }
        }
        8 => 54,
        _ => rng.below(120) as usize,
    };
    let mut p = rng.bytes(n);
    if n == 1 {
        match rng.below(3) {
            0 => p[0] = 0x7f,
            1 => p[0] = 0x80,
            _ => {}
        }
    }
    p
}

fn gen_distance(rng: &mut Rng, allow_bad: bool) -> u64 {
    match rng.below(14) {
        0 => 0,
        1 => 1,
        2 => 127,
        3 => 128,
        4 => 255,
        5 | 6 => 256,
        7 if allow_bad => 257,
        8 if allow_bad => match rng.below(3) {
            0 => 65535,
            1 => u64::MAX,
            _ => 256 + rng.below(1000),
        },
        _ => rng.below(257),
    }
}

/// A message in op syntax; mostly well-formed, sometimes with a field value the decoder has to
/// reject (9-byte id, distance above 256).
fn gen_msg(rng: &mut Rng, tier: &str, stats: &mut Stats) -> String {
    let id = hx(&gen_id(rng));
    match rng.below(6) {
        0 => format!("ping:{id}:{}", gen_u64(rng)),
        1 => {
            let (fam, ip) = gen_ip(rng, stats);
            format!("pong:{id}:{}:{fam}:{}:{}", gen_u64(rng), hx(&ip), gen_port(rng))
        }
        2 => {
            let n = match rng.below(8) {
                0 => 0,
                1 => 1,
                2 => 3,
                3 => 28, // payload around the 55/56 header boundary
                4 => 60,
                _ => rng.below(12) as usize,
            };
            let bad = rng.chance(1, 8);
            let ds: Vec<String> = (0..n).map(|_| gen_distance(rng, bad).to_string()).collect();
            format!("findnode:{id}:{}", show_list(ds))
        }
        3 => {
            let n = match rng.below(8) {
                0 | 1 => 0,
                2 => 1,
                3 => 8,
                _ => rng.below(9) as usize,
            };
            stats.bump(&format!("gen.nodes.records.{n}"));
            let recs: Vec<String> = (0..n).map(|_| hx(&alloy_rlp::encode(&random_enr(rng).1))).collect();
            format!("nodes:{id}:{}:{}", gen_u64(rng), show_list(recs))
        }
        4 => {
            let proto = match rng.below(5) {
                0 => Vec::new(),
                1 => vec![rng.below(256) as u8],
                2 => b"utp".to_vec(),
                _ => rbytes(rng, 0, 23),
            };
            format!("talkreq:{id}:{}:{}", hx(&proto), hx(&gen_payload(rng, tier)))
        }
        _ => format!("talkresp:{id}:{}", hx(&gen_payload(rng, tier))),
    }
}

/// Alternative (mostly invalid) encodings of an unsigned integer.
fn mutate_uint(rng: &mut Rng, v: u64, stats: &mut Stats) -> Vec<u8> {
    let canon = mini::uint(v);
    match rng.below(6) {
        0 => {
            // leading zero byte
            stats.bump("gen.mut.leading-zero");
            let mut t: Vec<u8> = v.to_be_bytes().iter().skip_while(|x| **x == 0).cloned().collect();
            t.insert(0, 0);
            let mut o = mini::header(false, t.len());
            o.extend(t);
            o
        }
        1 if v < 0x80 => {
            stats.bump("gen.mut.wrapped-single-byte");
            vec![0x81, v as u8]
        }
        2 => {
            // long form for a short string
            stats.bump("gen.mut.long-form-short");
            let t: Vec<u8> = v.to_be_bytes().iter().skip_while(|x| **x == 0).cloned().collect();
            let mut o = vec![0xb8, t.len() as u8];
            o.extend(t);
            o
        }
        3 => {
            // nine bytes: overflow
            let mut o = vec![0x89];
            o.extend(rng.bytes(9));
            o
        }
        4 => vec![0x00],
        _ => {
            // a list where a string is expected
            let mut o = vec![0xc0 + (canon.len() as u8).min(55)];
            o.extend(&canon);
            o
        }
    }
}

/// A message on the wire as its encoded fields, so that single fields can be replaced.
struct Wire {
    ty: u8,
    fields: Vec<Vec<u8>>,
}

impl Wire {
    fn assemble(&self) -> Vec<u8> {
        let payload: Vec<u8> = self.fields.concat();
        let mut v = vec![self.ty];
        v.extend(mini::list(&payload));
        v
    }
}

fn nodes_field(recs: &[Vec<u8>]) -> Vec<u8> {
    mini::list(&recs.concat())
}

/// Hand-built messages whose field values no Rust value can carry (zero port, IP lengths, …) and
/// field-level mutations of valid messages.
fn gen_wire(rng: &mut Rng, tier: &str, stats: &mut Stats) -> Vec<u8> {
    let id = gen_id(rng);
    let idf = mini::bytes(&id);
    match rng.below(6) {
        0 => {
            // PING with an alternative integer encoding
            let v = gen_u64(rng);
            let f = if rng.chance(1, 2) { mutate_uint(rng, v, stats) } else { mini::uint(v) };
            Wire { ty: 1, fields: vec![idf, f] }.assemble()
        }
        1 => {
            // PONG: ip length and port boundaries
            let iplen = match rng.below(10) {
                0 => 0,
                1 => 3,
                2 => 5,
                3 => 15,
                4 => 17,
                5 | 6 => 16,
                _ => 4,
            };
            stats.bump(&format!("gen.pong.iplen.{iplen}"));
            let ip = if iplen == 16 { gen_ip(rng, stats).1 } else { rng.bytes(iplen) };
            let ip = if ip.len() == 4 && iplen == 16 { rng.bytes(16) } else { ip };
            let port: Vec<u8> = match rng.below(10) {
                0 | 1 => {
                    stats.bump("gen.pong.port-zero");
                    mini::uint(0)
                }
                2 => vec![0x00],
                3 => vec![0x82, 0x00, 0x00],
                4 => vec![0x83, 0x01, 0x00, 0x00], // 65536: overflows u16
                5 => { let p = gen_port(rng) as u64; mutate_uint(rng, p, stats) },
                _ => mini::uint(gen_port(rng) as u64),
            };
            let mut fields = vec![idf, mini::uint(gen_u64(rng)), mini::bytes(&ip), port];
            if rng.chance(1, 10) {
                fields.push(mini::uint(rng.below(300))); // one field too many
            } else if rng.chance(1, 10) {
                fields.pop();
            }
            Wire { ty: 2, fields }.assemble()
        }
        2 => {
            // FINDNODE: distances at the cap, alternative encodings, nesting
            let n = rng.below(6) as usize;
            let mut inner = Vec::new();
            for _ in 0..n {
                let d = gen_distance(rng, true);
                if rng.chance(1, 6) {
                    inner.extend(mutate_uint(rng, d, stats));
                } else {
                    inner.extend(mini::uint(d));
                }
            }
            let list = match rng.below(8) {
                0 => mini::bytes(&inner), // a string instead of the list
                1 => {
                    let mut l = mini::list(&inner);
                    l.extend(mini::uint(gen_distance(rng, true))); // distance outside the list
                    l
                }
                _ => mini::list(&inner),
            };
            Wire { ty: 3, fields: vec![idf, list] }.assemble()
        }
        3 => {
            // NODES: record boundaries and list nesting
            let n = rng.below(5) as usize;
            let mut recs: Vec<Vec<u8>> = (0..n).map(|_| alloy_rlp::encode(&random_enr(rng).1)).collect();
            let total = mini::uint(gen_u64(rng));
            let m = rng.below(12);
            stats.bump(&format!("gen.nodes.mut.{m}"));
            let mut fields = vec![idf, total];
            match m {
                0 if n > 0 => {
                    // corrupt one byte of one record (signature / content no longer match)
                    let r = rng.below(n as u64) as usize;
                    let i = rng.range(3, recs[r].len() as u64 - 1) as usize;
                    recs[r][i] ^= 1 << rng.below(8);
                    fields.push(nodes_field(&recs));
                }
                1 if n > 0 => {
                    // truncate the last record, keeping all enclosing lengths consistent
                    let r = n - 1;
                    let k = rng.range(1, recs[r].len() as u64 - 1) as usize;
                    recs[r].truncate(k);
                    fields.push(nodes_field(&recs));
                }
                2 => {
                    // inner list header announces less than what follows inside the outer list
                    let all = recs.concat();
                    let cut = if n > 0 { recs[..rng.below(n as u64) as usize].concat().len() } else { 0 };
                    let mut f = mini::header(true, cut);
                    f.extend(all);
                    fields.push(f);
                }
                3 => {
                    // inner header is a string header
                    let all = recs.concat();
                    let mut f = mini::header(false, all.len());
                    f.extend(all);
                    fields.push(f);
                }
                4 => {
                    // junk between / after the records
                    let mut all = recs.concat();
                    all.extend(rbytes(rng, 1, 4));
                    fields.push(mini::list(&all));
                }
                5 if n > 0 => {
                    // a record wrapped in a second list
                    let r = rng.below(n as u64) as usize;
                    recs[r] = mini::list(&recs[r]);
                    fields.push(nodes_field(&recs));
                }
                6 if n > 0 => {
                    // a record whose own header is re-written in long form / with another length
                    let r = rng.below(n as u64) as usize;
                    if let Some((_, hl, pl)) = mini::split(&recs[r]) {
                        let body = recs[r][hl..].to_vec();
                        let mut nr = match rng.below(3) {
                            0 => mini::header(true, pl + 1),
                            1 => mini::header(true, pl.saturating_sub(1)),
                            _ => vec![0xf9, 0x00, pl as u8],
                        };
                        nr.extend(body);
                        recs[r] = nr;
                    }
                    fields.push(nodes_field(&recs));
                }
                7 => {
                    // records directly in the outer list, no inner list
                    for r in &recs {
                        fields.push(r.clone());
                    }
                }
                8 => {
                    // a string item among the records
                    let mut all = recs.concat();
                    all.extend(mini::bytes(&rbytes(rng, 0, 39)));
                    fields.push(mini::list(&all));
                }
                9 => {
                    // an oversized record (> 300 bytes) with an otherwise plausible shape
                    let mut all = recs.concat();
                    all.extend(mini::list(&rng.bytes(301)));
                    fields.push(mini::list(&all));
                }
                _ => fields.push(nodes_field(&recs)),
            }
            if rng.chance(1, 12) {
                fields.push(mini::uint(rng.below(200)));
            }
            Wire { ty: 4, fields }.assemble()
        }
        4 => {
            // TALKREQ / TALKRESP with missing or extra fields, list-typed fields
            let p = gen_payload(rng, tier);
            let mut fields = vec![idf, mini::bytes(&rbytes(rng, 0, 5)), mini::bytes(&p)];
            let ty = if rng.chance(1, 2) { 5 } else { 6 };
            match rng.below(5) {
                0 => {
                    fields.pop();
                }
                1 => fields.push(mini::bytes(&rng.bytes(2))),
                2 => fields[1] = mini::list(&[]),
                _ => {}
            }
            Wire { ty, fields }.assemble()
        }
        _ => {
            // the id field itself: lengths around 8, list-typed, wrapped single byte
            let n = *rng.pick(&[0usize, 1, 7, 8, 9, 10, 32, 56]);
            let idb = rng.bytes(n);
            let idf = match rng.below(6) {
                0 => mini::list(&idb),
                1 if n == 1 => vec![0x81, idb[0] & 0x7f],
                _ => mini::bytes(&idb),
            };
            stats.bump(&format!("gen.id.len.{n}"));
            Wire { ty: 1, fields: vec![idf, mini::uint(gen_u64(rng))] }.assemble()
        }
    }
}

/// Byte-level mutations of an encoding.
fn mutate_bytes(rng: &mut Rng, mut d: Vec<u8>, stats: &mut Stats) -> Vec<u8> {
    let m = rng.below(12);
    stats.bump(&format!("gen.bytemut.{m}"));
    match m {
        0 => {
            let n = rng.below(d.len() as u64 + 1) as usize;
            d.truncate(n);
        }
        1 => {
            d.pop();
        }
        2 => d.extend(rbytes(rng, 1, 3)),
        3 => d.push(0),
        4 if d.len() > 1 => {
            // outer list length off by one (short form) / any byte of the header
            d[1] = d[1].wrapping_add(if rng.chance(1, 2) { 1 } else { 0xff });
        }
        5 if d.len() > 2 => {
            // re-write the outer header in long form: non-canonical for payloads < 56, or with a
            // leading zero in the length
            if let Some((true, hl, pl)) = mini::split(&d[1..]) {
                let body = d[1 + hl..].to_vec();
                let mut n = vec![d[0]];
                match rng.below(3) {
                    0 => n.extend([0xf8, pl as u8]),
                    1 => n.extend([0xf9, (pl >> 8) as u8, pl as u8]),
                    _ => n.extend([0xfa, 0, (pl >> 8) as u8, pl as u8]),
                }
                n.extend(body);
                d = n;
            }
        }
        6 if !d.is_empty() => {
            let i = rng.below(d.len() as u64) as usize;
            d[i] ^= 1 << rng.below(8);
        }
        7 if !d.is_empty() => {
            let i = rng.below(d.len().min(6) as u64) as usize;
            d[i] = rng.below(256) as u8;
        }
        8 if !d.is_empty() => {
            d[0] = *rng.pick(&[0u8, 1, 2, 3, 4, 5, 6, 7, 0x80, 0xc0, 0xff]);
        }
        9 if d.len() > 3 => {
            // drop one byte from the middle
            let i = rng.range(1, d.len() as u64 - 1) as usize;
            d.remove(i);
        }
        10 if d.len() > 3 => {
            // duplicate one byte in the middle
            let i = rng.range(1, d.len() as u64 - 1) as usize;
            let b = d[i];
            d.insert(i, b);
        }
        _ => {}
    }
    d
}

pub fn gen_case(rng: &mut Rng, tier: &str, _profile: &str, stats: &mut Stats) -> Vec<String> {
    let mut ops = Vec::new();
    // 1. structured stream: encode a message value, decode its reference encoding
    for _ in 0..5 {
        let msg = gen_msg(rng, tier, stats);
        ops.push(format!("renc {msg}"));
        stats.bump("gen.renc");
        if let Some(m) = parse_msg(&msg) {
            let enc = ref_encode(&m);
            ops.push(rdec_line(&enc));
            stats.bump("gen.rdec.valid");
            // every valid encoding also seeds the mutation stream
            if rng.chance(2, 3) {
                let mutated = mutate_bytes(rng, enc, stats);
                ops.push(rdec_line(&mutated));
                stats.bump("gen.rdec.bytemut");
            }
        }
    }
    // 2. hand-built wire messages with boundary / invalid field encodings
    for _ in 0..5 {
        let w = gen_wire(rng, tier, stats);
        let w = if rng.chance(1, 5) { mutate_bytes(rng, w, stats) } else { w };
        ops.push(rdec_line(&w));
        stats.bump("gen.rdec.wire");
    }
    // 3. raw byte strings
    for _ in 0..2 {
        let n = match rng.below(6) {
            0 => 0,
            1 => 2,
            2 => 3,
            _ => rng.below(60) as usize,
        };
        let mut d = rng.bytes(n);
        if n > 0 && rng.chance(3, 4) {
            d[0] = rng.range(1, 6) as u8;
        }
        if n > 1 && rng.chance(1, 2) {
            d[1] = mini::header(true, n - 2)[0];
        }
        ops.push(rdec_line(&d));
        stats.bump("gen.rdec.random");
    }
    ops
}

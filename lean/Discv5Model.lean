-- This module serves as the root of the `Discv5Model` library.
-- Import modules here that should be built as part of the library.
import Discv5Model.Basic

-- Root of the `Discv5Model` library: models, helper proofs and property theorems.
import Discv5Model.Props.C05
import Discv5Model.Props.C06
import Discv5Model.Props.C15
import Discv5Model.Props.C17
import Discv5Model.Props.C18
import Discv5Model.Props.C09
import Discv5Model.Props.C10
import Discv5Model.Props.C07
import Discv5Model.Props.C08
import Discv5Model.Props.C16
import Discv5Model.Props.C20
import Discv5Model.Props.C13
import Discv5Model.Props.C01
import Discv5Model.Props.C02
import Discv5Model.Props.C11
import Discv5Model.Props.C12
import Discv5Model.Props.C14

-- Root of the `Discv5Model` library: models, helper proofs and property theorems.
import Discv5Model.Props.C05
import Discv5Model.Props.C06
import Discv5Model.Props.C15
import Discv5Model.Props.C17

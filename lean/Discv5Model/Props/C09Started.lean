/-
C09 — Iterative queries terminate: the cut-off by the query timeout counts from the first poll.

Property theorems only (helper lemmas: `Proofs/QueryStarted.lean`; model: `Model/Query.lean`).

`query_pool.rs`: `QueryPool::poll` stamps a query with `started = started.or(Some(now))` when it
visits it and cuts it off once `now - started >= query_timeout`; `on_success` / `on_failure` and
`add_*_query` never touch `started`.  The theorems say that nothing which happens between the first
poll and the cut-off — answers (also late, duplicate, empty or unsolicited ones), failures, other
queries being added, finishing or timing out, polls in any visiting order — moves that moment.
-/
import Discv5Model.Proofs.QueryStarted

namespace Discv5.Query

/-- **The first poll starts the clock.**  A query that has not been polled yet (`started = None`)
and is visited by a `poll` at time `now` carries `started = Some(now)` afterwards (if it is still in
the pool, i.e. was not handed back by that very poll). -/
theorem first_poll_starts_clock (p : Pool) (hp : PoolInv p) (now i : Nat) (rest : List Nat) (x : PQ)
    (hx : p.get i = some x) (hs : x.started = none) :
    ∀ y, (p.poll now (i :: rest)).1.get i = some y → y.started = some now := by
  intro y hy
  obtain ⟨hym, hyi⟩ := find_id hy
  exact poll_first_visit p hp now i rest x hx hs y hym hyi

/-- **Nothing restarts the clock.**  Once a query carries `started = Some(s)`, it carries the same
value after every history of pool calls (polls in any visiting order, answers and failures for any
query and peer, further queries being added) for as long as it is in the pool — provided the
`usize` id counter does not wrap (fewer than 2^64 queries are added). -/
theorem started_survives_history (p : Pool) (hp : PoolInv p) (evs : List PEv) (hw : NoWrap p evs)
    (i s : Nat) (x : PQ) (hx : p.get i = some x) (hs : x.started = some s) :
    ∀ y, (runP p evs).get i = some y → y.started = some s := by
  intro y hy
  obtain ⟨hxm, hxi⟩ := find_id hx
  obtain ⟨hym, hyi⟩ := find_id hy
  have hlt : i < p.nextId := hp.lt i (List.mem_map.mpr ⟨x, hxm, hxi⟩)
  have hst : StartedAt p i s := by
    intro z hz hzi
    have : z = x := eq_of_nodup_ids hp.nodup hz hxm (by rw [hzi, hxi])
    rw [this]; exact hs
  exact runP_started evs p hp hw i s hlt hst y hym hyi

/-- **The cut-off counts from the first poll** (`terminates`).  If a query carried
`started = Some(s)` at some point, then after *any* later history of pool calls during which it
stayed in the pool, a `poll` at a time `now` with `now - s ≥ query_timeout` that visits it first
either still hands out a request for it or hands it back (`Finished` or `Timeout`) and removes it —
no matter how many of its peers answered in between. -/
theorem cut_off_counts_from_first_poll (p : Pool) (hp : PoolInv p) (evs : List PEv) (hw : NoWrap p evs)
    (i s : Nat) (x : PQ) (hx : p.get i = some x) (hs : x.started = some s)
    (y : PQ) (hy : (runP p evs).get i = some y) (now : Nat) (rest : List Nat)
    (hto : now - s ≥ p.timeout) :
    (∃ k, ((runP p evs).poll now (i :: rest)).2 = .waitingSome i k) ∨
    ((∃ q, ((runP p evs).poll now (i :: rest)).2 = .finished i q ∨
            ((runP p evs).poll now (i :: rest)).2 = .timeout i q) ∧
      ((runP p evs).poll now (i :: rest)).1.get i = none) := by
  have hys : y.started = some s := started_survives_history p hp evs hw i s x hx hs y hy
  have hT : TimedOut (runP p evs).timeout now y := by
    unfold TimedOut
    rw [runP_timeout, hys]
    exact hto
  exact poll_timed_out_first (runP p evs) now i rest y hy hT

/-! ### Non-vacuity

One lookup (timeout 300): first poll at time 0 hands out a request to peer 3; peer 3 answers at
time 80 with a closer peer; the poll that follows hands out more requests; then silence.  At time
340 the lookup is cut off although its last answer is only 260 old. -/

private def exCfg : Config := ⟨2, 3, 1000⟩
private def exKnown : List (Nat × Bool) := [(5, true), (3, true), (9, false)]

private def exBefore : List PEv := [.add .closest exCfg 0 exKnown, .poll 0 [0]]
private def exBetween : List PEv := [.success 0 3 [(1, true)], .poll 80 [0], .poll 80 [0], .poll 80 [0]]

/-- after the first poll the query carries `started = some 0` -/
example : ((runP (Pool.new 300) exBefore).get 0).map (·.started) = some (some 0) := by decide
/-- it is still in the pool after the answer and the polls at time 80, with the same stamp -/
example : ((runP (runP (Pool.new 300) exBefore) exBetween).get 0).map (·.started) = some (some 0) := by decide
/-- the hypotheses of `cut_off_counts_from_first_poll` hold at `now = 340`, and the poll times out -/
example : retId ((runP (runP (Pool.new 300) exBefore) exBetween).poll 340 [0]).2 = some 0 := by decide
example : NoWrap (runP (Pool.new 300) exBefore) exBetween := by unfold NoWrap; decide

end Discv5.Query

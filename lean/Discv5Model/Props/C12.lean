/-
C12 — Routing-table admission and update policy.

Statements about the service steps of `Model/Service.lean` on the routing-table model.
The last conjunct of the property ("in single-stack operation an incoming session admits a node
only if the UDP address in its record equals the address its packets came from") is enforced by
the *handler* (`verify_enr` before `HandlerOut::Established`), not by the service: the service
part modelled here is that a session admits a record only if it is contactable in the IP mode and
passes the table filter.

Proof structure (`Proofs/ServiceVals.lean`, `Proofs/ServicePolicy.lean`): every table operation
preserves any predicate `P key value` on the stored and pending nodes provided `P` holds of the
(key, value) it is asked to file (`TVals`); every function of the service is a `Step` (keeps
configuration, local key, `TInv`, `TVals P`) provided `P` holds of the record an admitting input
carries and is closed under updates by a newer admissible record of the same id.  The theorems
below are instances of `step_step` for suitable `P`.
-/
import Discv5Model.Model.Service
import Discv5Model.Model.KBucketSpec
import Discv5Model.Proofs.ServicePolicy

namespace Discv5.Props.C12
open Discv5.KB Discv5.Svc

/-- What the policy demands of a value filed under `key`. -/
def RecOk (m : IpMode) (localId key : Nat) (r : Rec) : Prop :=
  contactable m r = true ∧ r.passesFilter = true ∧ r.id = key ∧ key ≠ localId

/-- Every stored and every pending value is contactable in the node's IP mode, passes the
configured table filter, is filed under its own node id, and is not the local node. -/
def TablePolicy (s : Svc) : Prop :=
  ∀ b ∈ s.table.buckets,
    (∀ n ∈ b.nodes, RecOk s.cfg.ipMode s.localRec.id n.key n.value) ∧
    (∀ p, b.pending = some p → RecOk s.cfg.ipMode s.localRec.id p.node.key p.node.value)

/-- The vote sub-step re-signs the *local* record: it keeps its node id. -/
def OracleSane (s : Svc) (o : Oracle) : Prop :=
  ∀ r a, o.newLocal = some (r, a) → r.id = s.localRec.id

/-- The structural part the policy rests on (C07) and the tie between table and local record. -/
def Wf (s : Svc) : Prop :=
  TInv s.cfg.kb s.table ∧ s.table.localKey = s.localRec.id

/-- **table_policy_inv.**  The policy is an invariant of every service step (handler events,
user API calls, query-pool emissions), for every oracle outcome of the vote sub-step. -/
theorem table_policy_inv (s : Svc) (o : Oracle) (i : Svc.Input) (hw : Wf s) (ho : OracleSane s o)
    (h : TablePolicy s) : TablePolicy (s.step o i).1 := by
  have hs : Step (RecOk s.cfg.ipMode s.localRec.id) o s (s.step o i).1 :=
    step_step s i
      (fun r _ hc hf hne => ⟨hc, hf, rfl, by rw [← hw.2]; exact hne⟩)
      (fun k v r hv hid _ hc hf => ⟨hc, hf, hid, hv.2.2.2⟩)
  have hv := hs.vals h
  intro b hb
  rw [hs.cfg, hs.localId ho]
  exact hv b hb

/-- `Wf` is preserved as well (so the invariant can be iterated along any run). -/
theorem wf_step (s : Svc) (o : Oracle) (i : Svc.Input) (hw : Wf s) (ho : OracleSane s o) :
    Wf (s.step o i).1 := by
  have hs : Step (fun _ _ => True) o s (s.step o i).1 :=
    step_step s i (fun _ _ _ _ _ => trivial) (fun _ _ _ _ _ _ _ _ => trivial)
  refine ⟨?_, ?_⟩
  · rw [hs.cfg]; exact hs.tinv hw.1
  · rw [hs.localKey, hs.localId ho]; exact hw.2

/-- The freshly started service satisfies the invariant. -/
theorem table_policy_init (cfg : Svc.Cfg) (r : Rec) : TablePolicy (Svc.init cfg r) := by
  intro b hb
  have hb' : b = {} := by
    simp only [Svc.init, Table.init] at hb
    exact List.eq_of_mem_replicate hb
  subst hb'
  refine ⟨?_, ?_⟩
  · intro n hn
    simp at hn
  · intro p hp
    simp at hp

/-- A step keeps the node id of the local record (the vote sub-step only re-signs it). -/
theorem step_local_id (s : Svc) (o : Oracle) (i : Svc.Input) (ho : OracleSane s o) :
    (s.step o i).1.localRec.id = s.localRec.id :=
  (step_step (P := fun _ _ => True) s i (fun _ _ _ _ _ => trivial)
    (fun _ _ _ _ _ _ _ _ => trivial)).localId ho

/-- **table_policy_run.**  Along every run (any sequence of inputs and oracle outcomes that re-sign
the local record under its own id) from a state satisfying the policy, the policy holds; in
particular along every run of a freshly started service. -/
theorem table_policy_run (l : List (Oracle × Svc.Input)) (s : Svc) (hw : Wf s)
    (ho : ∀ p ∈ l, OracleSane s p.1) (h : TablePolicy s) :
    Wf (s.run l).1 ∧ TablePolicy (s.run l).1 := by
  induction l generalizing s with
  | nil => exact ⟨hw, h⟩
  | cons p rest ih =>
    obtain ⟨o, i⟩ := p
    have ho1 : OracleSane s o := ho (o, i) (List.mem_cons_self ..)
    have hid := step_local_id s o i ho1
    have := ih (s.step o i).1 (wf_step s o i hw ho1)
      (fun q hq r a hr => by rw [hid]; exact ho q (List.mem_cons_of_mem _ hq) r a hr)
      (table_policy_inv s o i hw ho1 h)
    exact this

theorem table_policy_from_init (cfg : Svc.Cfg) (r : Rec) (l : List (Oracle × Svc.Input))
    (ho : ∀ p ∈ l, ∀ r' a, p.1.newLocal = some (r', a) → r'.id = r.id) :
    TablePolicy ((Svc.init cfg r).run l).1 :=
  (table_policy_run l (Svc.init cfg r) ⟨init_tinv _ _, rfl⟩ ho (table_policy_init cfg r)).2

/-- Inputs that may enlarge the key set of the table: an established session or an explicit add. -/
def admits : Svc.Input → Bool
  | .established .. => true
  | .addEnr _ => true
  | _ => false

/-- The node id an admitting input is about. -/
def admittedId : Svc.Input → Option Nat
  | .established r _ _ => some r.id
  | .addEnr r => some r.id
  | _ => none

/-- `admittedId` / `admits` describe the record `admRec` (used in the proofs) picks. -/
theorem admRec_spec {i : Svc.Input} {r : Rec} (h : admRec i = some r) :
    admits i = true ∧ admittedId i = some r.id := by
  cases i <;> simp only [admRec, Option.some.injEq] at h <;>
    first | (subst h; exact ⟨rfl, rfl⟩) | cases h

theorem admRec_none {i : Svc.Input} (h : admits i = false) : admRec i = none := by
  cases i <;> first | rfl | cases h

/-- **admission_only_by_session_or_add.**  A step makes a node id a (stored or pending) table
entry only if it is an established session or an explicit add — and then only the id of that
record; never merely because a record appeared in a NODES response. -/
theorem admission_only_by_session_or_add (s : Svc) (o : Oracle) (i : Svc.Input) (hw : Wf s) (k : Nat)
    (hnew : k ∈ (s.step o i).1.table.allKeys) (hold : k ∉ s.table.allKeys) :
    admits i = true ∧ admittedId i = some k := by
  have _ := hw  -- (not needed: the statement holds for every state)
  obtain ⟨r, hr, hid, _, _⟩ := step_new_key s o i k hnew hold
  have := admRec_spec hr
  rw [hid] at this
  exact this

/-- A session (or add) admits a record only if it is contactable in the IP mode and passes the
table filter. -/
theorem admission_needs_policy (s : Svc) (o : Oracle) (i : Svc.Input) (hw : Wf s) (k : Nat)
    (hnew : k ∈ (s.step o i).1.table.allKeys) (hold : k ∉ s.table.allKeys) :
    ∃ r, (admittedId i = some r.id ∧ r.id = k) ∧ contactable s.cfg.ipMode r = true ∧ r.passesFilter = true := by
  have _ := hw  -- (not needed: the statement holds for every state)
  obtain ⟨r, hr, hid, hc, hf⟩ := step_new_key s o i k hnew hold
  exact ⟨r, ⟨(admRec_spec hr).2, hid⟩, hc, hf⟩

/-- The value stored (or pending) under a key. -/
def valueOf (t : Table Rec) (key : Nat) : Option Rec :=
  match lookup t key with
  | .present v _ => some v
  | .pending v _ => some v
  | _ => none

theorem valueOf_eq (t : Table Rec) (key : Nat) : valueOf t key = lookupVal t key := rfl

/-- **network_update_rule.**  In a step that is not an established session / explicit add (i.e.
everything learnt from the network: NODES responses, failures with partial results, PING/PONG, …)
a stored value changes only to a record for the same id with a strictly higher sequence number
that is contactable and passes the filter; otherwise it stays or the entry disappears. -/
theorem network_update_rule (s : Svc) (o : Oracle) (i : Svc.Input) (hw : Wf s) (hnet : admits i = false)
    (k : Nat) (v v' : Rec) (h1 : valueOf s.table k = some v)
    (h2 : valueOf (s.step o i).1.table k = some v') :
    v' = v ∨ (v'.id = k ∧ v.seq < v'.seq ∧ contactable s.cfg.ipMode v' = true ∧ v'.passesFilter = true) := by
  rw [valueOf_eq] at h1 h2
  exact step_update s o i hw.1 (admRec_none hnet) k v v' h1 h2

/-- The same rule on the `discovered` loop itself, for one record. -/
theorem discovered_one_rule (s : Svc) (source : Nat) (r : Rec) (hw : Wf s) (k : Nat) (v v' : Rec)
    (h1 : valueOf s.table k = some v) (h2 : valueOf (s.discoveredOne source r).1.table k = some v') :
    v' = v ∨ (v' = r ∧ r.id = k ∧ v.seq < r.seq ∧ contactable s.cfg.ipMode r = true ∧ r.passesFilter = true) := by
  rw [valueOf_eq] at h1 h2
  exact discoveredOne_update s source r hw.1 k v v' h1 h2

/-- Non-vacuity: a contactable record in IPv4 mode; a mapped IPv6 address is not contactable. -/
def recV4 : Rec :=
  { id := 1, seq := 1, udp4 := some 655369000, udp6 := none, udp6Mapped := false, size := 134, passesFilter := true }

def recMapped : Rec :=
  { id := 1, seq := 1, udp4 := none, udp6 := some 7, udp6Mapped := true, size := 134, passesFilter := true }

example : contactable .ip4 recV4 = true := by decide

example : contactable .dual recMapped = false := by decide

/-! ### Non-vacuity on a concrete run

Local node 0 in IPv4 mode; a session with node 1 (`recV4`) is established (outgoing), node 1 then
PINGs with ENR sequence number 5, which makes the service request its record (FINDNODE [0],
request id 2); the NODES response carries a record for node 1. -/

def exCfg : Svc.Cfg := { ipMode := .ip4, maxNodesResponse := 16, kb := kbCfg 8 60 }

def exLocal : Rec :=
  { id := 0, seq := 1, udp4 := some 65537, udp6 := none, udp6Mapped := false, size := 120, passesFilter := true }

def exAddr : Addr := { v6 := false, sock := 655369000 }

def ex0 : Svc := Svc.init exCfg exLocal

/-- after `established` -/
def ex1 : Svc := (ex0.step {} (.established recV4 exAddr false)).1

/-- after the PING (the ENR request 2 is now active) -/
def ex2 : Svc := (ex1.step {} (.request 1 exAddr [1] (.ping 5))).1

/-- same sequence number, different content -/
def recSame : Rec := { recV4 with sig := 7 }

/-- higher sequence number -/
def recNew : Rec := { recV4 with seq := 2, sig := 9 }

/-- higher sequence number, but no IPv4 socket: not contactable in IPv4 mode -/
def recNewBad : Rec := { recV4 with seq := 3, udp4 := none }

def exResp (r : Rec) : Svc := (ex2.step {} (.response 1 exAddr 2 (.nodes 1 [r]))).1

/-- The hypotheses `Wf`, `OracleSane`, `TablePolicy` hold of the initial state and hence (by the
theorems) along the whole run. -/
example : Wf ex0 ∧ OracleSane ex0 {} ∧ TablePolicy ex0 :=
  ⟨⟨init_tinv _ _, rfl⟩, (fun _ _ h => by cases h), table_policy_init _ _⟩

theorem ex1_wf : Wf ex1 :=
  wf_step ex0 {} _ ⟨init_tinv _ _, rfl⟩ (fun _ _ h => by cases h)

/-- An `established` step inserts: the table of `ex1` has exactly one entry, node 1 with `recV4`,
and the policy holds of it (a state with one stored node satisfying all hypotheses). -/
example : ex0.table.allKeys = [] ∧ ex1.table.allKeys = [1] ∧ valueOf ex1.table 1 = some recV4 := by
  decide +kernel

example : Wf ex1 ∧ TablePolicy ex1 :=
  ⟨ex1_wf, table_policy_inv ex0 {} _ ⟨init_tinv _ _, rfl⟩ (fun _ _ h => by cases h)
    (table_policy_init _ _)⟩

/-- The hypotheses of `admission_only_by_session_or_add` are satisfiable (and its conclusion is what
happened). -/
example : 1 ∈ (ex0.step {} (.established recV4 exAddr false)).1.table.allKeys ∧
    1 ∉ ex0.table.allKeys ∧ admits (.established recV4 exAddr false) = true ∧
    admittedId (.established recV4 exAddr false) = some 1 := by
  decide +kernel

/-- A NODES response (a network input: `admits = false`) with a record of equal sequence number
does not change the stored value; one with a higher sequence number replaces it; one with a higher
sequence number that is not contactable removes the entry. -/
example : admits (.response 1 exAddr 2 (.nodes 1 [recSame])) = false ∧
    valueOf ex2.table 1 = some recV4 ∧
    valueOf (exResp recSame).table 1 = some recV4 ∧
    valueOf (exResp recNew).table 1 = some recNew ∧ recV4.seq < recNew.seq ∧
    valueOf (exResp recNewBad).table 1 = none ∧ (exResp recNewBad).table.allKeys = [] := by
  decide +kernel

/-- The same on the loop body (`discovered_one_rule`). -/
example : valueOf (ex1.discoveredOne 1 recSame).1.table 1 = some recV4 ∧
    valueOf (ex1.discoveredOne 1 recNew).1.table 1 = some recNew := by
  decide +kernel

end Discv5.Props.C12

/-
C09 / C10 at the level of the service: the lookups of `Model/Lookup.lean` (`LSvc` = service model +
the lookup's state machine, `LSvc.step` = one service step followed by everything the service loop
does for the lookup: requests for the peers it selects, failures for peers whose record is unknown
or not contactable, the hand-over of the result).

* `lookup_is_query_history`: over every history of service steps and lookups, the state of the running
  lookup is the state a `FindNodeQuery` / `PredicateQuery` reaches from its constructor along some
  sequence of `next` / `on_success` / `on_failure` calls - so every theorem of `Props/C09.lean` and
  `Props/C10.lean` (parallelism, no peer contacted twice, termination measure, result sound / sorted /
  complete-when-short) holds of the lookups the service actually runs; `lookup_inflight_bounded`
  spells out the first of them.
* `result_ends_lookup`, `result_needs_lookup`, `no_lookup_is_plain_service`: a result is handed over
  only in a step before which a lookup ran (or which started it), and after that step none runs: one
  result per lookup, never a second one; while no lookup runs the composition is the service model.
* `result_size`: the result handed over has at most 16 records (`find_node`), resp. the number asked
  for (`find_node_predicate`).
* `lookup_never_selects_a_peer_twice`: over every history, the peers the running lookup hands to the
  service loop (for which `send_rpc_query` is called) are pairwise distinct.
* `service_step_is_a_run`, `lookup_start_is_a_run`, `lookups_keep_table_policy`: the service component of
  a composed step is a run of the service model on its own (the step, then inputs the loop generates
  itself), so what is proved of all runs of `Svc` - the routing-table policy of C12 in particular -
  holds with lookups running.
-/
import Discv5Model.Proofs.LookupLemmas
import Discv5Model.Proofs.LookupLedger
import Discv5Model.Props.C12

namespace Discv5.Props.C09Service

open Discv5.KB
open Discv5.Svc
open Discv5.Svc.Svc
open Discv5.Lookup

/-- Every running lookup is a query history. -/
def LInv (c : LCfg) (k : LSvc) : Prop := ∀ q, k.q = some q → IsHistory c q

theorem pump_inv (c : LCfg) (now : Nat) (k : LSvc) (h : LInv c k) : LInv c (pump now k).1 := by
  unfold pump
  cases hq : k.q with
  | none => intro q hq'; simp only [hq] at hq'; cases hq'
  | some q0 =>
    intro q hq'
    exact pumpLoop_history c now _ k.svc q0 [] (h q0 hq) q hq'

theorem step_inv (c : LCfg) (now : Nat) (k : LSvc) (i : LInput) (h : LInv c k) :
    LInv c (k.step c now i).1 := by
  cases i with
  | svc o inp =>
    rw [step_svc]
    apply pump_inv
    intro q hq
    simp only at hq
    cases hk : k.q with
    | none => rw [hk] at hq; simp at hq
    | some q0 =>
      rw [hk] at hq
      cases he : effectOf k.svc inp with
      | none =>
        rw [he] at hq; simp only at hq
        have e0 : q0 = q := Option.some.inj hq
        rw [← e0]; exact h q0 hk
      | some e =>
        rw [he] at hq; simp only at hq
        have e0 : applyEffect c q0 e = q := Option.some.inj hq
        rw [← e0]; exact (h q0 hk).applyEffect e
  | lookup target numResults =>
    cases hr : k.q.isSome with
    | true => rw [step_lookup_running c now k target numResults hr]; exact h
    | false =>
      cases hs : (k.svc.startQuery target).query with
      | none =>
        rw [step_lookup_empty c now k target numResults hr hs]
        intro q hq; cases hq
      | some qq =>
        rw [step_lookup_start c now k target numResults qq hr hs]
        apply pump_inv
        intro q hq
        simp only [Option.some.injEq] at hq
        subst hq
        cases numResults with
        | none => exact IsHistory.init c .closest _ _ _
        | some n => exact IsHistory.init c .predicate _ _ _

theorem run_inv (c : LCfg) (steps : List (Nat × LInput)) :
    ∀ (k : LSvc), LInv c k → LInv c (LSvc.run c k steps).1 := by
  induction steps with
  | nil => intro k h; exact h
  | cons s rest ih =>
    intro k h
    obtain ⟨now, i⟩ := s
    exact ih _ (step_inv c now k i h)

/-- **The lookups the service runs are query histories.**  Start from any service state without a
lookup; after any sequence of service steps (sessions, requests, answers, failures, user calls -
whatever the oracle says) and lookups, a running lookup is in a state that `FindNodeQuery` /
`PredicateQuery` reaches from `with_config` along calls of `next`, `on_success`, `on_failure`. -/
theorem lookup_is_query_history (c : LCfg) (s0 : Svc) (steps : List (Nat × LInput)) (q : Q)
    (hq : (LSvc.run c { svc := s0 } steps).1.q = some q) : IsHistory c q :=
  run_inv c steps { svc := s0 } (fun _ h => by cases h) q hq

/-- **Bounded parallelism of the lookups the service runs**: never more requests in flight than the
configured parallelism, resp. (once stalled) than the number of results asked for. -/
theorem lookup_inflight_bounded (c : LCfg) (s0 : Svc) (steps : List (Nat × LInput)) (q : Q)
    (hq : (LSvc.run c { svc := s0 } steps).1.q = some q) :
    q.peers.countP (fun e => e.state.isWaiting) ≤ max c.parallelism q.cfg.numResults :=
  (lookup_is_query_history c s0 steps q hq).inflight

/-! ## One result per lookup -/

theorem pump_result (now : Nat) (k : LSvc) (found : List Rec) (h : (pump now k).2.2 = some found) :
    (pump now k).1.q = none ∧ k.q.isSome = true := by
  unfold pump at h ⊢
  cases hq : k.q with
  | none => rw [hq] at h; cases h
  | some q => rw [hq] at h; exact ⟨pumpLoop_result now _ k.svc q [] found h, rfl⟩

/-- After the step that hands over a result no lookup runs. -/
theorem result_ends_lookup (c : LCfg) (now : Nat) (k : LSvc) (i : LInput) (found : List Rec)
    (h : (k.step c now i).2.2 = some found) : (k.step c now i).1.q = none := by
  cases i with
  | svc o inp => rw [step_svc] at h ⊢; exact (pump_result now _ found h).1
  | lookup target numResults =>
    cases hr : k.q.isSome with
    | true => rw [step_lookup_running c now k target numResults hr] at h; cases h
    | false =>
      cases hs : (k.svc.startQuery target).query with
      | none => rw [step_lookup_empty c now k target numResults hr hs]
      | some qq =>
        rw [step_lookup_start c now k target numResults qq hr hs] at h ⊢
        exact (pump_result now _ found h).1

/-- A service step hands over a result only if a lookup was running. -/
theorem result_needs_lookup (c : LCfg) (now : Nat) (k : LSvc) (o : Oracle) (inp : Input) (found : List Rec)
    (h : (k.step c now (.svc o inp)).2.2 = some found) : k.q.isSome = true := by
  rw [step_svc] at h
  have := (pump_result now _ found h).2
  simp only at this
  cases hk : k.q with
  | none => rw [hk] at this; simp at this
  | some _ => rfl

/-- While no lookup runs the composition is the service model itself. -/
theorem no_lookup_is_plain_service (c : LCfg) (now : Nat) (k : LSvc) (o : Oracle) (inp : Input)
    (h : k.q = none) :
    k.step c now (.svc o inp) = ({ svc := (k.svc.step o inp).1, q := none }, (k.svc.step o inp).2, none) := by
  rw [step_svc, h]
  simp [pump]

/-! ## Size of the result -/

/-- What a step may hand over at most: the number of results of the running lookup, resp. of the
lookup the step starts. -/
def stepBound (k : LSvc) : LInput → Nat
  | .svc _ _ => match k.q with | some q => q.cfg.numResults | none => 0
  | .lookup _ none => 16
  | .lookup _ (some n) => n

theorem applyEffect_cfg (c : LCfg) (q : Q) (e : QEffect) : (applyEffect c q e).cfg = q.cfg := by
  cases e with
  | success src kept => exact (Query.onSuccess_const q src _).1
  | failure p => exact (Query.onFailure_const q p).1

theorem pump_result_length (now : Nat) (k : LSvc) (q : Q) (hq : k.q = some q) (found : List Rec)
    (h : (pump now k).2.2 = some found) : found.length ≤ q.cfg.numResults := by
  unfold pump at h
  rw [hq] at h
  exact pumpLoop_result_length now _ k.svc q [] found h

/-- **A lookup returns at most as many nodes as it was asked for** (16 for `find_node`). -/
theorem result_size (c : LCfg) (now : Nat) (k : LSvc) (i : LInput) (found : List Rec)
    (h : (k.step c now i).2.2 = some found) : found.length ≤ stepBound k i := by
  cases i with
  | svc o inp =>
    have hsome := result_needs_lookup c now k o inp found h
    rw [step_svc] at h
    cases hk : k.q with
    | none => rw [hk] at hsome; simp at hsome
    | some q0 =>
      show found.length ≤ (match k.q with | some q => q.cfg.numResults | none => 0)
      rw [hk]
      simp only
      rw [hk] at h
      cases he : effectOf k.svc inp with
      | none =>
        rw [he] at h
        exact pump_result_length now _ q0 rfl found h
      | some e =>
        rw [he] at h
        have := pump_result_length now _ (applyEffect c q0 e) rfl found h
        rw [applyEffect_cfg] at this
        exact this
  | lookup target numResults =>
    cases hr : k.q.isSome with
    | true => rw [step_lookup_running c now k target numResults hr] at h; cases h
    | false =>
      cases hs : (k.svc.startQuery target).query with
      | none =>
        rw [step_lookup_empty c now k target numResults hr hs] at h
        cases h
        exact Nat.zero_le _
      | some qq =>
        rw [step_lookup_start c now k target numResults qq hr hs] at h
        have := pump_result_length now _ (newQ c target numResults qq) rfl found h
        cases numResults with
        | none => exact this
        | some n => exact this

/-! ## No peer is handed out twice -/

/-- **A lookup the service runs never selects the same peer twice.**  Follow any history of service
steps and lookups from a state without a lookup, keeping the ledger `runSel` of the peers the running
lookup's `next` handed to the service loop (`send_rpc_query` is called for exactly these, in this
order; the ledger starts afresh with every lookup): while a lookup runs, no peer occurs twice in it -
whatever answers, failures, late answers, records that cannot be contacted, table changes and user
calls the history contains. -/
theorem lookup_never_selects_a_peer_twice (c : LCfg) (s0 : Svc) (steps : List (Nat × LInput))
    (hrun : (runSel c { svc := s0 } [] steps).1.q.isSome = true) :
    (runSel c { svc := s0 } [] steps).2.Nodup := by
  have h := runSel_ledger c steps { svc := s0 } [] (fun _ hq => by cases hq)
  cases hq : (runSel c { svc := s0 } [] steps).1.q with
  | none => rw [hq] at hrun; cases hrun
  | some q => exact (h q hq).nodup

/-- The ledger is not a separate run: its state component is the run of the composition. -/
theorem runSel_is_run (c : LCfg) (steps : List (Nat × LInput)) :
    ∀ (k : LSvc) (sel : List Nat), (runSel c k sel steps).1 = (LSvc.run c k steps).1 := by
  induction steps with
  | nil => intro k sel; rfl
  | cons s rest ih =>
    intro k sel
    obtain ⟨now, i⟩ := s
    exact ih _ _

/-! ## Lookups are runs of the service model -/

/-- **A composed step is a run of the service model**: the step itself, followed by inputs the
service loop generates on its own (a request for a peer the lookup selected, the end of the lookup,
`find_enr` look-ups for the result).  Every invariant proved of all runs of `Svc` therefore holds with
lookups running. -/
theorem service_step_is_a_run (c : LCfg) (now : Nat) (k : LSvc) (o : Oracle) (inp : Input) :
    ∃ l : List Input, (∀ i ∈ l, IsInternal i) ∧
      (k.step c now (.svc o inp)).1.svc = (k.svc.run ((o, inp) :: l.map fun i => (({} : Oracle), i))).1 := by
  obtain ⟨l, hl, he⟩ := step_svc_internal c now k o inp
  exact ⟨l, hl, he⟩

theorem lookup_start_is_a_run (c : LCfg) (now : Nat) (k : LSvc) (target : Nat) (n : Option Nat) :
    ∃ l : List Input, (∀ i ∈ l, IsInternal i) ∧
      (k.step c now (.lookup target n)).1.svc = (k.svc.run (l.map fun i => (({} : Oracle), i))).1 :=
  step_lookup_internal c now k target n

/-- **The routing-table policy of C12 holds with lookups running**: from a well-formed state that
satisfies the policy (every stored and pending value contactable, passing the table filter, not the
local node), a composed step - whatever the lookup does in it - leads to such a state again. -/
theorem lookups_keep_table_policy (c : LCfg) (now : Nat) (k : LSvc) (i : LInput)
    (hw : C12.Wf k.svc) (hp : C12.TablePolicy k.svc)
    (ho : ∀ o inp, i = .svc o inp → C12.OracleSane k.svc o) :
    C12.Wf (k.step c now i).1.svc ∧ C12.TablePolicy (k.step c now i).1.svc := by
  have hsane : ∀ (s : Svc) (l : List Input) (p : Oracle × Input),
      p ∈ (l.map fun i => (({} : Oracle), i)) → C12.OracleSane s p.1 := by
    intro s l p hp'
    obtain ⟨i', _, rfl⟩ := List.mem_map.mp hp'
    intro r a h; cases h
  cases i with
  | svc o inp =>
    obtain ⟨l, _, he⟩ := service_step_is_a_run c now k o inp
    rw [he]
    apply C12.table_policy_run _ k.svc hw _ hp
    intro p hp'
    cases hp' with
    | head => exact ho o inp rfl
    | tail _ h => exact hsane k.svc l p h
  | lookup target n =>
    obtain ⟨l, _, he⟩ := lookup_start_is_a_run c now k target n
    rw [he]
    exact C12.table_policy_run _ k.svc hw (fun p h => hsane k.svc l p h) hp

/-! ## Non-vacuity -/

def exRec (id : Nat) : Rec :=
  { id := id, seq := 1, udp4 := some (167772160 * 65536 + 9000 + id), udp6 := none, udp6Mapped := false,
    size := 100, passesFilter := true }

def exCfg : Cfg := { ipMode := .ip4, maxNodesResponse := 16, kb := kbCfg 16 60000 }

/-- A node with two table entries starts a lookup: both are asked at once (parallelism 3), the lookup
waits; both requests fail; the lookup ends with an empty result - handed over exactly then. -/
def exK0 : LSvc :=
  { svc := ((((Svc.init exCfg (exRec 1)).step {} (.addEnr (exRec 6))).1).step {} (.addEnr (exRec 12))).1 }

def exRun := LSvc.run {} exK0 [(0, .lookup 5 none), (0, .svc {} (.requestFailed 1)), (0, .svc {} (.requestFailed 2))]

example : exRun.2.1.length = 2 ∧ exRun.2.2 = [[]] ∧ exRun.1.q.isNone = true := by decide +kernel

end Discv5.Props.C09Service

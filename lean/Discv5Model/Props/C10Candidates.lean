/-
C10, completeness clause, at the seam between admission and contact: a lookup that returns fewer nodes
than asked for has contacted every candidate it learned of (`Props/C10.lean` for the lookup state
machine) - *provided* the service, asked to contact a candidate, really sends the request.  The service
refuses when `NodeContact::try_from_enr` fails, and reports that to the lookup as a failure of the
peer.  The two sides decide with the same predicate, and that is what is proved here:

* `kept_records_are_admissible`: every record `discovered` hands to a lookup is contactable in this
  node's IP mode, passes the table filter, and is neither the local node nor the responder;
* `discovered_adds_admissible_candidates`: so is everything `discovered` adds to the lookup's untrusted
  records (the records `send_rpc_query` later finds);
* `contactable_candidate_is_asked`: `send_rpc_query` for a candidate whose record is found and is
  contactable in this node's IP mode emits exactly one FINDNODE request to it - the "non contactable"
  branch is dead for every record `discovered` kept.

* `untrusted_admissible_run` / `untrusted_admissible_from_init`: along every run of the service, every
  untrusted record of the running lookup - first candidates from the table (C12's policy), later ones from
  answers - is admissible (the `untr` clause of `Step` in `Proofs/ServicePolicy.lean`, proved for every
  function of the service);
* `found_candidate_is_asked`: so in every reachable state a candidate whose record `find_enr` finds is sent
  its request; the lookup is told "failed" without a request only for a node whose record is found nowhere.

(A change that makes the contact side stricter than the admission side - refusing, say, addresses that
admission lets in - breaks the second theorem's counterpart in the code; the correspondence run sees it as
a predicted request that is never sent, and the monitor
`lookup-short-although-a-node-it-learned-of-was-never-asked` gives the failing history.)
-/
import Discv5Model.Proofs.ServiceDiscovered
import Discv5Model.Props.C12
import Discv5Model.Props.C09Service

namespace Discv5.Props.C10Candidates

open Discv5.KB
open Discv5.Svc
open Discv5.Svc.Svc

/-- What one pass of the `retain` closure keeps is admissible. -/
theorem discoveredOne_keep (s : Svc) (source : Nat) (r : Rec)
    (h : (s.discoveredOne source r).2.1 = true) :
    contactable s.cfg.ipMode r = true ∧ r.passesFilter = true ∧ r.id ≠ s.localRec.id ∧ r.id ≠ source := by
  unfold discoveredOne at h
  by_cases hl : (r.id == s.localRec.id) = true
  · simp [hl] at h
  · by_cases hok : (r.passesFilter && contactable s.cfg.ipMode r) = true
    · have hp : r.passesFilter = true ∧ contactable s.cfg.ipMode r = true := by
        simpa [Bool.and_eq_true] using hok
      have hne : r.id ≠ s.localRec.id := by simpa using hl
      refine ⟨hp.2, hp.1, hne, ?_⟩
      have hsrc : (source != r.id) = true := by
        simp only [hl, hok, if_true, Bool.false_eq_true, if_false] at h
        generalize s.entry r.id = e at h
        obtain ⟨s1, l⟩ := e
        cases l <;> simp only [] at h <;> (repeat' split at h) <;> first | exact h | (simp at h)
      intro heq
      simp [heq] at hsrc
    · simp [hl, hok] at h

/-- Every record `discovered` keeps (hands to the lookup the request belonged to) is contactable in this
node's IP mode, passes the table filter, and is neither the local node nor the responder itself. -/
theorem kept_records_are_admissible (source : Nat) :
    ∀ (recs : List Rec) (s : Svc) (kept : List Rec) (outs : List Out),
      ∀ r ∈ (discoveredLoop s source recs kept outs).2.1,
        r ∈ kept ∨ (contactable s.cfg.ipMode r = true ∧ r.passesFilter = true ∧
          r.id ≠ s.localRec.id ∧ r.id ≠ source)
  | [], _, kept, _, r, hr => Or.inl (by simpa [discoveredLoop] using hr)
  | x :: rs, s, kept, outs, r, hr => by
    rw [discoveredLoop_cons] at hr
    have ih := kept_records_are_admissible source rs _ _ _ r hr
    rw [discoveredOne_cfg, discoveredOne_localId] at ih
    rcases ih with hk | hadm
    · by_cases hkeep : (s.discoveredOne source x).2.1 = true
      · rw [if_pos hkeep] at hk
        rcases List.mem_append.mp hk with h | h
        · exact Or.inl h
        · have : r = x := by simpa using h
          subst this
          exact Or.inr (discoveredOne_keep s source r hkeep)
      · rw [if_neg hkeep] at hk
        exact Or.inl hk
    · exact Or.inr hadm

/-- The `untrusted_enrs` update of `discovered` adds nothing but kept records. -/
theorem foldl_untrusted_mem (kept : List Rec) :
    ∀ (u : List Rec), ∀ r ∈ kept.foldl
        (fun (u : List Rec) r => if u.any (fun e => e.id == r.id) then u else u ++ [r]) u,
      r ∈ u ∨ r ∈ kept := by
  induction kept with
  | nil => intro u r hr; exact Or.inl hr
  | cons x xs ih =>
    intro u r hr
    rw [List.foldl_cons] at hr
    rcases ih _ r hr with h | h
    · split at h
      · exact Or.inl h
      · rcases List.mem_append.mp h with h | h
        · exact Or.inl h
        · exact Or.inr (by simp at h; simp [h])
    · exact Or.inr (List.mem_cons_of_mem _ h)

/-- Whatever `discovered` adds to the untrusted records of the lookup a request belonged to - the records
the lookup will later be asked to contact - is contactable in this node's IP mode, passes the table filter,
and is neither the local node nor the responder. -/
theorem discovered_adds_admissible_candidates (s : Svc) (source : Nat) (recs : List Rec) (query : Option Nat)
    (q' : Query) (hq' : (s.discovered source recs query).1.query = some q') :
    ∀ r ∈ q'.untrusted,
      (∃ q, (discoveredLoop s source recs [] []).1.query = some q ∧ r ∈ q.untrusted) ∨
      (contactable s.cfg.ipMode r = true ∧ r.passesFilter = true ∧ r.id ≠ s.localRec.id ∧ r.id ≠ source) := by
  intro r hr
  have hk := kept_records_are_admissible source recs s [] []
  unfold discovered at hq'
  generalize discoveredLoop s source recs [] [] = x at hq' hk ⊢
  obtain ⟨s1, kept, outs⟩ := x
  simp only [] at hq' hk ⊢
  split at hq'
  · rename_i qid q hqs
    split at hq'
    · simp only [Option.some.injEq] at hq'
      subst hq'
      simp only [] at hr
      rcases foldl_untrusted_mem kept q.untrusted r hr with h | h
      · exact Or.inl ⟨q, by assumption, h⟩
      · rcases hk r h with h0 | h0
        · simp at h0
        · exact Or.inr h0
    · exact Or.inl ⟨q', hq', hr⟩
  · exact Or.inl ⟨q', hq', hr⟩

/-- `send_rpc_query` for a candidate whose record is found (routing table or the lookup's untrusted
records) and is contactable in this node's IP mode sends it exactly one FINDNODE request: the lookup is
never told "failed" about a peer nothing was sent to. -/
theorem contactable_candidate_is_asked (s : Svc) (q : Query) (peer : Nat) (r : Rec)
    (hq : s.query = some q) (hf : (s.findEnr peer).2 = some r)
    (hc : contactable (s.findEnr peer).1.cfg.ipMode r = true) :
    ∃ id a body, (s.sendRpcQuery peer).2 = [.request id r.id a body] := by
  unfold sendRpcQuery
  rw [hq]
  simp only []
  generalize hfe : s.findEnr peer = fe at hf hc
  obtain ⟨s1, known⟩ := fe
  simp only [] at hf hc
  subst hf
  simp only []
  unfold contactable at hc
  cases hca : contactableAddr s1.cfg.ipMode r with
  | none => rw [hca] at hc; simp at hc
  | some a =>
    simp only [sendRpcRequest]
    exact ⟨_, _, _, rfl⟩

/-! ## Along every run -/

open Discv5.Props.C12 (TablePolicy Wf OracleSane RecOk)

/-- One step keeps "every untrusted record of the running lookup is admissible" (given the table policy
of C12, from which a lookup takes its first candidates). -/
theorem untrusted_admissible_step (s : Svc) (o : Oracle) (i : Svc.Input) (hw : Wf s)
    (hp : TablePolicy s) (hu : UOk s) : UOk (s.step o i).1 := by
  have hs : Step (RecOk s.cfg.ipMode s.localRec.id) o s (s.step o i).1 :=
    step_step s i
      (fun r _ hc hf hne => ⟨hc, hf, rfl, by rw [← hw.2]; exact hne⟩)
      (fun k v r hv hid _ hc hf => ⟨hc, hf, hid, hv.2.2.2⟩)
  exact hs.untr (fun _ _ h => ⟨h.1, h.2.1⟩) hp hu

/-- **Every record a lookup is ever asked to contact is admissible.**  Along every run of the service
(any inputs, any oracle outcomes that re-sign the local record under its own id) from a state with the
table policy and admissible untrusted records - in particular from a freshly started service - the
untrusted records of the running lookup are contactable in the node's IP mode and pass the table
filter.  With `contactable_candidate_is_asked`: whenever `send_rpc_query` finds the record of the
candidate it is given among them, the request goes out. -/
theorem untrusted_admissible_run (l : List (Oracle × Svc.Input)) (s : Svc) (hw : Wf s)
    (ho : ∀ p ∈ l, OracleSane s p.1) (hp : TablePolicy s) (hu : UOk s) :
    UOk (s.run l).1 := by
  induction l generalizing s with
  | nil => exact hu
  | cons p rest ih =>
    obtain ⟨o, i⟩ := p
    have ho1 : OracleSane s o := ho (o, i) (List.mem_cons_self ..)
    have hid := C12.step_local_id s o i ho1
    exact ih (s.step o i).1 (C12.wf_step s o i hw ho1)
      (fun q hq r a hr => by rw [hid]; exact ho q (List.mem_cons_of_mem _ hq) r a hr)
      (C12.table_policy_inv s o i hw ho1 hp)
      (untrusted_admissible_step s o i hw hp hu)

theorem untrusted_admissible_from_init (cfg : Svc.Cfg) (r : Rec) (l : List (Oracle × Svc.Input))
    (ho : ∀ p ∈ l, ∀ r' a, p.1.newLocal = some (r', a) → r'.id = r.id) :
    UOk ((Svc.init cfg r).run l).1 :=
  untrusted_admissible_run l (Svc.init cfg r) ⟨init_tinv _ _, rfl⟩ ho (C12.table_policy_init cfg r)
    (fun q hq => by cases hq)

/-- In a state with admissible untrusted records and the table policy, a candidate whose record
`find_enr` finds is sent its request - the failure-without-request branch of the lookup glue is taken
only for a candidate whose record is found nowhere. -/
theorem found_candidate_is_asked (s : Svc) (q : Query) (peer : Nat) (r : Rec)
    (hq : s.query = some q) (hp : TablePolicy s) (hu : UOk s)
    (hf : (s.findEnr peer).2 = some r) :
    ∃ id a body, (s.sendRpcQuery peer).2 = [.request id r.id a body] := by
  refine contactable_candidate_is_asked s q peer r hq hf ?_
  -- the record comes from the table (policy) or from the untrusted records
  have hs : Step (RecOk s.cfg.ipMode s.localRec.id) ({} : Oracle) s (s.findEnr peer).1 := findEnr_step s peer
  rw [hs.cfg]
  have hu1 : UOk (s.findEnr peer).1 := hs.untr (fun _ _ h => ⟨h.1, h.2.1⟩) hp hu
  have hv1 := hs.vals hp
  unfold findEnr at hf hu1 hv1
  have hlk := entry_lookup s peer
  have hcfg : (s.entry peer).1.cfg = s.cfg := rfl
  generalize s.entry peer = x at hf hu1 hv1 hlk hcfg
  obtain ⟨s1, l⟩ := x
  simp only at hlk hcfg
  cases l with
  | present v st =>
    simp only at hf hv1
    have : r = v := by simpa using hf.symm
    subst this
    exact (hv1.of_hasPair (lookup_present hlk.symm)).1
  | pending v st =>
    simp only at hf hu1
    cases hq1 : s1.query with
    | none => rw [hq1] at hf; simp at hf
    | some q1 =>
      rw [hq1] at hf hu1
      simp only at hf hu1
      have hm := List.mem_of_find?_eq_some hf
      have := hu1 q1 hq1 r hm
      rw [hcfg] at this
      exact this.1
  | absent =>
    simp only at hf hu1
    cases hq1 : s1.query with
    | none => rw [hq1] at hf; simp at hf
    | some q1 =>
      rw [hq1] at hf hu1
      simp only at hf hu1
      have hm := List.mem_of_find?_eq_some hf
      have := hu1 q1 hq1 r hm
      rw [hcfg] at this
      exact this.1
  | self =>
    simp only at hf hu1
    cases hq1 : s1.query with
    | none => rw [hq1] at hf; simp at hf
    | some q1 =>
      rw [hq1] at hf hu1
      simp only at hf hu1
      have hm := List.mem_of_find?_eq_some hf
      have := hu1 q1 hq1 r hm
      rw [hcfg] at this
      exact this.1

/-! ## With lookups running (the composition `Model/Lookup.lean`) -/

open Discv5.Lookup in
/-- The same with the lookup glue in the loop: a composed step (the service step, the requests the
lookup then asks for, the end of the lookup) keeps the untrusted records admissible - it is a run of the
service model (`service_step_is_a_run`, `lookup_start_is_a_run`). -/
theorem lookups_keep_untrusted_admissible (c : LCfg) (now : Nat) (k : LSvc) (i : LInput)
    (hw : Wf k.svc) (hp : TablePolicy k.svc) (hu : UOk k.svc)
    (ho : ∀ o inp, i = .svc o inp → OracleSane k.svc o) :
    UOk (k.step c now i).1.svc := by
  have hsane : ∀ (s : Svc) (l : List Svc.Input) (p : Oracle × Svc.Input),
      p ∈ (l.map fun i => (({} : Oracle), i)) → OracleSane s p.1 := by
    intro s l p hp'
    obtain ⟨i', _, rfl⟩ := List.mem_map.mp hp'
    intro r a h; cases h
  cases i with
  | svc o inp =>
    obtain ⟨l, _, he⟩ := C09Service.service_step_is_a_run c now k o inp
    rw [he]
    apply untrusted_admissible_run _ k.svc hw _ hp hu
    intro p hp'
    cases hp' with
    | head => exact ho o inp rfl
    | tail _ h => exact hsane k.svc l p h
  | lookup target n =>
    obtain ⟨l, _, he⟩ := C09Service.lookup_start_is_a_run c now k target n
    rw [he]
    exact untrusted_admissible_run _ k.svc hw (fun p h => hsane k.svc l p h) hp hu

/-! ## Non-vacuity -/

def exRec (id : Nat) : Rec :=
  { id := id, seq := 1, udp4 := some (id + 9000), udp6 := none, udp6Mapped := false,
    size := 100, passesFilter := true }

def exS : Svc := Svc.init { ipMode := .ip4, maxNodesResponse := 16, kb := kbCfg 16 60000 } (exRec 1)

/-- Node 9 names node 5 (an address at `0.0.0.0`-like low numbers is as good as any): the record is kept;
a record without an IPv4 socket is not; the responder's own record is not. -/
example : (discoveredLoop exS 9 [exRec 5, { exRec 6 with udp4 := none }, exRec 9] [] []).2.1 = [exRec 5] := by
  decide +kernel

/-- ... and with a lookup running that knows the record, the request goes out. -/
example :
    (({ exS with query := some { qid := 0, target := 3, untrusted := [exRec 5] } } : Svc).sendRpcQuery 5).2.length = 1 := by
  decide +kernel

end Discv5.Props.C10Candidates

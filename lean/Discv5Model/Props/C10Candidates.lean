/-
C10, completeness clause, at the seam between admission and contact: a lookup that returns fewer nodes
than asked for has contacted every candidate it learned of (`Props/C10.lean` for the lookup state
machine) - *provided* the service, asked to contact a candidate, really sends the request.  The service
refuses when `NodeContact::try_from_enr` fails, and reports that to the lookup as a failure of the
peer.  The two sides decide with the same predicate, and that is what is proved here:

* `kept_records_are_admissible`: every record `discovered` hands to a lookup is contactable in this
  node's IP mode, passes the table filter, and is neither the local node nor the responder;
* `discovered_adds_admissible_candidates`: so is everything `discovered` adds to the lookup's untrusted
  records (the records `send_rpc_query` later finds);
* `contactable_candidate_is_asked`: `send_rpc_query` for a candidate whose record is found and is
  contactable in this node's IP mode emits exactly one FINDNODE request to it - the "non contactable"
  branch is dead for every record `discovered` kept.

(A change that makes the contact side stricter than the admission side - refusing, say, addresses that
admission lets in - breaks the second theorem's counterpart in the code; the correspondence run sees it as
a predicted request that is never sent, and the monitor
`lookup-short-although-a-node-it-learned-of-was-never-asked` gives the failing history.)
-/
import Discv5Model.Proofs.ServiceDiscovered

namespace Discv5.Props.C10Candidates

open Discv5.KB
open Discv5.Svc
open Discv5.Svc.Svc

/-- What one pass of the `retain` closure keeps is admissible. -/
theorem discoveredOne_keep (s : Svc) (source : Nat) (r : Rec)
    (h : (s.discoveredOne source r).2.1 = true) :
    contactable s.cfg.ipMode r = true ∧ r.passesFilter = true ∧ r.id ≠ s.localRec.id ∧ r.id ≠ source := by
  unfold discoveredOne at h
  by_cases hl : (r.id == s.localRec.id) = true
  · simp [hl] at h
  · by_cases hok : (r.passesFilter && contactable s.cfg.ipMode r) = true
    · have hp : r.passesFilter = true ∧ contactable s.cfg.ipMode r = true := by
        simpa [Bool.and_eq_true] using hok
      have hne : r.id ≠ s.localRec.id := by simpa using hl
      refine ⟨hp.2, hp.1, hne, ?_⟩
      have hsrc : (source != r.id) = true := by
        simp only [hl, hok, if_true, Bool.false_eq_true, if_false] at h
        generalize s.entry r.id = e at h
        obtain ⟨s1, l⟩ := e
        cases l <;> simp only [] at h <;> (repeat' split at h) <;> first | exact h | (simp at h)
      intro heq
      simp [heq] at hsrc
    · simp [hl, hok] at h

/-- Every record `discovered` keeps (hands to the lookup the request belonged to) is contactable in this
node's IP mode, passes the table filter, and is neither the local node nor the responder itself. -/
theorem kept_records_are_admissible (source : Nat) :
    ∀ (recs : List Rec) (s : Svc) (kept : List Rec) (outs : List Out),
      ∀ r ∈ (discoveredLoop s source recs kept outs).2.1,
        r ∈ kept ∨ (contactable s.cfg.ipMode r = true ∧ r.passesFilter = true ∧
          r.id ≠ s.localRec.id ∧ r.id ≠ source)
  | [], _, kept, _, r, hr => Or.inl (by simpa [discoveredLoop] using hr)
  | x :: rs, s, kept, outs, r, hr => by
    rw [discoveredLoop_cons] at hr
    have ih := kept_records_are_admissible source rs _ _ _ r hr
    rw [discoveredOne_cfg, discoveredOne_localId] at ih
    rcases ih with hk | hadm
    · by_cases hkeep : (s.discoveredOne source x).2.1 = true
      · rw [if_pos hkeep] at hk
        rcases List.mem_append.mp hk with h | h
        · exact Or.inl h
        · have : r = x := by simpa using h
          subst this
          exact Or.inr (discoveredOne_keep s source r hkeep)
      · rw [if_neg hkeep] at hk
        exact Or.inl hk
    · exact Or.inr hadm

/-- The `untrusted_enrs` update of `discovered` adds nothing but kept records. -/
theorem foldl_untrusted_mem (kept : List Rec) :
    ∀ (u : List Rec), ∀ r ∈ kept.foldl
        (fun (u : List Rec) r => if u.any (fun e => e.id == r.id) then u else u ++ [r]) u,
      r ∈ u ∨ r ∈ kept := by
  induction kept with
  | nil => intro u r hr; exact Or.inl hr
  | cons x xs ih =>
    intro u r hr
    rw [List.foldl_cons] at hr
    rcases ih _ r hr with h | h
    · split at h
      · exact Or.inl h
      · rcases List.mem_append.mp h with h | h
        · exact Or.inl h
        · exact Or.inr (by simp at h; simp [h])
    · exact Or.inr (List.mem_cons_of_mem _ h)

/-- Whatever `discovered` adds to the untrusted records of the lookup a request belonged to - the records
the lookup will later be asked to contact - is contactable in this node's IP mode, passes the table filter,
and is neither the local node nor the responder. -/
theorem discovered_adds_admissible_candidates (s : Svc) (source : Nat) (recs : List Rec) (query : Option Nat)
    (q' : Query) (hq' : (s.discovered source recs query).1.query = some q') :
    ∀ r ∈ q'.untrusted,
      (∃ q, (discoveredLoop s source recs [] []).1.query = some q ∧ r ∈ q.untrusted) ∨
      (contactable s.cfg.ipMode r = true ∧ r.passesFilter = true ∧ r.id ≠ s.localRec.id ∧ r.id ≠ source) := by
  intro r hr
  have hk := kept_records_are_admissible source recs s [] []
  unfold discovered at hq'
  generalize discoveredLoop s source recs [] [] = x at hq' hk ⊢
  obtain ⟨s1, kept, outs⟩ := x
  simp only [] at hq' hk ⊢
  split at hq'
  · rename_i qid q hqs
    split at hq'
    · simp only [Option.some.injEq] at hq'
      subst hq'
      simp only [] at hr
      rcases foldl_untrusted_mem kept q.untrusted r hr with h | h
      · exact Or.inl ⟨q, by assumption, h⟩
      · rcases hk r h with h0 | h0
        · simp at h0
        · exact Or.inr h0
    · exact Or.inl ⟨q', hq', hr⟩
  · exact Or.inl ⟨q', hq', hr⟩

/-- `send_rpc_query` for a candidate whose record is found (routing table or the lookup's untrusted
records) and is contactable in this node's IP mode sends it exactly one FINDNODE request: the lookup is
never told "failed" about a peer nothing was sent to. -/
theorem contactable_candidate_is_asked (s : Svc) (q : Query) (peer : Nat) (r : Rec)
    (hq : s.query = some q) (hf : (s.findEnr peer).2 = some r)
    (hc : contactable (s.findEnr peer).1.cfg.ipMode r = true) :
    ∃ id a body, (s.sendRpcQuery peer).2 = [.request id r.id a body] := by
  unfold sendRpcQuery
  rw [hq]
  simp only []
  generalize hfe : s.findEnr peer = fe at hf hc
  obtain ⟨s1, known⟩ := fe
  simp only [] at hf hc
  subst hf
  simp only []
  unfold contactable at hc
  cases hca : contactableAddr s1.cfg.ipMode r with
  | none => rw [hca] at hc; simp at hc
  | some a =>
    simp only [sendRpcRequest]
    exact ⟨_, _, _, rfl⟩

/-! ## Non-vacuity -/

def exRec (id : Nat) : Rec :=
  { id := id, seq := 1, udp4 := some (id + 9000), udp6 := none, udp6Mapped := false,
    size := 100, passesFilter := true }

def exS : Svc := Svc.init { ipMode := .ip4, maxNodesResponse := 16, kb := kbCfg 16 60000 } (exRec 1)

/-- Node 9 names node 5 (an address at `0.0.0.0`-like low numbers is as good as any): the record is kept;
a record without an IPv4 socket is not; the responder's own record is not. -/
example : (discoveredLoop exS 9 [exRec 5, { exRec 6 with udp4 := none }, exRec 9] [] []).2.1 = [exRec 5] := by
  decide +kernel

/-- ... and with a lookup running that knows the record, the request goes out. -/
example :
    (({ exS with query := some { qid := 0, target := 3, untrusted := [exRec 5] } } : Svc).sendRpcQuery 5).2.length = 1 := by
  decide +kernel

end Discv5.Props.C10Candidates

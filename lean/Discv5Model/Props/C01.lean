/- C01 — Handshake proves node identity; C03 — handshakes answer only fresh, outstanding
challenges (handler model, symbolic cryptography). -/
import Discv5Model.Proofs.HandlerIdentity
namespace Discv5.H
open HI
set_option linter.unusedSimpArgs false

/-- What an accepted handshake proves (pure function): the chosen record belongs to the claimed
id, the signature was made by that id's key over exactly this challenge, this ephemeral key and
this node's id, and the session keys are the ones derived from them. -/
theorem establish_binds_identity (c : Cfg) (remoteId : Id) (ch : Challenge) (sig : Sig) (eph : Nat)
    (record : Option Rec) (sess : Session) (r : Rec)
    (h : establishFromChallenge c remoteId ch sig eph record = some (some (sess, r))) :
    r.id = remoteId ∧ sig.signer = remoteId ∧ sig.cd = ch.cd ∧ sig.eph = eph ∧ sig.dst = c.localId ∧
    sess.keys.dec = { eph := eph, cd := ch.cd, ini := remoteId, rcp := c.localId, toRcp := true } ∧
    sess.keys.enc = { eph := eph, cd := ch.cd, ini := remoteId, rcp := c.localId, toRcp := false } ∧
    (r = record.getD r ∨ ch.remoteRec = some r) := by
  obtain ⟨h1, h2, h3, h4, h5, h6, h7⟩ := establish_ok c remoteId ch sig eph record sess r h
  subst h6
  exact ⟨h1, h2, h3, h4, h5, rfl, rfl, h7⟩

/-- Every session held for a node id `x` is justified: this node dialled `x` itself, or a
handshake carrying a signature by `x`'s key, addressed to this node, was received. -/
theorem session_needs_proof (c : Cfg) (evs : List Ev) (hw : ContactsWF evs) :
    ∀ e ∈ (run c evs).sessions,
      e.1.id ∈ dialled evs ∨
      ∃ p ∈ handshakeSigs evs, p.2.signer = e.1.id ∧ p.2.dst = c.localId ∧ p.1 = e.1 :=
  fun e he => (invA c evs hw).1.sess e he

/-- No forgery: if no received handshake carries a signature made with `x`'s key and this node
never dialled `x`, then nothing is ever attributed to `x` — no session, no established /
unverifiable report, no request or response — whatever records, sequence numbers or source
addresses the datagrams present. -/
theorem no_forgery (c : Cfg) (evs : List Ev) (x : Id) (hw : ContactsWF evs)
    (hs : ∀ p ∈ handshakeSigs evs, p.2.signer ≠ x) (hd : x ∉ dialled evs) :
    (∀ e ∈ (run c evs).sessions, e.1.id ≠ x) ∧ ∀ o ∈ outputs c evs, attributesTo x o = false := by
  have bad : ∀ na : NA, Good c evs na → na.id ≠ x := by
    intro na hg hx
    rcases hg with h | ⟨p, hp, h1, -, -⟩
    · exact hd (hx ▸ h)
    · exact hs p hp (h1.trans hx)
  refine ⟨fun e he => bad _ ((invA c evs hw).1.sess e he), ?_⟩
  intro o ho
  cases hb : attributesTo x o with
  | false => rfl
  | true =>
    obtain ⟨na, hn, hid⟩ := (invA c evs hw).2 o ho x hb
    exact absurd hid (bad na hn)

/- ORIGINAL STATEMENT (false for ill-formed, unreachable states `s`; see `initiator_keys_bound_cex`):

theorem initiator_keys_bound (c : Cfg) (s : HState) (src : Addr) (nonce cd enrSeq : Nat)
    (e : NA × Session × Nat) (he : e ∈ (step c s (.dgram src (.whoareyou nonce cd enrSeq))).1.sessions)
    (hnew : e ∉ s.sessions) (hk : e.2.1.keys.enc.ini = c.localId) :
    e.2.1.keys.enc.rcp = e.1.id ∧ e.2.1.keys.dec.rcp = e.1.id ∧ e.2.1.keys.enc.cd = cd

`hnew` compares whole cache entries (address, session, time stamp).  An entry whose *keys* are old
but whose time stamp / message counter changed during the step also counts as "new" under that
reading.  In a state whose queue files a request for node 3 under node 2's address (impossible in
any run: `send_request` files under the contact's own address) answering node 2's WHOAREYOU
releases that request, which refreshes node 3's old session; that entry then violates the
conclusion.  The corrected statement takes "new" to mean "keys not already held for that address". -/

/-- Initiator side: every session whose keys were not already held for that node address before
this node answered a WHOAREYOU (i.e. the session created or re-keyed by that answer) has keys
derived from an ECDH with `na.id`'s static key (only its holder can use them) and from exactly the
challenge data of this WHOAREYOU. -/
theorem initiator_keys_bound (c : Cfg) (s : HState) (src : Addr) (nonce cd enrSeq : Nat)
    (e : NA × Session × Nat) (he : e ∈ (step c s (.dgram src (.whoareyou nonce cd enrSeq))).1.sessions)
    (hnew : ∀ e' ∈ s.sessions, e'.1 = e.1 → e'.2.1.keys ≠ e.2.1.keys) :
    e.2.1.keys.enc.ini = c.localId ∧ e.2.1.keys.dec.ini = c.localId ∧
    e.2.1.keys.enc.rcp = e.1.id ∧ e.2.1.keys.dec.rcp = e.1.id ∧ e.2.1.keys.enc.cd = cd ∧
    e.2.1.keys.dec.cd = cd := by
  rcases initiator_aux c s src nonce cd enrSeq e he with ⟨e', he', h1, h2⟩ | ⟨eph, h⟩
  · exact absurd h2 (hnew e' he' h1)
  · rw [h]; exact ⟨rfl, rfl, rfl, rfl, rfl, rfl⟩

/-! ### C03 -/

/-- A handshake from a node address for which no challenge is outstanding changes nothing. -/
theorem handshake_needs_challenge (c : Cfg) (s : HState) (src : Addr) (srcId nonce : Nat) (sig : Sig)
    (eph : Nat) (record : Option Rec) (ct : Ct)
    (h : s.challenges.any (·.1 == { id := srcId, addr := src }) = false) :
    step c s (.dgram src (.handshake srcId nonce sig eph record ct)) = (s, []) :=
  hs_needs_challenge_aux c s src srcId nonce sig eph record ct h

/-- The id-nonces (challenge data) of all WHOAREYOU packets this node ever sends are pairwise
distinct. -/
theorem issued_challenges_distinct (c : Cfg) (evs : List Ev) : (sentCds (outputs c evs)).Nodup :=
  (invD c evs).2.1

/-- The session cache never holds two entries for the same node address (used below). -/
theorem session_keys_nodup (c : Cfg) (evs : List Ev) : ((run c evs).sessions.map (·.1)).Nodup :=
  invE c evs

/- ORIGINAL STATEMENT (false for states whose session cache holds two entries for one node address,
which no run produces — `session_keys_nodup`; see `stale_handshake_rejected_cex`):

theorem stale_handshake_rejected (c : Cfg) (s : HState) (src : Addr) (srcId nonce : Nat) (sig : Sig)
    (eph : Nat) (record : Option Rec) (ct : Ct)
    (h : ∀ e ∈ s.challenges, e.1 = { id := srcId, addr := src } → e.2.1.cd ≠ sig.cd) :
    (step c s (.dgram src (.handshake srcId nonce sig eph record ct))).1.sessions.map (fun e => (e.1, e.2.1.keys)) =
      (s.sessions.filter (fun e => (step c s (.dgram src (.handshake srcId nonce sig eph record ct))).1.sessions.any (·.1 == e.1))).map
        (fun e => (e.1, e.2.1.keys))

The right-hand side selects the surviving entries *by node address*; with a duplicated address of
which only the older entry expires during the step it selects both.  Corrected by the hypothesis
that addresses in the cache are distinct (`hnd`), and restated for reachable states below. -/

/-- A handshake whose signature is not over the currently outstanding challenge for that node
address (a replay of an earlier handshake, or one signed over an expired / foreign challenge)
never creates or re-keys a session: the (address, keys) list afterwards is the old one restricted
to the addresses that survive. -/
theorem stale_handshake_rejected (c : Cfg) (s : HState) (src : Addr) (srcId nonce : Nat) (sig : Sig)
    (eph : Nat) (record : Option Rec) (ct : Ct)
    (hnd : (s.sessions.map (·.1)).Nodup)
    (h : ∀ e ∈ s.challenges, e.1 = { id := srcId, addr := src } → e.2.1.cd ≠ sig.cd) :
    (step c s (.dgram src (.handshake srcId nonce sig eph record ct))).1.sessions.map (fun e => (e.1, e.2.1.keys)) =
      (s.sessions.filter (fun e => (step c s (.dgram src (.handshake srcId nonce sig eph record ct))).1.sessions.any (·.1 == e.1))).map
        (fun e => (e.1, e.2.1.keys)) :=
  stale_list (fun e => (e.1, e.2.1.keys)) s.sessions _ { id := srcId, addr := src } c.sessionTtl s.rt hnd
    (stale_aux c s { id := srcId, addr := src } nonce sig eph record ct h)

/-- The same for every state reached by a history (the original statement, on reachable states). -/
theorem stale_handshake_rejected_run (c : Cfg) (evs : List Ev) (src : Addr) (srcId nonce : Nat) (sig : Sig)
    (eph : Nat) (record : Option Rec) (ct : Ct)
    (h : ∀ e ∈ (run c evs).challenges, e.1 = { id := srcId, addr := src } → e.2.1.cd ≠ sig.cd) :
    (step c (run c evs) (.dgram src (.handshake srcId nonce sig eph record ct))).1.sessions.map (fun e => (e.1, e.2.1.keys)) =
      ((run c evs).sessions.filter (fun e => (step c (run c evs) (.dgram src (.handshake srcId nonce sig eph record ct))).1.sessions.any (·.1 == e.1))).map
        (fun e => (e.1, e.2.1.keys)) :=
  stale_handshake_rejected c (run c evs) src srcId nonce sig eph record ct (session_keys_nodup c evs) h

/-- Acceptance consumes the challenge: after a handshake was processed, either it was rejected for
its signature (the challenge stays, nothing else changed) or no challenge for that node address
remains. -/
theorem challenge_consumed (c : Cfg) (s : HState) (src : Addr) (srcId nonce : Nat) (sig : Sig)
    (eph : Nat) (record : Option Rec) (ct : Ct) :
    let s' := (step c s (.dgram src (.handshake srcId nonce sig eph record ct))).1
    s'.challenges.any (·.1 == { id := srcId, addr := src }) = false ∨
      (s'.sessions = s.sessions ∧ s'.active = s.active) :=
  challenge_consumed_aux c s { id := srcId, addr := src } nonce sig eph record ct

/-- A WHOAREYOU is acted on only if it echoes the nonce of a request in flight to the address it
came from: otherwise no output is produced and sessions, challenges and queued requests are
unchanged. -/
theorem whoareyou_needs_request (c : Cfg) (s : HState) (src : Addr) (nonce cd enrSeq : Nat)
    (h : ∀ call ∈ s.active, ¬ (call.pkt.nonce = nonce ∧ call.contact.na.addr = src)) :
    (step c s (.dgram src (.whoareyou nonce cd enrSeq))).2 = [] ∧
    (step c s (.dgram src (.whoareyou nonce cd enrSeq))).1.sessions = s.sessions ∧
    (step c s (.dgram src (.whoareyou nonce cd enrSeq))).1.pending = s.pending :=
  wru_needs_request_aux c s src nonce cd enrSeq h

/-- A request is answered with at most one handshake: a second WHOAREYOU for a request whose
handshake was already sent produces no datagram at all. -/
theorem one_handshake_per_request (c : Cfg) (s : HState) (src : Addr) (nonce cd enrSeq : Nat)
    (call : Call) (hc : s.active.find? (·.pkt.nonce == nonce) = some call)
    (ha : call.contact.na.addr = src) (hs : call.hsSent = true) :
    ∀ o ∈ (step c s (.dgram src (.whoareyou nonce cd enrSeq))).2, ∀ na p, o ≠ .send na p :=
  one_hs_per_request_aux c s src nonce cd enrSeq call hc ha hs

/-! ### non-vacuity and counterexamples -/

namespace C01Ex

def cfg : Cfg where
  localId := 1
  localSeq := 1
  localRec := { id := 1, seq := 1, udp4 := none, udp6 := none }
  requestRetries := 1
  requestTimeout := 1000
  sessionTtl := 100000
  sessionCap := 100
  listen := []
  findnode0 := 0

def na2 : NA := { id := 2, addr := { v6 := false, n := 2 } }
def na3 : NA := { id := 3, addr := { v6 := false, n := 3 } }

/-- The challenge data of the first WHOAREYOU node 1 sends. -/
def cd1 : Nat := 1000001

/-- Handshake answering that challenge, claiming to come from node 2, signed by `signer`, carrying
the record of `recId`; the sealed message is a request under the keys a genuine node 2 derives. -/
def hsFrom (signer recId : Id) : Ev :=
  .dgram na2.addr (.handshake 2 6 { signer := signer, cd := cd1, eph := 77, dst := 1 } 77
    (some { id := recId, seq := 1, udp4 := none, udp6 := none })
    (.enc { eph := 77, cd := cd1, ini := 2, rcp := 1, toRcp := true } 6 0 (.request 9 0) true))

/-- (a) node 1 challenges node 2's address; the handshake signed by node 2 arrives. -/
def honest : List Ev := [.appWru na2 5 none, hsFrom 2 2]
/-- (b) same, but signed by node 9 and carrying node 9's record, while claiming source id 2. -/
def forged : List Ev := [.appWru na2 5 none, hsFrom 9 9]


/-- (a) the honest handshake creates a session for node 2, which was never dialled: the right
disjunct of `session_needs_proof` is the one that holds, and the session is reported. -/
example : (run cfg honest).sessions.any (·.1 == na2) = true ∧ 2 ∉ dialled honest ∧
    (∃ p ∈ handshakeSigs honest, p.2.signer = 2 ∧ p.2.dst = cfg.localId ∧ p.1 = na2) ∧
    (outputs cfg honest).any (attributesTo 2) = true := by decide +kernel

/-- (b) the forgery attempt: hypotheses of `no_forgery` hold for `x = 2` … -/
example : ContactsWF forged ∧ (∀ p ∈ handshakeSigs forged, p.2.signer ≠ 2) ∧ 2 ∉ dialled forged :=
  ⟨by simp [forged, hsFrom, ContactsWF], by decide +kernel, by decide +kernel⟩

/-- … and indeed (computed, not via the theorem) there is no session for node 2 and no output
attributed to node 2, although the datagram claimed source id 2 (the challenge is consumed). -/
example : (run cfg forged).sessions = [] ∧ (outputs cfg forged).all (fun o => !attributesTo 2 o) = true ∧
    (run cfg forged).challenges = [] := by decide +kernel

/-- `no_forgery` applied to the forged history. -/
example : (∀ e ∈ (run cfg forged).sessions, e.1.id ≠ 2) ∧ ∀ o ∈ outputs cfg forged, attributesTo 2 o = false :=
  no_forgery cfg forged 2 (by simp [forged, hsFrom, ContactsWF]) (by decide +kernel) (by decide +kernel)

/-! Counterexamples to the two original statements that were corrected above (both need a state
that no history produces). -/

def weird : Keys where
  enc := { eph := 0, cd := 0, ini := 1, rcp := 99, toRcp := true }
  dec := { eph := 0, cd := 0, ini := 1, rcp := 99, toRcp := false }

def call2 : Call where
  contact := { na := na2, record := some { id := 2, seq := 1, udp4 := none, udp6 := none } }
  pkt := .message 1 7 .garbage
  rid := 1
  internal := false
  body := 0
  initiating := true

/-- Ill-formed state: a request for node 3 is queued under node 2's address. -/
def sBadQueue : HState where
  sessions := [(na3, { keys := weird }, 0)]
  active := [call2]
  pending := [(na2, [{ contact := { na := na3, record := none }, rid := 5, internal := false, body := 0 }])]
  rt := 5

def eBad : NA × Session × Nat := (na3, { keys := weird, counter := 1 }, 5)

/-- `initiator_keys_bound_cex`: the original statement of `initiator_keys_bound` fails here. -/
example : eBad ∈ (step cfg sBadQueue (.dgram na2.addr (.whoareyou 7 42 0))).1.sessions ∧
    eBad ∉ sBadQueue.sessions ∧ eBad.2.1.keys.enc.ini = cfg.localId ∧
    eBad.2.1.keys.enc.rcp ≠ eBad.1.id := by decide +kernel

/-- Ill-formed state: two cache entries for node 3's address, the older one expired. -/
def sDup : HState where
  sessions := [(na3, { keys := weird }, 0), (na3, { keys := weird, counter := 7 }, 100)]
  challenges := [(na2, { cd := 1, remoteRec := none }, 0, 0)]
  rt := 50

def staleHs : Ev :=
  .dgram na2.addr (.handshake 2 6 { signer := 2, cd := 2, eph := 77, dst := 1 } 77 none .garbage)

/-- `stale_handshake_rejected_cex`: the original statement of `stale_handshake_rejected` (without
`hnd`) fails here: one entry remains, the address filter selects two. -/
example : (∀ e ∈ sDup.challenges, e.1 = na2 → e.2.1.cd ≠ 2) ∧
    (step { cfg with sessionTtl := 10 } sDup staleHs).1.sessions.map (fun e => (e.1, e.2.1.keys)) ≠
      (sDup.sessions.filter (fun e =>
        (step { cfg with sessionTtl := 10 } sDup staleHs).1.sessions.any (·.1 == e.1))).map
        (fun e => (e.1, e.2.1.keys)) := by decide +kernel

end C01Ex

end Discv5.H

/-
C11 (ban attribution) — a ban names the party that sent the offending NODES answer, nothing else.

`Out.ban p a` is `PERMIT_BAN_LIST.write().ban(node_address, _)` of `handle_rpc_response`.  The
theorems say who can be banned by a step of `Model/Service.lean` (`ban_names_sender`), by a whole run
(`ban_has_cause`, `ban_has_cause_at`), and exactly when a NODES response bans (`ban_iff`,
`ban_flag_iff`).  Helper lemmas ("this handler emits no ban"): `Proofs/ServiceBan.lean`.
-/
import Discv5Model.Model.Service
import Discv5Model.Proofs.ServiceBan
import Discv5Model.Props.C11

namespace Discv5.Props.C11Ban
open Discv5.KB Discv5.Svc Discv5.Props.C11

/-- The ban condition of `handle_rpc_response` for a NODES packet `recs` that claims to answer
request `id` and arrives from node `p` at address `a`:

* the request `id` is active (`req` is the entry `active_requests.remove(&id)` finds),
* it was sent to exactly that node at exactly that address (otherwise the response is dropped
  before it is looked at),
* it is a FINDNODE request (for distances `ds`) — a NODES packet answering a PING or a TALKREQ is
  dropped by `match_request`,
* it carries no user-level callback (the records of an API `find_node` request are handed to the
  caller unfiltered, nobody is banned),
* and the distance filter `acceptNodes` over the requested distances raises the ban flag. -/
def BanCond (s : Svc) (p : Nat) (a : Addr) (id : Nat) (recs : List Rec) : Prop :=
  ∃ (req : ActiveReq) (ds : List Nat),
    s.active.find? (fun r => r.id == id) = some req ∧ req ∈ s.active ∧ req.id = id ∧
    req.peer = p ∧ req.addr = a ∧ req.body = .findNode ds ∧ req.callback = false ∧
    (acceptNodes p ds recs).2 = true

theorem banDecision_iff (s : Svc) (p : Nat) (a : Addr) (id : Nat) (recs : List Rec) :
    banDecision s p a id recs = true ↔ BanCond s p a id recs := by
  unfold banDecision BanCond
  cases h : activeReq s id with
  | none =>
    unfold activeReq at h
    simp [h]
  | some req =>
    obtain ⟨hm, hid⟩ := activeReq_mem h
    unfold activeReq at h
    simp only [h, Option.some.injEq]
    constructor
    · intro hd
      cases hb : req.body with
      | findNode ds =>
        rw [hb] at hd
        simp only [Bool.and_eq_true, beq_iff_eq, Bool.not_eq_true'] at hd
        exact ⟨req, ds, rfl, hm, hid, hd.1.1.1, hd.1.1.2, hb, hd.1.2, hd.2⟩
      | ping e => rw [hb] at hd; cases hd
      | talk x y => rw [hb] at hd; cases hd
    · rintro ⟨req', ds, he, _, _, hp, ha, hb, hc, hacc⟩
      subst he
      rw [hb]
      simp [hp, ha, hc, hacc]

/-- **ban_iff (theorem C, when exactly).**  A NODES response from node `peer` at address `addr` for
request `id` puts `Out.ban p a` among the outputs if and only if `p` and `a` are that very sender and
the ban condition holds: the request `id` is active, was sent to `peer` at `addr`, is a FINDNODE
request without user-level callback, and the distance filter flags the packet. -/
theorem ban_iff (s : Svc) (o : Oracle) (peer : Nat) (addr : Addr) (id total : Nat) (recs : List Rec)
    (p : Nat) (a : Addr) :
    Out.ban p a ∈ (s.handleResponse o peer addr id (.nodes total recs)).2 ↔
      p = peer ∧ a = addr ∧ BanCond s peer addr id recs := by
  rw [← mem_bans, handleResponse_nodes_bans, ← banDecision_iff]
  cases banDecision s peer addr id recs
  · simp
  · simp only [if_true, List.mem_singleton, Prod.mk.injEq, and_true]

/-- The ban is emitted exactly once, and it is the only ban of the step. -/
theorem ban_once (s : Svc) (o : Oracle) (peer : Nat) (addr : Addr) (id total : Nat) (recs : List Rec) :
    bans (s.handleResponse o peer addr id (.nodes total recs)).2 = [(peer, addr)] ∨
    bans (s.handleResponse o peer addr id (.nodes total recs)).2 = [] := by
  rw [handleResponse_nodes_bans]
  cases banDecision s peer addr id recs
  · right; rfl
  · left; rfl

/-- The ban flag of the distance filter is the disjunction of the filter dropping something and the
"more than one record for an ENR request" rule. -/
theorem ban_flag_eq (peer : Nat) (ds : List Nat) (recs : List Rec) :
    (acceptNodes peer ds recs).2 =
      (decide (ds = [0] ∧ 1 < recs.length) ||
        decide ((acceptNodes peer ds recs).1.length < recs.length)) := by
  unfold acceptNodes
  by_cases h : (ds.length == 1 && ds.head? == some 0) = true
  · rw [if_pos h]
    simp only [Bool.and_eq_true, beq_iff_eq] at h
    obtain ⟨hl, hh⟩ := h
    have hreq : ds = [0] := by
      match ds, hl, hh with
      | [x], _, hh => simp at hh; simp [hh]
    simp [hreq]
  · rw [if_neg h]
    have hne : ds ≠ [0] := by
      intro he; rw [he] at h; simp at h
    simp [hne]

/-- **ban_flag_iff (theorem C, in words of the property).**  The distance filter flags a packet iff
some record of it lies at a log2 distance from the responder that was not requested (the
responder's own record counting as distance 0), or the request was an ENR update (`[0]`) and the
packet carries more than one record. -/
theorem ban_flag_iff (peer : Nat) (ds : List Nat) (recs : List Rec) :
    (acceptNodes peer ds recs).2 = true ↔
      (∃ r ∈ recs, distOf peer r ∉ ds) ∨ (ds = [0] ∧ 1 < recs.length) := by
  rw [ban_flag_eq, accept_exact, Bool.or_eq_true, decide_eq_true_eq, decide_eq_true_eq,
    List.length_filter_lt_length_iff_exists, or_comm]
  simp only [List.contains_iff_mem]

/-- `ban_iff` with the ban flag spelled out. -/
theorem ban_iff_distance (s : Svc) (o : Oracle) (peer : Nat) (addr : Addr) (id total : Nat)
    (recs : List Rec) (p : Nat) (a : Addr) :
    Out.ban p a ∈ (s.handleResponse o peer addr id (.nodes total recs)).2 ↔
      p = peer ∧ a = addr ∧
      ∃ (req : ActiveReq) (ds : List Nat),
        s.active.find? (fun r => r.id == id) = some req ∧ req.peer = peer ∧ req.addr = addr ∧
        req.body = .findNode ds ∧ req.callback = false ∧
        ((∃ r ∈ recs, distOf peer r ∉ ds) ∨ (ds = [0] ∧ 1 < recs.length)) := by
  rw [ban_iff]
  unfold BanCond
  constructor
  · rintro ⟨hp, ha, req, ds, hf, _, _, h1, h2, h3, h4, h5⟩
    exact ⟨hp, ha, req, ds, hf, h1, h2, h3, h4, (ban_flag_iff ..).1 h5⟩
  · rintro ⟨hp, ha, req, ds, hf, h1, h2, h3, h4, h5⟩
    have hf' : activeReq s id = some req := hf
    exact ⟨hp, ha, req, ds, hf, (activeReq_mem hf').1, (activeReq_mem hf').2, h1, h2, h3, h4,
      (ban_flag_iff ..).2 h5⟩

/-- **ban_names_sender (theorem A).**  Whatever the state, the oracle and the input: if a step bans
node `p` at address `a`, then the input is a NODES response that arrived from exactly that node at
exactly that address, and it answers an active FINDNODE request (without user-level callback) that
this node had sent to exactly that node at exactly that address, and the packet fails the distance
filter of that request.

So a step never bans a node id or an address taken from a *record* of the packet (the ip an ENR
advertises), never bans on behalf of a request that was sent elsewhere, and no input other than a
NODES response bans at all. -/
theorem ban_names_sender (s : Svc) (o : Oracle) (i : Svc.Input) (p : Nat) (a : Addr)
    (h : Out.ban p a ∈ (s.step o i).2) :
    ∃ (id total : Nat) (recs : List Rec), i = .response p a id (.nodes total recs) ∧
      ∃ (req : ActiveReq) (ds : List Nat),
        s.active.find? (fun r => r.id == id) = some req ∧ req ∈ s.active ∧ req.id = id ∧
        req.peer = p ∧ req.addr = a ∧ req.body = .findNode ds ∧ req.callback = false ∧
        (acceptNodes p ds recs).2 = true := by
  by_cases hi : ∃ p' a' id total recs, i = .response p' a' id (.nodes total recs)
  · obtain ⟨p', a', id, total, recs, hi⟩ := hi
    subst hi
    have h' : Out.ban p a ∈ (s.handleResponse o p' a' id (.nodes total recs)).2 := h
    rw [ban_iff] at h'
    obtain ⟨hp, ha, hc⟩ := h'
    subst hp ha
    exact ⟨id, total, recs, rfl, hc⟩
  · exfalso
    refine not_mem_of_bans_nil (step_bans_other s o i ?_) p a h
    intro p' a' id total recs he
    exact hi ⟨p', a', id, total, recs, he⟩

/-- Every input that is not a NODES response bans nobody. -/
theorem only_nodes_responses_ban (s : Svc) (o : Oracle) (i : Svc.Input)
    (hi : ∀ p a id total recs, i ≠ .response p a id (.nodes total recs)) (p : Nat) (a : Addr) :
    Out.ban p a ∉ (s.step o i).2 :=
  not_mem_of_bans_nil (step_bans_other s o i hi) p a

/-- **ban_has_cause_at (theorem B, with the state).**  Along every run, every ban of `p` at `a` was
produced by one particular element of the input list: a NODES response from `p` at `a`, which in the
state reached by the inputs before it satisfies the ban condition. -/
theorem ban_has_cause_at (l : List (Oracle × Svc.Input)) : ∀ (s : Svc) (p : Nat) (a : Addr),
    Out.ban p a ∈ (s.run l).2 →
    ∃ (pre post : List (Oracle × Svc.Input)) (o : Oracle) (id total : Nat) (recs : List Rec),
      l = pre ++ (o, .response p a id (.nodes total recs)) :: post ∧
      BanCond (s.run pre).1 p a id recs := by
  induction l with
  | nil => intro s p a h; cases h
  | cons x rest ih =>
    intro s p a h
    obtain ⟨o, i⟩ := x
    rw [run_cons] at h
    rcases List.mem_append.1 h with h | h
    · obtain ⟨id, total, recs, hi, hc⟩ := ban_names_sender s o i p a h
      exact ⟨[], rest, o, id, total, recs, by rw [hi]; rfl, hc⟩
    · obtain ⟨pre, post, o', id, total, recs, hl, hc⟩ := ih _ p a h
      refine ⟨(o, i) :: pre, post, o', id, total, recs, by rw [hl]; rfl, ?_⟩
      rw [run_cons]
      exact hc

/-- **ban_has_cause (theorem B, history form).**  Along every run, every ban of node `p` at address
`a` among the outputs was produced by an input of the run that is a NODES response from `p` at `a`. -/
theorem ban_has_cause (s : Svc) (l : List (Oracle × Svc.Input)) (p : Nat) (a : Addr)
    (h : Out.ban p a ∈ (s.run l).2) :
    ∃ (o : Oracle) (id total : Nat) (recs : List Rec),
      (o, Svc.Input.response p a id (.nodes total recs)) ∈ l := by
  obtain ⟨pre, post, o, id, total, recs, hl, _⟩ := ban_has_cause_at l s p a h
  exact ⟨o, id, total, recs, by rw [hl]; simp⟩

/-- A run without NODES responses from `p` at `a` never bans `p` at `a` (contrapositive of
`ban_has_cause`). -/
theorem silent_never_banned (s : Svc) (l : List (Oracle × Svc.Input)) (p : Nat) (a : Addr)
    (h : ∀ o id total recs, (o, Svc.Input.response p a id (.nodes total recs)) ∉ l) :
    Out.ban p a ∉ (s.run l).2 := by
  intro hm
  obtain ⟨o, id, total, recs, hmem⟩ := ban_has_cause s l p a hm
  exact h o id total recs hmem

/-! ### Non-vacuity -/

def exAddr : Addr := { v6 := false, sock := 655369000 }

/-- Node 9, reachable at `exAddr`. -/
def exPeer : Rec := { recOf 9 with udp4 := some 655369000 }

/-- Node 77 advertises another socket (ip 20000, port 9000). -/
def exForeign : Rec := { recOf 77 with udp4 := some (20000 * 65536 + 9000) }

/-- Node 8 with an empty table. -/
def ex0 : Svc := Svc.init exCfg (recOf 8)

/-- A session with node 9 is established (request 1 is the PING that follows), a query for target 10
starts and asks node 9 (request 2: FINDNODE `[2,3,1]`); node 9 answers with the record of node 77,
which is at distance 7 from it. -/
def exRun : List (Oracle × Svc.Input) :=
  [({}, .established exPeer exAddr false), ({}, .startQuery 10), ({}, .queryEmit 9),
   ({}, .response 9 exAddr 2 (.nodes 1 [exForeign]))]

/-- The state before the answer. -/
def ex3 : Svc := (ex0.run (exRun.take 3)).1

example : ex3.active.map (fun r => (r.id, r.peer, r.addr, r.body, r.callback)) =
    [(1, 9, exAddr, .ping 1, false), (2, 9, exAddr, .findNode [2, 3, 1], false)] := by decide +kernel

/-- The step does ban — the sender (node 9 at `exAddr`), not the node or the socket of the record. -/
example : Out.ban 9 exAddr ∈ (ex3.step {} (.response 9 exAddr 2 (.nodes 1 [exForeign]))).2 := by
  decide +kernel

example : bans (ex0.run exRun).2 = [(9, exAddr)] := by decide +kernel

/-- The same packet from another address (or another node) is dropped without a ban, and so is an
honest answer. -/
example : bans (ex3.step {} (.response 9 { exAddr with sock := 1 } 2 (.nodes 1 [exForeign]))).2 = [] := by
  decide +kernel

example : bans (ex3.step {} (.response 77 exAddr 2 (.nodes 1 [exForeign]))).2 = [] := by decide +kernel

example : bans (ex3.step {} (.response 9 exAddr 2 (.nodes 1 [recOf 11]))).2 = [] := by decide +kernel

/-- `BanCond` is satisfiable. -/
example : BanCond ex3 9 exAddr 2 [exForeign] :=
  ((ban_iff ex3 {} 9 exAddr 2 1 [exForeign] 9 exAddr).1 (by decide +kernel)).2.2

end Discv5.Props.C11Ban

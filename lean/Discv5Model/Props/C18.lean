/-
C18 — Inbound rate limiting and ban lists are enforced.
Property theorems only (definitions and helper lemmas live in `Proofs/LimiterLemmas.lean`).

Vocabulary: a history `es : List (Ev κ)` is a sequence of `Limiter::allows(time, key, tokens)` and
`Limiter::prune(time)` calls; `Timed tau t lo es` says that the times never decrease (starting at
`lo`) and stay far from `u64` overflow (`time + 2·tau < 2^64`, `t·tokens < 2^64`; with
`tau < 2^62` this holds for all times `< 2^63` ns ≈ 292 years); `accepted key l [] es` are the
accepted arrivals `(time, tokens)` of `key`, newest first; `sums H` pairs each accepted arrival
`aᵢ` with `Sᵢ`, the tokens accepted from it up to the newest (`Sᵢ = n − i + 1` with one token per
arrival); `tokensIn H s W` are the tokens accepted in the window `[s, s + W]`; `t` is the code's
replenish time per token (`floor(period / max_tokens)` ns) and `tau` the period.
-/
import Discv5Model.Proofs.LimiterLemmas

namespace Discv5.Limiter

variable {κ : Type} [DecidableEq κ]

/-- GCRA, exactly.  After any history from an empty limiter (any keys, any token counts, refused
arrivals and prune calls interleaved), with `H` the accepted arrivals of `key`: (1) if the table
holds an entry for `key` it is `maxᵢ (aᵢ + Sᵢ·t)`; (2) a further arrival of `k` tokens at a time
`a` not before the last event is accepted **iff** `k·t ≤ tau` and for every accepted arrival `i`:
`(Sᵢ + k)·t ≤ (a − aᵢ) + tau`. -/
theorem gcra_exact (tau t : Nat) (key : κ) (es : List (Ev κ)) (hT : Timed tau t 0 es)
    (a k : Nat) (ha : lastTime 0 es ≤ a) (hb : a + 2 * tau < 18446744073709551616)
    (hk : t * k < 18446744073709551616) :
    (∀ v, (run (fresh tau t) es).1.tat key = some v →
        v = maxL ((sums (accepted key (fresh tau t) [] es)).map fun p => p.1 + p.2 * t)) ∧
    (((run (fresh tau t) es).1.allows a key k).2 = .ok ↔
      (k * t ≤ tau ∧
        ∀ p ∈ sums (accepted key (fresh tau t) [] es), (p.2 + k) * t ≤ (a - p.1) + tau)) := by
  have htr := tracks_run (key := key) es (tracks_fresh tau t key 0) hT
  have ht : (run (fresh tau t : Limiter κ) es).1.t = t := run_t _ _
  have htau : (run (fresh tau t : Limiter κ) es).1.tau = tau := run_tau _ _
  constructor
  · intro v hv
    rw [← specTat_eq_max]
    have := htr.some_eq v hv
    rw [ht] at this
    exact this
  · rw [allows_eq_allowsI _ a key k (by rw [htau]; exact hb) (by rw [ht]; exact hk) (htr.entry_le ha)]
    have := allowsI_ok_iff (k := k) htr ha
    rw [ht, htau] at this
    exact this

/-- GCRA with one token per arrival (the only way `RateLimiter::allows` uses it), in the indexed
form of the property statement: with `H = [aₙ, …, a₁]` the accepted arrivals (index `j = 0` is the
newest, so `j + 1 = n − i + 1`), a new arrival at `a` is accepted iff `t ≤ tau` and for all `j`:
`(j + 2)·t ≤ (a − H[j]) + tau`. -/
theorem gcra_exact_unit (tau t : Nat) (key : κ) (es : List (Ev κ)) (hT : Timed tau t 0 es)
    (hu : UnitTokens es) (a : Nat) (ha : lastTime 0 es ≤ a)
    (hb : a + 2 * tau < 18446744073709551616) (ht : t < 18446744073709551616) :
    ((run (fresh tau t) es).1.allows a key 1).2 = .ok ↔
      (t ≤ tau ∧ ∀ j, ∀ hj : j < (accepted key (fresh tau t) [] es).length,
        (j + 2) * t ≤ (a - ((accepted key (fresh tau t) [] es)[j]).1) + tau) := by
  have h1 := accepted_unit key (fresh tau t) [] es (by simp) hu
  rw [(gcra_exact tau t key es hT a 1 ha hb (by omega)).2]
  simp only [Nat.one_mul]
  constructor
  · rintro ⟨h0, h⟩
    refine ⟨h0, fun j hj => ?_⟩
    have := h _ ((mem_sums_unit _ h1 _).mpr ⟨j, hj, rfl⟩)
    simpa using this
  · rintro ⟨h0, h⟩
    refine ⟨h0, fun p hp => ?_⟩
    obtain ⟨j, hj, rfl⟩ := (mem_sums_unit _ h1 p).mp hp
    simpa using h j hj

/-- Window bound, in the code's units (`burst + rate·W` with burst `tau/t` and rate `1/t`): the
tokens accepted for one key in any time window `[s, s + W]`, times `t`, never exceed `W + tau`. -/
theorem window_bound (tau t : Nat) (key : κ) (es : List (Ev κ)) (hT : Timed tau t 0 es)
    (s W : Nat) : tokensIn (accepted key (fresh tau t) [] es) s W * t ≤ W + tau := by
  have htr := tracks_run (key := key) es (tracks_fresh tau t key 0) hT
  have := htr.conf
  rw [run_t, run_tau] at this
  exact conf_window this s W

/-- Window bound for a quota `n` tokens every `period` ns that divides evenly: at most
`n + W / (period / n)` tokens of one key are accepted in any window of length `W` — the configured
burst plus the configured rate times the window. -/
theorem window_bound_quota (n period : Nat) (l : Limiter κ) (hq : fromQuota n period = some l)
    (hdiv : period % n = 0) (key : κ) (es : List (Ev κ)) (hT : Timed l.tau l.t 0 es) (s W : Nat) :
    tokensIn (accepted key l [] es) s W ≤ n + W / (period / n) := by
  obtain ⟨rfl, hn, hp, _⟩ := fromQuota_eq hq
  have hw := window_bound period (period / n) key es hT s W
  have hpe : n * (period / n) = period := Nat.mul_div_cancel' (Nat.dvd_of_mod_eq_zero hdiv)
  have htpos : 0 < period / n := by
    rcases Nat.eq_zero_or_pos (period / n) with h0 | h0
    · rw [h0] at hpe; omega
    · exact h0
  have hx : (tokensIn (accepted key (fresh period (period / n)) [] es) s W - n) * (period / n) ≤ W := by
    rw [Nat.sub_mul]; omega
  have := (Nat.le_div_iff_mul_le htpos).mpr hx
  omega

/-- Window bound for an arbitrary quota (`t = floor(period / n)` rounds down, so the effective rate
may exceed `n / period` by less than one token per `n − 1` ns): `m · period ≤ n · (W + period) +
m · (n − 1)` for the `m` tokens accepted in a window of length `W`. -/
theorem window_bound_rounded (n period : Nat) (l : Limiter κ) (hq : fromQuota n period = some l)
    (key : κ) (es : List (Ev κ)) (hT : Timed l.tau l.t 0 es) (s W : Nat) :
    tokensIn (accepted key l [] es) s W * period
      ≤ n * (W + period) + tokensIn (accepted key l [] es) s W * (n - 1) := by
  obtain ⟨rfl, hn, hp, _⟩ := fromQuota_eq hq
  have hw := window_bound period (period / n) key es hT s W
  generalize tokensIn (accepted key (fresh period (period / n)) [] es) s W = m at hw ⊢
  have hdm : n * (period / n) + period % n = period := Nat.div_add_mod period n
  have hmod : period % n ≤ n - 1 := by have := Nat.mod_lt period hn; omega
  calc m * period = m * (n * (period / n) + period % n) := by rw [hdm]
    _ = n * (m * (period / n)) + m * (period % n) := by
        rw [Nat.mul_add, ← Nat.mul_assoc, Nat.mul_comm m n, Nat.mul_assoc]
    _ ≤ n * (W + period) + m * (n - 1) :=
        Nat.add_le_add (Nat.mul_le_mul_left _ hw) (Nat.mul_le_mul_left _ hmod)

/-- With one token per arrival the bound counts arrivals: the number of accepted arrivals of a key
with time in `[s, s + W]`, times `t`, is at most `W + tau`. -/
theorem window_bound_count (tau t : Nat) (key : κ) (es : List (Ev κ)) (hT : Timed tau t 0 es)
    (hu : UnitTokens es) (s W : Nat) :
    ((accepted key (fresh tau t) [] es).filter
        (fun p => decide (s ≤ p.1 ∧ p.1 ≤ s + W))).length * t ≤ W + tau := by
  rw [← tokensIn_unit _ (accepted_unit key (fresh tau t) [] es (by simp) hu)]
  exact window_bound tau t key es hT s W

/-- Traffic that stays within the quota is never refused: if the arrivals *offered* for `key`
(accepted or not) satisfy the window bound for every window, every one of them is accepted. -/
theorem conforming_never_refused (tau t : Nat) (key : κ) (es : List (Ev κ))
    (hT : Timed tau t 0 es)
    (hw : ∀ s W, tokensIn (offered key [] es) s W * t ≤ W + tau) :
    ∀ v ∈ verdictsOf key (fresh tau t) es, v = .ok :=
  (conforming_run es (tracks_fresh tau t key 0) hT hw).1

/-- The allowance comes back with time, whatever happened before: after any history, an arrival of `k`
tokens (`k·t ≤ tau`) that comes at least `k·t` - the time in which `k` tokens are replenished - after
every accepted arrival of its key is accepted. -/
theorem replenished_tokens_are_granted (tau t : Nat) (key : κ) (es : List (Ev κ)) (hT : Timed tau t 0 es)
    (a k : Nat) (ha : lastTime 0 es ≤ a) (hb : a + 2 * tau < 18446744073709551616)
    (hk : t * k < 18446744073709551616) (hkt : k * t ≤ tau)
    (hidle : ∀ e ∈ accepted key (fresh tau t) [] es, e.1 + k * t ≤ a) :
    ((run (fresh tau t) es).1.allows a key k).2 = .ok := by
  have htr := tracks_run (key := key) es (tracks_fresh tau t key 0) hT
  have hc := htr.conf
  rw [run_t, run_tau] at hc
  exact (gcra_exact tau t key es hT a k ha hb hk).2.mpr ⟨hkt, conf_after_replenish hc a k hidle⟩

/-- In the terms of a configured quota (`n` tokens every `period` ns, one token per datagram): a sender
whose accepted datagrams all lie a whole period back is within its quota - its datagram is accepted,
however the earlier ones were spaced.  (This is the rule the correspondence harness's timed monitor
`conforming-refused … a whole period after its previous datagram` applies to the real filter.) -/
theorem whole_period_idle_is_within_quota (n period : Nat) (l : Limiter κ)
    (hq : fromQuota n period = some l) (key : κ) (es : List (Ev κ)) (hT : Timed l.tau l.t 0 es)
    (a : Nat) (ha : lastTime 0 es ≤ a) (hb : a + 2 * period < 18446744073709551616)
    (hidle : ∀ e ∈ accepted key l [] es, e.1 + period ≤ a) :
    ((run l es).1.allows a key 1).2 = .ok := by
  obtain ⟨rfl, hn, hp, hpu⟩ := fromQuota_eq hq
  have hle : period / n ≤ period := Nat.div_le_self _ _
  have hU : U64 = 18446744073709551616 := rfl
  refine replenished_tokens_are_granted period (period / n) key es hT a 1 ha hb (by omega) (by omega) ?_
  intro e he
  have := hidle e he
  omega

example : ((run (fresh (κ := Nat) 60 30) [.arrive 0 7 1, .arrive 1 7 1, .arrive 2 7 1]).1.allows 61 7 1).2 = .ok ∧
    ((run (fresh (κ := Nat) 60 30) [.arrive 0 7 1, .arrive 1 7 1, .arrive 2 7 1]).2 = [.ok, .ok, .tooSoon 28]) := by
  decide

/-- Pruning is invisible: for monotone times the verdicts of a history equal the verdicts of the
same history with all `prune` calls removed (all keys at once). -/
theorem prune_transparent (tau t : Nat) (es : List (Ev κ)) (hT : Timed tau t 0 es) :
    (run (fresh tau t) es).2 = (run (fresh tau t) (stripPrune es)).2 :=
  pruneRel_run es (pruneRel_refl _ 0 (fun k v hv => by simp [fresh] at hv)) hT

/-- The same for the three-quota `RateLimiter` the filter uses (`RateLimiter::prune` prunes the
total, per-node and per-IP limiters at one clock reading): the verdicts of any sequence of
`allows(Total | NodeId | Ip)` calls are unchanged by interleaved `prune` calls. `B` bounds the
three periods. -/
theorem ratelimiter_prune_transparent (total node ip : Option (Nat × Nat)) (r : RateLimiter)
    (h : RateLimiter.build total node ip = some r) (B : Nat) (hB : r.total.tau ≤ B)
    (hBn : ∀ l, r.node = some l → l.tau ≤ B) (hBi : ∀ l, r.ip = some l → l.tau ≤ B)
    (es : List REv) (hT : RTimed B 0 es) : (rrun r es).2 = (rrun r (rstrip es)).2 :=
  rrel_run es (rrel_build h B hB hBn hBi 0) hT

/-- Each request costs exactly one token: the per-IP / per-node / total decision of the
`RateLimiter` is the GCRA decision of the corresponding `Limiter` for one token (and an absent
quota lets everything pass). -/
theorem ratelimiter_is_gcra (r : RateLimiter) (now key : Nat) :
    (r.allows now .total).2 = (r.total.allows now () 1).2 ∧
    (∀ lim, r.ip = some lim → (r.allows now (.ip key)).2 = (lim.allows now key 1).2) ∧
    (∀ lim, r.node = some lim → (r.allows now (.nodeId key)).2 = (lim.allows now key 1).2) ∧
    (r.ip = none → (r.allows now (.ip key)).2 = .ok) ∧
    (r.node = none → (r.allows now (.nodeId key)).2 = .ok) := by
  refine ⟨rfl, ?_, ?_, ?_, ?_⟩
  · intro lim h; rw [allows_ip, h]; rfl
  · intro lim h; rw [allows_node, h]; rfl
  · intro h; rw [allows_ip, h]; rfl
  · intro h; rw [allows_node, h]; rfl

end Discv5.Limiter

namespace Discv5.Filter
open Discv5.Limiter

/-- Permit list: a datagram whose IP is permitted always passes the IP stage, one whose node id is
permitted always passes the node stage — whatever the ban lists and limiters say, and without
touching any state. -/
theorem permit_passes (f : Filter) (pb : PermitBan) (now : Nat) (ip : Ip) (node : NodeId) :
    (pb.permitIps ip = true → f.initialPass pb now ip = (f, pb, true)) ∧
    (pb.permitNodes node = true → f.finalPass pb now ip node = (f, pb, true)) :=
  ⟨initialPass_permit f pb now ip, finalPass_permit f pb now ip node⟩

/-- Ban list: a datagram from a banned IP is dropped at the IP stage, one from a banned node id at
the node stage, unless that IP respectively node id is permitted. -/
theorem banned_dropped (f : Filter) (pb : PermitBan) (now : Nat) (ip : Ip) (node : NodeId) :
    (pb.permitIps ip = false → (pb.banIps ip).isSome = true →
      f.initialPass pb now ip = (f, pb, false)) ∧
    (pb.permitNodes node = false → (pb.banNodes node).isSome = true →
      f.finalPass pb now ip node = (f, pb, false)) :=
  ⟨initialPass_banned f pb now ip, finalPass_banned f pb now ip node⟩

/-- Excess is punished: when the per-IP limiter refuses an unsolicited datagram it is dropped and
the IP is banned until `now + ban_duration` (for ever without a configured duration); likewise for
the per-node limiter at the node stage. -/
theorem excess_bans (f : Filter) (pb : PermitBan) (now : Nat) (ip : Ip) (node : NodeId)
    (rl : RateLimiter) (he : f.enabled = true) (hr : f.rateLimiter = some rl) :
    (pb.permitIps ip = false → (pb.banIps ip).isSome = false →
      (rl.allows now (.ip ip)).2.isOk = false →
      (f.initialPass pb now ip).2.2 = false ∧
      (f.initialPass pb now ip).2.1.banIps ip = some (f.banDuration.map (now + ·))) ∧
    (pb.permitNodes node = false → (pb.banNodes node).isSome = false →
      (rl.allows now (.nodeId node)).2.isOk = false →
      (f.finalPass pb now ip node).2.2 = false ∧
      (f.finalPass pb now ip node).2.1.banNodes node = some (f.banDuration.map (now + ·))) := by
  constructor
  · intro hp hb hx
    rw [initialPass_excess f pb now ip rl hp hb he hr hx]
    simp [banInsert, Filter.banTimeout]
  · intro hp hb hx
    exact finalPass_excess f pb now ip node rl hp hb he hr hx

/-- The expiry sweep (`unban_nodes_check` at time `now`) removes only expired bans: an entry is
either unchanged (and then, if timed, still in the future) or removed, and a removed entry had an
expiry `≤ now`; permanent bans and the permit lists are never touched. -/
theorem sweep_only_expired (pb : PermitBan) (now key : Nat) :
    ((pb.sweep now).banIps key = pb.banIps key ∨
      ((pb.sweep now).banIps key = none ∧ ∃ e, pb.banIps key = some (some e) ∧ e ≤ now)) ∧
    ((pb.sweep now).banNodes key = pb.banNodes key ∨
      ((pb.sweep now).banNodes key = none ∧ ∃ e, pb.banNodes key = some (some e) ∧ e ≤ now)) ∧
    (pb.sweep now).permitIps = pb.permitIps ∧ (pb.sweep now).permitNodes = pb.permitNodes := by
  refine ⟨?_, ?_, rfl, rfl⟩
  · rcases sweepMap_spec pb.banIps now key with h | h
    · exact Or.inl h.1
    · exact Or.inr h
  · rcases sweepMap_spec pb.banNodes now key with h | h
    · exact Or.inl h.1
    · exact Or.inr h

/-- A ban lasts at least the configured duration.  Let the IP be banned at time `t0` by an excess
(entry `t0 + d`, or permanent).  Then after *any* sequence of filter calls, receive-path calls,
prune calls and sweeps at times `≥ t0` whose sweeps happen before `t0 + d`, the IP is still banned
until at least `t0 + d` — so every unsolicited datagram from it is dropped at the IP stage unless
the IP is on the permit list.  Same for a node id at the node stage. -/
theorem ban_lasts (f : Filter) (pb : PermitBan) (t0 d : Nat) (key : Nat) (ops : List FOp)
    (hd : f.banDuration = some d)
    (hops : ∀ op ∈ ops, t0 ≤ op.time ∧ (op.isSweep = true → op.time < t0 + d)) :
    (BannedUntil pb.banIps key (t0 + d) →
      BannedUntil (frun (f, pb) ops).2.banIps key (t0 + d) ∧
      ∀ now, (frun (f, pb) ops).2.permitIps key = false →
        ((frun (f, pb) ops).1.initialPass (frun (f, pb) ops).2 now key).2.2 = false) ∧
    (BannedUntil pb.banNodes key (t0 + d) →
      BannedUntil (frun (f, pb) ops).2.banNodes key (t0 + d) ∧
      ∀ now ip, (frun (f, pb) ops).2.permitNodes key = false →
        ((frun (f, pb) ops).1.finalPass (frun (f, pb) ops).2 now ip key).2.2 = false) := by
  have hbefore : Before f.banDuration (t0 + d) ops := by
    induction ops with
    | nil => trivial
    | cons op ops ih =>
      refine ⟨?_, (hops op (by simp)).2, ih (fun o ho => hops o (List.mem_cons_of_mem _ ho))⟩
      intro d' hd'
      have : d' = d := by rw [hd] at hd'; injection hd' with h; exact h.symm
      have := (hops op (by simp)).1
      omega
  constructor
  · intro hb
    have := banned_ip_persists (f, pb) key (t0 + d) ops hb hbefore
    refine ⟨this, fun now hp => ?_⟩
    obtain ⟨e, he, _⟩ := this
    rw [initialPass_banned _ _ now key hp (by rw [he]; rfl)]
  · intro hb
    have := banned_node_persists (f, pb) key (t0 + d) ops hb hbefore
    refine ⟨this, fun now ip hp => ?_⟩
    obtain ⟨e, he, _⟩ := this
    rw [finalPass_banned _ _ now ip key hp (by rw [he]; rfl)]

/-- The stages enforce the quotas and nothing else: with the filter enabled and a rate limiter
configured, an unlisted IP passes the IP stage **iff** the per-IP limiter and then the total
limiter accept the datagram (so the datagrams let through are among those the GCRA limiters
accepted, to which `window_bound` applies, and a datagram within both quotas is never refused);
an unlisted node id whose per-node limiter accepts passes the node stage unless the separate
nodes-per-IP limit is configured, and a datagram the per-node limiter refuses never passes. -/
theorem stages_enforce_exactly_the_quotas (f : Filter) (pb : PermitBan) (now : Nat) (ip : Ip)
    (node : NodeId) (rl : RateLimiter) (he : f.enabled = true) (hr : f.rateLimiter = some rl) :
    (pb.permitIps ip = false → (pb.banIps ip).isSome = false →
      ((f.initialPass pb now ip).2.2 = true ↔
        ((rl.allows now (.ip ip)).2.isOk = true ∧
         ((rl.allows now (.ip ip)).1.allows now .total).2.isOk = true))) ∧
    (pb.permitNodes node = false → (pb.banNodes node).isSome = false →
      ((f.finalPass pb now ip node).2.2 = true → (rl.allows now (.nodeId node)).2.isOk = true) ∧
      (f.maxNodesPerIp = none → (rl.allows now (.nodeId node)).2.isOk = true →
        (f.finalPass pb now ip node).2.2 = true)) := by
  constructor
  · intro hp hb
    unfold Filter.initialPass
    rw [if_neg (by simp [hp]), if_neg (by simp [hb]), if_neg (by simp [he])]
    simp only [hr]
    cases hx : (rl.allows now (.ip ip)).2.isOk with
    | false => simp
    | true => simp
  · intro hp hb
    unfold Filter.finalPass
    rw [if_neg (by simp [hp]), if_neg (by simp [hb]), if_neg (by simp [he])]
    simp only [hr]
    cases hx : (rl.allows now (.nodeId node)).2.isOk with
    | false =>
      simp only [Bool.not_false, if_true]
      refine ⟨fun h => ?_, fun _ h => by cases h⟩
      rw [(nodeExcess_spec _ pb now ip node).1] at h
      cases h
    | true =>
      simp only [Bool.not_true, Bool.false_eq_true, if_false]
      refine ⟨fun _ => trivial, fun hm _ => ?_⟩
      unfold Filter.finalTail
      simp only [hm]

/-- Exemption: a datagram from a socket address with an outstanding expected response skips both
filter stages — it is never dropped, and neither the filter nor the lists change. -/
theorem exempt_bypasses (f : Filter) (pb : PermitBan) (now : Nat) (ip : Ip) (d : Decoded) :
    (handleInbound f pb now true ip d).1 = f ∧ (handleInbound f pb now true ip d).2.1 = pb ∧
    (handleInbound f pb now true ip d).2.2 ≠ .dropped := by
  rw [handleInbound_permitted]
  refine ⟨rfl, rfl, ?_⟩
  cases d <;> simp

/-- Without exemption the receive path is exactly the two stages: dropped iff the IP stage refuses,
or the packet carries a source id and the node stage refuses. -/
theorem unsolicited_goes_through_both_stages (f : Filter) (pb : PermitBan) (now : Nat) (ip : Ip)
    (node : NodeId) :
    (handleInbound f pb now false ip (.src node)).2.2 = .inbound ↔
      ((f.initialPass pb now ip).2.2 = true ∧
        ((f.initialPass pb now ip).1.finalPass (f.initialPass pb now ip).2.1 now ip node).2.2 = true) := by
  unfold handleInbound
  simp only [Bool.false_eq_true, if_false]
  cases h1 : (f.initialPass pb now ip).2.2 with
  | false => simp
  | true =>
    simp only [Bool.not_true, Bool.false_eq_true, if_false, true_and]
    cases h2 : ((f.initialPass pb now ip).1.finalPass (f.initialPass pb now ip).2.1 now ip node).2.2 <;> simp

end Discv5.Filter

/-! ### Non-vacuity: concrete histories satisfying the hypotheses -/

namespace Discv5.Limiter

/-- The scenario of the crate's own test `it_works_a` (4 tokens per 2 s), times in ns, with its
prune call: the hypotheses hold and the model gives the verdicts the test asserts. -/
def exampleHistory : List (Ev Nat) :=
  [.arrive 0 10 4, .prune 100000000, .arrive 100000000 10 1, .arrive 500000000 10 1,
   .arrive 1000000000 10 1, .arrive 1400000000 10 1, .arrive 2000000000 10 2]

example : Timed 2000000000 500000000 0 exampleHistory := by
  simp [exampleHistory, Timed, U64]

example : (fromQuota 4 2000000000 : Option (Limiter Nat)).map (fun l => (l.tau, l.t))
    = some (2000000000, 500000000) := by decide

example : ((run (fresh 2000000000 500000000) exampleHistory).2).map Verdict.isOk
    = [true, false, true, true, false, true] := by decide

example : accepted 10 (fresh 2000000000 500000000) [] exampleHistory
    = [(2000000000, 2), (1000000000, 1), (500000000, 1), (0, 4)] := by decide

/-- A one-token history with interleaved prune calls and two keys. -/
def exampleUnit : List (Ev Nat) :=
  [.arrive 0 1 1, .arrive 0 1 1, .arrive 0 2 1, .arrive 1 1 1, .prune 5, .arrive 5 1 1,
   .arrive 30 1 1, .prune 31, .arrive 31 2 1]

example : Timed 10 5 0 exampleUnit ∧ UnitTokens exampleUnit := by
  simp [exampleUnit, Timed, UnitTokens, U64]

example : ((run (fresh 10 5) exampleUnit).2).map Verdict.isOk
    = [true, true, true, false, true, true, true] := by decide

/-- A conforming offered sequence (one arrival every `t`): the hypothesis of
`conforming_never_refused` is satisfiable. -/
example : ∀ v ∈ verdictsOf 7 (fresh 10 5) [.arrive 0 7 1, .arrive 5 7 1, Ev.prune 9, .arrive 10 7 1],
    v = .ok := by decide

end Discv5.Limiter

namespace Discv5.Filter
open Discv5.Limiter

/-- A filter with an always-hit per-IP quota: the second datagram of an unlisted IP is an excess,
is dropped and bans the IP until `now + 5`; a permitted IP passes regardless. -/
def exampleFilter : Option Filter :=
  (RateLimiter.build (some (1000, 1000)) none (some (1, 1000000))).map fun rl =>
    Filter.new true (some rl) none none (some 5)

example : (exampleFilter.map fun f =>
    let r1 := f.initialPass PermitBan.empty 10 3
    let r2 := r1.1.initialPass r1.2.1 20 3
    (r1.2.2, r2.2.2, r2.2.1.banIps 3, r2.2.1.banIps 4)) = some (true, false, some (some 25), none) := by
  decide

example : BannedUntil (banInsert PermitBan.empty.banIps 3 (some 25)) 3 (20 + 5) :=
  ⟨some 25, by simp [banInsert], fun x hx => by injection hx with hx; omega⟩

end Discv5.Filter

/-
C17, the connectivity state (`src/service/connectivity_state.rs`) and the two places of
`src/service.rs` that are outside the vote path proper: the gate `should_count_ip_vote` in front of
`handle_ip_vote_from_pong`, and the timer arm of `Service::start` that takes a socket out of the
local record again.  Model: `Model/Connectivity.lean` (`KSvc` = service model + `Conn`).

What is shown, for every state / every history of the model:

* with the feature off (`auto_nat_listen_duration = None`, or ENR updates off) the connectivity state
  never interferes: every vote is admitted, no timer ever runs (`disabled_never_interferes`);
* the local record changes only (a) in a PONG step that reaches the vote path while the connectivity
  state admits votes of the reported family - the change itself is the subject of
  `Props/C17Service.lean` - or (b) in a timer step whose timer was due, which removes exactly that
  family's socket and increases the sequence number by one (`record_change_has_cause`, `timer_step`,
  `timer_fires_only_when_due`);
* a PONG reporting a family whose votes are not admitted changes nothing at all
  (`blocked_pong_changes_nothing`), and after a failed connectivity test the family stays blocked
  for the six hours that follow, whatever else happens (`revoked_family_ignored_for_six_hours`,
  `after_failed_test`);
* every announced socket change starts the wait for incoming sessions of its family, `duration`
  from that moment, counting from zero (`socket_update_starts_wait`); the wait ends only by the
  timer or by the second incoming session of that family (`wait_ends_only_by_timer_or_two_incoming`).
-/
import Discv5Model.Proofs.ConnectivityLemmas

namespace Discv5.Props.C17Conn

open Discv5.KB
open Discv5.Svc
open Discv5.Svc.Svc
open Discv5.Conn
open Discv5.SvcVotes (Fr FrS reachesVote votePong step_fr)

/-- The numbers of the connectivity state as literals: six hours of back-off, two incoming sessions.
(The models use the constants regenerated from the source; these two equations are where a changed
source constant breaks the proofs.) -/
theorem retryMs_eq : retryMs = 21600000 := by decide
theorem required_eq : required = 2 := by decide

/-! ## Invariants of the connectivity state along every history -/

def KInv (k : KSvc) : Prop := k.conn.Quiet ∧ k.conn.Counting

theorem init_inv (cfg : Cfg) (localRec : Rec) (autoNat : Option Nat) (inst : Nat) :
    KInv (KSvc.init cfg localRec autoNat inst) :=
  ⟨Conn.new_quiet _ _, Conn.new_counting _ _⟩

theorem step_duration (k : KSvc) (tok inst : Nat) (i : KInput) :
    (k.step tok inst i).1.conn.duration = k.conn.duration := by
  cases i with
  | svc o inp =>
    show Conn.duration (List.foldl _ _ _) = _
    rw [Conn.foldUpdate_duration]
    split
    · exact Conn.receivedIncoming_duration ..
    · rfl
  | timer sz sg =>
    unfold KSvc.step
    cases k.conn.firing tok with
    | none => rfl
    | some f => exact Conn.fire_duration ..

theorem step_inv (k : KSvc) (tok inst : Nat) (i : KInput) (h : KInv k) : KInv (k.step tok inst i).1 := by
  cases i with
  | svc o inp =>
    have h1 : (match inp with
        | .established _ addr true => k.conn.receivedIncoming addr.v6
        | _ => k.conn).Quiet ∧ (match inp with
        | .established _ addr true => k.conn.receivedIncoming addr.v6
        | _ => k.conn).Counting := by
      split
      · exact ⟨Conn.receivedIncoming_quiet _ _ h.1, Conn.receivedIncoming_counting _ _ h.2⟩
      · exact h
    exact ⟨Conn.foldUpdate_quiet _ _ _ h1.1, Conn.foldUpdate_counting _ _ _ h1.2⟩
  | timer sz sg =>
    unfold KSvc.step
    cases k.conn.firing tok with
    | none => exact h
    | some f => exact ⟨Conn.fire_quiet _ _ _ h.1, Conn.fire_counting _ _ _ h.2⟩

theorem run_inv (steps : List (Nat × Nat × KInput)) : ∀ (k : KSvc), KInv k → KInv (k.run steps).1 := by
  induction steps with
  | nil => intro k h; exact h
  | cons s rest ih =>
    intro k h
    obtain ⟨tok, inst, i⟩ := s
    exact ih _ (step_inv k tok inst i h)

theorem run_duration (steps : List (Nat × Nat × KInput)) :
    ∀ (k : KSvc), (k.run steps).1.conn.duration = k.conn.duration := by
  induction steps with
  | nil => intro k; rfl
  | cons s rest ih =>
    intro k
    obtain ⟨tok, inst, i⟩ := s
    exact (ih _).trans (step_duration k tok inst i)

/-- **Feature off.**  Over every history the connectivity state admits every vote and no timer
fires: the vote path is exactly the one of `Props/C17Service.lean`. -/
theorem disabled_never_interferes (k0 : KSvc) (h0 : KInv k0) (hd : k0.conn.duration = none)
    (steps : List (Nat × Nat × KInput)) :
    (∀ inst f, (k0.run steps).1.conn.shouldCount inst f = true) ∧
    (∀ tok, (k0.run steps).1.conn.firing tok = none) := by
  have hd' : (k0.run steps).1.conn.duration = none := (run_duration steps k0).trans hd
  refine ⟨fun inst f => ?_, fun tok => Conn.quiet_firing _ tok (run_inv steps k0 h0).1 hd'⟩
  unfold Conn.shouldCount
  rw [hd']; rfl

/-- `ConfigBuilder::build` switches the feature off together with ENR updates. -/
theorem no_enr_update_no_revocation (configured : Option Nat) : autoNatOf false configured = none := rfl

/-! ## One step -/

/-- **A vote the connectivity state does not admit changes nothing**: the record, the announced
sockets and the connectivity state itself stay as they were. -/
theorem blocked_pong_changes_nothing (k : KSvc) (tok inst : Nat) (o : Oracle) (peer : Nat) (addr : Addr)
    (id enrSeq : Nat) (observed : Addr) (hb : k.conn.shouldCount inst observed.v6 = false) :
    (k.step tok inst (.svc o (.response peer addr id (.pong enrSeq observed)))).1.svc.localRec
        = k.svc.localRec ∧
    sockEvs (k.step tok inst (.svc o (.response peer addr id (.pong enrSeq observed)))).2 = [] ∧
    (k.step tok inst (.svc o (.response peer addr id (.pong enrSeq observed)))).1.conn = k.conn := by
  have hfr := step_uncounted_fr k.svc { o with countable := k.conn.shouldCount inst observed.v6 }
    (.response peer addr id (.pong enrSeq observed)) hb
  have hev : sockEvs (k.svc.step { o with countable := k.conn.shouldCount inst observed.v6 }
      (.response peer addr id (.pong enrSeq observed))).2 = [] := by
    rw [sockEvs_eq]; exact hfr.outs
  refine ⟨hfr.st.loc, hev, ?_⟩
  show List.foldl _ k.conn (sockEvs (k.svc.step { o with countable := k.conn.shouldCount inst observed.v6 }
      (.response peer addr id (.pong enrSeq observed))).2) = k.conn
  rw [hev]; rfl

/-- The timer of a family fires only when that family is being awaited and its deadline passed. -/
theorem timer_fires_only_when_due (k : Conn) (tok : Nat) (f : Bool) (h : k.firing tok = some f) :
    ∃ d, k.wait f = some d ∧ d ≤ tok := by
  unfold Conn.firing at h
  unfold Conn.wait
  by_cases h4 : Conn.due k.wait4 tok = true
  · rw [if_pos h4] at h
    cases h
    unfold Conn.due at h4
    cases hw : k.wait4 with
    | none => rw [hw] at h4; cases h4
    | some d => rw [hw] at h4; exact ⟨d, by simp, by simpa using h4⟩
  · rw [if_neg h4] at h
    by_cases h6 : Conn.due k.wait6 tok = true
    · rw [if_pos h6] at h
      cases h
      unfold Conn.due at h6
      cases hw : k.wait6 with
      | none => rw [hw] at h6; cases h6
      | some d => rw [hw] at h6; exact ⟨d, by simp, by simpa using h6⟩
    · rw [if_neg h6] at h; cases h

theorem pingConnected_loc (s : Svc) : (pingConnected s).1.localRec = s.localRec :=
  (pingConnected_fr s).st.loc

theorem pingConnected_evs (s : Svc) : sockEvs (pingConnected s).2 = [] := by
  rw [sockEvs_eq]; exact (pingConnected_fr s).outs

/-- The socket of a family in a record. -/
def sockOfFam (r : Rec) (f : Bool) : Option Nat := if f then r.udp6 else r.udp4

/-- **The timer step**: the socket of the family whose test failed is taken out of the record, the
sequence number goes up by exactly one, the other family's socket stays, nothing is announced as a
new socket, and the family is blocked until six hours (21 600 000 ms) after the `Instant` read in
this step. -/
theorem timer_step (k : KSvc) (tok inst sz sg : Nat) (f : Bool) (h : k.conn.firing tok = some f) :
    (k.step tok inst (.timer sz sg)).1.svc.localRec = removeSocket k.svc.localRec f sz sg ∧
    sockOfFam (k.step tok inst (.timer sz sg)).1.svc.localRec f = none ∧
    sockOfFam (k.step tok inst (.timer sz sg)).1.svc.localRec (!f) = sockOfFam k.svc.localRec (!f) ∧
    (k.step tok inst (.timer sz sg)).1.svc.localRec.seq = k.svc.localRec.seq + 1 ∧
    (k.step tok inst (.timer sz sg)).1.svc.localRec.id = k.svc.localRec.id ∧
    sockEvs (k.step tok inst (.timer sz sg)).2 = [] ∧
    (k.step tok inst (.timer sz sg)).1.conn.wait f = none ∧
    (k.step tok inst (.timer sz sg)).1.conn.next f = inst + 21600000 := by
  have heq : k.step tok inst (.timer sz sg) =
      ({ svc := (pingConnected { k.svc with localRec := removeSocket k.svc.localRec f sz sg }).1,
         conn := k.conn.fire inst f },
       (pingConnected { k.svc with localRec := removeSocket k.svc.localRec f sz sg }).2) := by
    simp only [KSvc.step, h]
  have hloc : (k.step tok inst (.timer sz sg)).1.svc.localRec = removeSocket k.svc.localRec f sz sg := by
    simp only [heq, pingConnected_loc]
  have hev : sockEvs (k.step tok inst (.timer sz sg)).2 = [] := by
    simp only [heq, pingConnected_evs]
  have hconn : (k.step tok inst (.timer sz sg)).1.conn = k.conn.fire inst f := by
    rw [heq]
  rw [hloc, hconn]
  refine ⟨rfl, ?_, ?_, ?_, ?_, hev, ?_, ?_⟩ <;>
    cases f <;> simp [removeSocket, sockOfFam, Conn.fire, Conn.wait, Conn.next, retryMs_eq]

/-- **The record changes only for a cause**: a due timer (case 1), or a PONG that reaches the vote
path while votes of the reported family are admitted (case 2; what such a PONG may do is the subject
of `Props/C17Service.lean`). -/
theorem record_change_has_cause (k : KSvc) (tok inst : Nat) (i : KInput)
    (h : (k.step tok inst i).1.svc.localRec ≠ k.svc.localRec) :
    (∃ sz sg f, i = .timer sz sg ∧ k.conn.firing tok = some f) ∨
    (∃ o peer addr id enrSeq observed, i = .svc o (.response peer addr id (.pong enrSeq observed)) ∧
      k.conn.shouldCount inst observed.v6 = true ∧ reachesVote k.svc peer addr id = true) := by
  cases i with
  | timer sz sg =>
    cases hf : k.conn.firing tok with
    | none => exfalso; apply h; unfold KSvc.step; rw [hf]
    | some f => exact .inl ⟨sz, sg, f, rfl, rfl⟩
  | svc o inp =>
    right
    have hnot : ∀ o', votePong k.svc env0 inp = none → (k.svc.step o' inp).1.localRec = k.svc.localRec :=
      fun o' hv => (step_fr k.svc o' env0 inp hv).st.loc
    cases inp with
    | response peer addr id body =>
      cases body with
      | pong enrSeq observed =>
        refine ⟨o, peer, addr, id, enrSeq, observed, rfl, ?_, ?_⟩
        · by_cases hc : k.conn.shouldCount inst observed.v6 = true
          · exact hc
          · exfalso; apply h
            exact (blocked_pong_changes_nothing k tok inst o peer addr id enrSeq observed (by simpa using hc)).1
        · by_cases hr : reachesVote k.svc peer addr id = true
          · exact hr
          · exfalso; apply h
            apply hnot
            show (if reachesVote k.svc peer addr id then _ else none) = none
            rw [if_neg hr]
      | nodes t rs => exact absurd (hnot o rfl) h
      | talk p => exact absurd (hnot o rfl) h
    | established r a d => exact absurd (hnot o rfl) h
    | request _ _ _ _ => exact absurd (hnot o rfl) h
    | requestFailed _ => exact absurd (hnot o rfl) h
    | unverifiable _ => exact absurd (hnot o rfl) h
    | whoAreYou _ _ => exact absurd (hnot o rfl) h
    | addEnr _ => exact absurd (hnot o rfl) h
    | removeNode _ => exact absurd (hnot o rfl) h
    | apiPing _ => exact absurd (hnot o rfl) h
    | apiFindNode _ _ => exact absurd (hnot o rfl) h
    | apiTalk _ _ _ => exact absurd (hnot o rfl) h
    | startQuery _ => exact absurd (hnot o rfl) h
    | queryEmit _ => exact absurd (hnot o rfl) h
    | queryFinished => exact absurd (hnot o rfl) h

/-- **Every announced socket change starts the wait for incoming sessions** of its family: the
deadline is the configured duration after the tokio time of the step, the count starts at zero. -/
theorem socket_update_starts_wait (k : KSvc) (tok inst d : Nat) (o : Oracle) (inp : Input) (a : Addr)
    (hd : k.conn.duration = some d) (ha : a ∈ sockEvs (k.step tok inst (.svc o inp)).2) :
    (k.step tok inst (.svc o inp)).1.conn.wait a.v6 = some (tok + d) ∧
    (k.step tok inst (.svc o inp)).1.conn.cnt a.v6 = 0 := by
  show Conn.wait (List.foldl _ _ _) a.v6 = _ ∧ Conn.cnt (List.foldl _ _ _) a.v6 = _
  apply Conn.foldUpdate_arms tok d a.v6
  · split
    · rw [Conn.receivedIncoming_duration]; exact hd
    · exact hd
  · exact ⟨a, ha, rfl⟩

/-! ## The wait ends only by the timer or by the second incoming session -/

theorem enrSocketUpdate_keeps_wait (k : Conn) (tok : Nat) (v6 f : Bool)
    (h : (k.enrSocketUpdate tok v6).wait f = none) : k.wait f = none := by
  unfold Conn.enrSocketUpdate at h
  cases hd : k.duration with
  | none => rw [hd] at h; exact h
  | some d =>
    rw [hd] at h
    cases v6 <;> cases f <;> simp [Conn.wait] at h ⊢ <;> exact h

theorem foldUpdate_keeps_wait (tok : Nat) (f : Bool) (evs : List Addr) :
    ∀ (k : Conn), (evs.foldl (fun c a => c.enrSocketUpdate tok a.v6) k).wait f = none → k.wait f = none := by
  induction evs with
  | nil => intro k h; exact h
  | cons a rest ih =>
    intro k h
    exact enrSocketUpdate_keeps_wait k tok a.v6 f (ih _ h)

theorem receivedIncoming_clears (k : Conn) (v6 f : Bool) (d : Nat) (hw : k.wait f = some d)
    (h : (k.receivedIncoming v6).wait f = none) : v6 = f ∧ k.cnt f + 1 ≥ 2 := by
  unfold Conn.receivedIncoming at h
  unfold Conn.wait at hw h
  unfold Conn.cnt
  rw [required_eq] at h
  cases v6 <;> cases f <;> simp only [Bool.false_eq_true, if_false, if_true] at hw h ⊢
  · rw [hw] at h
    simp only [] at h
    by_cases hc : k.cnt4 + 1 ≥ 2
    · exact ⟨trivial, hc⟩
    · rw [if_neg hc] at h; simp [hw] at h
  · exfalso
    cases h4 : k.wait4 with
    | none => rw [h4] at h; simp only [] at h; rw [hw] at h; cases h
    | some _ =>
      rw [h4] at h; simp only [] at h
      split at h <;> (simp only [] at h; rw [hw] at h; cases h)
  · exfalso
    cases h6 : k.wait6 with
    | none => rw [h6] at h; simp only [] at h; rw [hw] at h; cases h
    | some _ =>
      rw [h6] at h; simp only [] at h
      split at h <;> (simp only [] at h; rw [hw] at h; cases h)
  · rw [hw] at h
    simp only [] at h
    by_cases hc : k.cnt6 + 1 ≥ 2
    · exact ⟨trivial, hc⟩
    · rw [if_neg hc] at h; simp [hw] at h

/-- **The wait for incoming sessions of a family ends only in one of two ways**: its timer fires
(and the socket is revoked), or an incoming session of that family is reported which is at least
the second one since the socket was announced. -/
theorem wait_ends_only_by_timer_or_two_incoming (k : KSvc) (tok inst : Nat) (i : KInput) (f : Bool) (d : Nat)
    (hw : k.conn.wait f = some d) (hc : (k.step tok inst i).1.conn.wait f = none) :
    (∃ sz sg, i = .timer sz sg ∧ k.conn.firing tok = some f) ∨
    (∃ o r addr, i = .svc o (.established r addr true) ∧ addr.v6 = f ∧ k.conn.cnt f + 1 ≥ 2) := by
  cases i with
  | timer sz sg =>
    left
    cases hf : k.conn.firing tok with
    | none =>
      exfalso
      have : (k.step tok inst (.timer sz sg)).1.conn = k.conn := by unfold KSvc.step; rw [hf]
      rw [this, hw] at hc; cases hc
    | some g =>
      have hcn : (k.step tok inst (.timer sz sg)).1.conn = k.conn.fire inst g := by unfold KSvc.step; rw [hf]
      rw [hcn] at hc
      by_cases hgf : g = f
      · subst hgf; exact ⟨sz, sg, rfl, rfl⟩
      · exfalso
        unfold Conn.fire Conn.wait at hc
        unfold Conn.wait at hw
        cases g <;> cases f <;> simp only [Bool.false_eq_true, if_false, if_true] at hc hw <;>
          first | exact absurd rfl hgf | (rw [hw] at hc; cases hc)
  | svc o inp =>
    right
    have h1 := foldUpdate_keeps_wait tok f _ _ hc
    cases inp with
    | established r addr incoming =>
      cases incoming with
      | true =>
        obtain ⟨h2, h3⟩ := receivedIncoming_clears k.conn addr.v6 f d hw h1
        exact ⟨o, r, addr, rfl, h2, h3⟩
      | false => rw [hw] at h1; cases h1
    | response _ _ _ _ => rw [hw] at h1; cases h1
    | request _ _ _ _ => rw [hw] at h1; cases h1
    | requestFailed _ => rw [hw] at h1; cases h1
    | unverifiable _ => rw [hw] at h1; cases h1
    | whoAreYou _ _ => rw [hw] at h1; cases h1
    | addEnr _ => rw [hw] at h1; cases h1
    | removeNode _ => rw [hw] at h1; cases h1
    | apiPing _ => rw [hw] at h1; cases h1
    | apiFindNode _ _ => rw [hw] at h1; cases h1
    | apiTalk _ _ _ => rw [hw] at h1; cases h1
    | startQuery _ => rw [hw] at h1; cases h1
    | queryEmit _ => rw [hw] at h1; cases h1
    | queryFinished => rw [hw] at h1; cases h1

/-! ## After a failed test: six hours of silence for that family -/

/-- Votes of family `f` are blocked until `t0 + 6 h`. -/
def Blocked (f : Bool) (t0 : Nat) (k : KSvc) : Prop :=
  k.conn.duration.isSome = true ∧ t0 + 21600000 ≤ k.conn.next f

theorem fire_next (k : Conn) (inst : Nat) (g f : Bool) :
    (k.fire inst g).next f = if g = f then inst + 21600000 else k.next f := by
  unfold Conn.fire Conn.next
  cases g <;> cases f <;> simp [retryMs_eq]

theorem step_blocked (f : Bool) (t0 : Nat) (k : KSvc) (tok inst : Nat) (i : KInput)
    (hb : Blocked f t0 k) (hi : t0 ≤ inst) : Blocked f t0 (k.step tok inst i).1 := by
  refine ⟨by rw [step_duration]; exact hb.1, ?_⟩
  cases i with
  | svc o inp =>
    show _ ≤ Conn.next (List.foldl _ _ _) f
    rw [Conn.foldUpdate_next]
    split
    · rw [Conn.receivedIncoming_next]; exact hb.2
    · exact hb.2
  | timer sz sg =>
    unfold KSvc.step
    cases k.conn.firing tok with
    | none => exact hb.2
    | some g =>
      show _ ≤ (k.conn.fire inst g).next f
      rw [fire_next]
      split
      · omega
      · exact hb.2

theorem run_blocked (f : Bool) (t0 : Nat) (steps : List (Nat × Nat × KInput)) :
    ∀ (k : KSvc), Blocked f t0 k → (∀ s ∈ steps, t0 ≤ s.2.1) → Blocked f t0 (k.run steps).1 := by
  induction steps with
  | nil => intro k h _; exact h
  | cons s rest ih =>
    intro k h hc
    obtain ⟨tok, inst, i⟩ := s
    exact ih _ (step_blocked f t0 k tok inst i h (hc _ List.mem_cons_self))
      (fun s hs => hc s (List.mem_cons_of_mem _ hs))

theorem blocked_shouldCount (f : Bool) (t0 : Nat) (k : KSvc) (inst : Nat) (hb : Blocked f t0 k)
    (hi : inst < t0 + 21600000) : k.conn.shouldCount inst f = false := by
  obtain ⟨hd, hn⟩ := hb
  unfold Conn.shouldCount
  unfold Conn.next at hn
  cases hdd : k.conn.duration with
  | none => rw [hdd] at hd; cases hd
  | some d =>
    cases f <;> simp only [Option.isNone_some, Bool.false_eq_true, if_false, if_true] at hn ⊢ <;>
      simp <;> omega

/-- **A revoked family stays revoked for six hours.**  If votes of family `f` are blocked until
`t0 + 6 h` and every `Instant` the service reads lies in `[t0, t0 + 6 h)`, then throughout the
history - whatever sessions, answers, failures, user calls, timer firings and PONGs of the other
family it contains - every PONG that reports a socket of family `f` leaves the local record as it
is and announces nothing. -/
theorem revoked_family_ignored_for_six_hours (f : Bool) (t0 : Nat) (k0 : KSvc) (hb : Blocked f t0 k0)
    (steps : List (Nat × Nat × KInput))
    (hclock : ∀ s ∈ steps, t0 ≤ s.2.1 ∧ s.2.1 < t0 + 21600000)
    (pre post : List (Nat × Nat × KInput)) (tok inst : Nat) (o : Oracle) (peer : Nat) (addr : Addr)
    (id enrSeq : Nat) (observed : Addr)
    (hsplit : steps = pre ++ (tok, inst, .svc o (.response peer addr id (.pong enrSeq observed))) :: post)
    (hf : observed.v6 = f) :
    ((k0.run pre).1.step tok inst (.svc o (.response peer addr id (.pong enrSeq observed)))).1.svc.localRec
        = (k0.run pre).1.svc.localRec ∧
    sockEvs ((k0.run pre).1.step tok inst (.svc o (.response peer addr id (.pong enrSeq observed)))).2 = [] := by
  subst hsplit
  have hpre : Blocked f t0 (k0.run pre).1 :=
    run_blocked f t0 pre k0 hb (fun s hs => (hclock s (List.mem_append_left _ hs)).1)
  have hme := hclock (tok, inst, .svc o (.response peer addr id (.pong enrSeq observed)))
    (List.mem_append_right _ List.mem_cons_self)
  have hsc := blocked_shouldCount f t0 _ inst hpre hme.2
  rw [← hf] at hsc
  have := blocked_pong_changes_nothing (k0.run pre).1 tok inst o peer addr id enrSeq observed hsc
  exact ⟨this.1, this.2.1⟩

/-- The state right after a failed connectivity test is such a blocked state, with `t0` the
`Instant` read when the timer fired (for every reachable state: `KInv` holds along every history,
`run_inv`). -/
theorem after_failed_test (k : KSvc) (hk : KInv k) (tok inst sz sg : Nat) (f : Bool)
    (h : k.conn.firing tok = some f) :
    Blocked f inst (k.step tok inst (.timer sz sg)).1 := by
  have hs := timer_step k tok inst sz sg f h
  refine ⟨?_, by rw [hs.2.2.2.2.2.2.2]; exact Nat.le_refl _⟩
  rw [step_duration]
  cases hd : k.conn.duration with
  | some _ => rfl
  | none => rw [Conn.quiet_firing k.conn tok hk.1 hd] at h; cases h

/-! ## Non-vacuity -/

/-- A node that advertises 10.0.0.1:9000 (`167772161 * 65536 + 9000`), waits 1000 ms for incoming
sessions, and sees none: the timer is due at 1500, fires, the socket is gone with sequence number
+ 1, and IPv4 votes are blocked at `Instant` 2000 while IPv6 votes are not. -/
def exRec : Rec :=
  { id := 1, seq := 7, udp4 := some (167772161 * 65536 + 9000), udp6 := none, udp6Mapped := false,
    size := 100, passesFilter := true }

def exK : KSvc :=
  { svc := Svc.init { ipMode := .ip4, maxNodesResponse := 16, enrUpdate := true, kb := kbCfg 16 60000 } exRec
    conn := (Conn.new (some 1000) 0).enrSocketUpdate 100 false }

example : KInv exK := ⟨Conn.enrSocketUpdate_quiet _ _ _ (Conn.new_quiet _ _),
  Conn.enrSocketUpdate_counting _ _ _ (Conn.new_counting _ _)⟩

example : exK.conn.firing 1099 = none := by decide
example : exK.conn.firing 1500 = some false := by decide
example : sockOfFam (exK.step 1500 50 (.timer 90 1)).1.svc.localRec false = none :=
  (timer_step exK 1500 50 90 1 false (by decide)).2.1
example : (exK.step 1500 50 (.timer 90 1)).1.svc.localRec.seq = 8 :=
  (timer_step exK 1500 50 90 1 false (by decide)).2.2.2.1
example : Blocked false 50 (exK.step 1500 50 (.timer 90 1)).1 :=
  after_failed_test exK ⟨Conn.enrSocketUpdate_quiet _ _ _ (Conn.new_quiet _ _),
    Conn.enrSocketUpdate_counting _ _ _ (Conn.new_counting _ _)⟩ 1500 50 90 1 false (by decide)
example : ((exK.conn.fire 50 false).shouldCount 2000 false, (exK.conn.fire 50 false).shouldCount 2000 true)
    = (false, true) := by decide
/-- Two incoming IPv4 sessions end the wait; one does not. -/
example : ((exK.conn.receivedIncoming false).wait false, ((exK.conn.receivedIncoming false).receivedIncoming false).wait false)
    = (some 1100, none) := by decide

end Discv5.Props.C17Conn

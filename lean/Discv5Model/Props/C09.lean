/-
C09 — Iterative queries terminate with bounded parallelism.

Property theorems only (helper lemmas: `Proofs/QueryLemmas.lean`; model: `Model/Query.lean`, a
transliteration of `query_pool.rs`, `query_pool/peers/closest.rs` and `…/predicate.rs`).

All query-level theorems quantify over every variant (`closest` = `FindNodeQuery`, `predicate` =
`PredicateQuery`), every configuration, target and initial candidate list, and every history
`evs : List Ev` of `next now` / `on_success peer closer` / `on_failure peer` calls, in any order and
with arbitrary arguments (late, duplicate or unsolicited answers, arbitrary `closer` lists, time
going in any direction).  The pool-level theorems quantify over every history of pool calls and
every visiting order of the hash map in every `poll`.
-/
import Discv5Model.Proofs.QueryLemmas

namespace Discv5.Query

/-! ### in-flight counter -/

/-- `waiting_counter`: after every history, `num_waiting` is exactly the number of peers in state
`Waiting`. -/
theorem waiting_counter (v : Variant) (cfg : Config) (target : Nat) (known : List (Nat × Bool))
    (evs : List Ev) :
    (runQ (withConfig v cfg target known) evs).numWaiting =
      (runQ (withConfig v cfg target known) evs).peers.countP (fun e => e.state.isWaiting) := by
  have h := (linv_reach v cfg target known evs).wc
  rw [runL_init_q] at h
  exact h

/-- The `debug_assert!(self.num_waiting > 0)` before every `num_waiting -= 1` holds: whenever some
peer is `Waiting`, the counter is positive (so the subtraction never wraps). -/
theorem waiting_counter_no_underflow (v : Variant) (cfg : Config) (target : Nat)
    (known : List (Nat × Bool)) (evs : List Ev) (e : Peer)
    (he : e ∈ (runQ (withConfig v cfg target known) evs).peers) (hw : e.state.isWaiting = true) :
    0 < (runQ (withConfig v cfg target known) evs).numWaiting := by
  rw [waiting_counter]
  exact List.countP_pos_iff.mpr ⟨e, he, hw⟩

/-! ### bounded parallelism -/

/-- `parallelism` (issuing): `next` returns `Waiting(Some(peer))` only if, before the call, fewer
than `parallelism` requests were in flight while the query was iterating, resp. fewer than
`num_results` once it had stalled (`MayIssue`).  Holds in every state. -/
theorem parallelism_issue (q : Q) (now k : Nat) (h : (next q now).2 = .waiting (some k)) :
    MayIssue q :=
  mayIssue_of_not_atCapacity (next_emit q now k h).1

/-- `parallelism` (global): along every history the number of requests in flight never exceeds
`max parallelism num_results`.  (Requests already in flight when the progress state changes back
from stalled to iterating are not recalled — the code's documented behaviour — so the bound that
holds at all times is the larger of the two.) -/
theorem parallelism_bound (v : Variant) (cfg : Config) (target : Nat) (known : List (Nat × Bool))
    (evs : List Ev) :
    (runQ (withConfig v cfg target known) evs).peers.countP (fun e => e.state.isWaiting)
      ≤ max cfg.parallelism cfg.numResults := by
  rw [← waiting_counter]
  have h := (linv_reach v cfg target known evs).bnd
  rw [runL_init_q, (runQ_init_const v cfg target known evs).1] at h
  exact h

/-- While the query has never left the iterating phase the bound is `parallelism` itself at the
moment of issuing: after a request is handed out in the iterating phase at most `parallelism`
requests are in flight. -/
theorem parallelism_iterating (v : Variant) (cfg : Config) (target : Nat) (known : List (Nat × Bool))
    (evs : List Ev) (now k n : Nat)
    (hit : (runQ (withConfig v cfg target known) evs).progress = .iterating n)
    (h : (next (runQ (withConfig v cfg target known) evs) now).2 = .waiting (some k)) :
    (runQ (withConfig v cfg target known) evs).numWaiting < cfg.parallelism := by
  have hm := parallelism_issue _ now k h
  have hc := (runQ_init_const v cfg target known evs).1
  rcases hm with ⟨n', _, hlt⟩ | ⟨hs, _⟩
  · rw [hc] at hlt; exact hlt
  · rw [hit] at hs; cases hs

/-! ### no peer is contacted twice -/

/-- `no_recontact`: the list of peers handed out by `next` along any history has no duplicates. -/
theorem no_recontact (v : Variant) (cfg : Config) (target : Nat) (known : List (Nat × Bool))
    (evs : List Ev) : (requests (withConfig v cfg target known) evs).Nodup := by
  have h := (linv_reach v cfg target known evs).nd
  rw [runL_init_emitted] at h
  exact nodup_of_reverse h

/-- A request is only ever sent to a peer that is `NotContacted`, and afterwards that peer is
never `NotContacted` again (its rank NotContacted > Waiting > Unresponsive > Failed/Succeeded can
only go down): every peer that was handed out has left the `NotContacted` state for good. -/
theorem contacted_forever (v : Variant) (cfg : Config) (target : Nat) (known : List (Nat × Bool))
    (evs : List Ev) (k : Nat) (hk : k ∈ requests (withConfig v cfg target known) evs) :
    ∃ e ∈ (runQ (withConfig v cfg target known) evs).peers, e.key = k ∧ e.state ≠ .notContacted := by
  have h := (linv_reach v cfg target known evs).em k (by rw [runL_init_emitted]; simpa using hk)
  rw [runL_init_q] at h
  exact h

/-- `no_recontact` (rank): from every state reachable along a history, one more event never raises
the rank of a candidate (NotContacted 3 > Waiting 2 > Unresponsive 1 > Failed / Succeeded 0) and
never drops a candidate; only `NotContacted` candidates are handed out (`next_emit`), so a peer
that has left `NotContacted` can never be handed out again. -/
theorem rank_never_increases (v : Variant) (cfg : Config) (target : Nat) (known : List (Nat × Bool))
    (evs : List Ev) (ev : Ev) :
    ∀ e ∈ (runQ (withConfig v cfg target known) evs).peers,
      ∃ e' ∈ (runQ (withConfig v cfg target known) (evs ++ [ev])).peers,
        e'.key = e.key ∧ e'.dist = e.dist ∧ e'.state.rank ≤ e.state.rank := by
  have hs := (linv_reach v cfg target known evs).sorted
  rw [runL_init_q] at hs
  rw [runQ_append]
  exact step_rank_le hs ev

/-- A request goes only to a candidate that is `NotContacted` at that moment. -/
theorem request_only_to_not_contacted (q : Q) (now k : Nat) (h : (next q now).2 = .waiting (some k)) :
    ∃ e ∈ q.peers, e.key = k ∧ e.state = .notContacted :=
  (next_emit q now k h).2

/-! ### termination -/

/-- `terminates` (requests): a query never hands out more requests than the number of distinct
node ids it was ever told about — for every list `U` containing the ids of the (truncated) initial
candidates and of all `closer_peers` of the history, at most `|U|` requests are emitted. -/
theorem requests_bounded (v : Variant) (cfg : Config) (target : Nat) (known : List (Nat × Bool))
    (evs : List Ev) (U : List Nat)
    (hU : ∀ x ∈ (runL (Led.init v cfg target known) evs).reported, x.1 ∈ U) :
    (requests (withConfig v cfg target known) evs).length ≤ U.length := by
  have h := linv_reach v cfg target known evs
  apply nodup_subset_length_le _ _ (no_recontact v cfg target known evs)
  intro k hk
  obtain ⟨e, he, hek, _⟩ := h.em k (by rw [runL_init_emitted]; simpa using hk)
  have := hU _ (h.rep e he)
  rw [← hek]; exact this

/-- The ledger `reported` used above contains nothing but what the caller supplied: the first
`num_results` initial candidates and the `closer_peers` of `on_success` calls. -/
theorem reported_origin (v : Variant) (cfg : Config) (target : Nat) (known : List (Nat × Bool))
    (evs : List Ev) (x : Nat × Bool) (hx : x ∈ (runL (Led.init v cfg target known) evs).reported) :
    x ∈ known.take cfg.numResults ∨
      ∃ pre p closer post, evs = pre ++ .success p closer :: post ∧ x ∈ closer :=
  reported_spec _ evs x hx

/-! ### the pool: cut-off by the query timeout, result handed out exactly once -/

/-- `terminates` (cut-off), query visited first: a `poll` at a time when query `i` is past the
query timeout (`now - started ≥ timeout`) that visits `i` first either hands out a request for `i`
or hands `i` back (`Finished` or `Timeout`) and removes it from the pool. -/
theorem poll_timeout_removes (p : Pool) (now i : Nat) (rest : List Nat) (x : PQ)
    (hx : p.get i = some x) (hto : TimedOut p.timeout now x) :
    (∃ k, (p.poll now (i :: rest)).2 = .waitingSome i k) ∨
    ((∃ q, (p.poll now (i :: rest)).2 = .finished i q ∨ (p.poll now (i :: rest)).2 = .timeout i q) ∧
      (p.poll now (i :: rest)).1.get i = none) :=
  poll_timed_out_first p now i rest x hx hto

/-- `terminates` (cut-off), every visiting order: once all queries of the pool are past the query
timeout, every `poll` (whose visiting order reaches at least one query of the pool) hands out a
request or hands a query back, and in the latter case the pool shrinks.  Together with
`requests_bounded` this bounds the number of such polls. -/
theorem poll_timeout_any_order (p : Pool) (now : Nat) (order : List Nat)
    (hall : ∀ x ∈ p.queries, TimedOut p.timeout now x) (hord : ∃ i ∈ order, i ∈ p.ids) :
    (∃ i k, (p.poll now order).2 = .waitingSome i k) ∨
    (∃ i, retId (p.poll now order).2 = some i ∧ (p.poll now order).1.ids.length < p.ids.length) :=
  poll_all_timed_out p now order hall hord

/-- `result_once`: along every history of pool calls (with every visiting order in every `poll`),
no query id is handed back (`Finished` / `Timeout`) twice — as long as the `usize` id counter does
not wrap (`NoWrap`: fewer than 2^64 queries are added). -/
theorem result_once (timeout : Nat) (evs : List PEv) (hw : NoWrap (Pool.new timeout) evs) :
    (returned (Pool.new timeout) evs).Nodup := by
  have hinit : PoolInv (Pool.new timeout) := ⟨List.nodup_nil, fun i hi => by cases hi⟩
  suffices H : ∀ (evs : List PEv) (p : Pool), PoolInv p → NoWrap p evs → (returned p evs).Nodup from
    H evs _ hinit hw
  intro evs
  induction evs with
  | nil => intro p _ _; simp [returned, outsP]
  | cons ev evs ih =>
    intro p hp hw
    obtain ⟨hp', hn, _, hout⟩ := stepP_spec hp ev (noWrap_head hw)
    have hw' := noWrap_tail hp hw
    unfold returned
    rw [outsP_cons, List.filterMap_append]
    cases ho : (stepP p ev).2 with
    | none => simpa [returned] using ih _ hp' hw'
    | some o =>
      cases hr : retId o with
      | none => simpa [hr, returned] using ih _ hp' hw'
      | some r =>
        have hrr := (hout o ho).2 r hr
        have : (List.filterMap retId (some o).toList) = [r] := by simp [hr]
        rw [this]
        refine List.nodup_cons.mpr ⟨?_, ih _ hp' hw'⟩
        intro hmem
        rcases returned_mem hp' evs hw' r hmem with h1 | h1
        · exact hrr.2 h1
        · have := hp.lt r hrr.1; omega

/-- `result_once` (afterwards): once `poll` has handed query `r` back, the id is gone for good: in
every later state `get r` is `None` — so `on_success` / `on_failure` for `r` reach nothing — and no
later return value of `poll` (request, `Finished`, `Timeout`) mentions `r`. -/
theorem after_result_unreachable (p : Pool) (hp : PoolInv p) (ev : PEv) (evs : List PEv)
    (hw : NoWrap p (ev :: evs)) (o : PoolOut) (r : Nat)
    (ho : (stepP p ev).2 = some o) (hr : retId o = some r) :
    (∀ o' ∈ outsP (stepP p ev).1 evs, mentions r o' = false) ∧
    (∀ pre post, evs = pre ++ post → (runP (stepP p ev).1 pre).get r = none) := by
  obtain ⟨hp', hn, _, hout⟩ := stepP_spec hp ev (noWrap_head hw)
  have hrr := (hout o ho).2 r hr
  have hlt : r < (stepP p ev).1.nextId := by have := hp.lt r hrr.1; omega
  obtain ⟨h1, h2⟩ := absent_forever hp' r evs (noWrap_tail hp hw) hrr.2 hlt
  refine ⟨h1, ?_⟩
  intro pre post he
  have hn := h2 pre post he
  cases hg : (runP (stepP p ev).1 pre).get r with
  | none => rfl
  | some x =>
    exfalso
    obtain ⟨hx, hxi⟩ := find_id (show (runP (stepP p ev).1 pre).queries.find? (fun y => y.id == r) = some x from hg)
    exact hn (List.mem_map.mpr ⟨x, hx, hxi⟩)

/-- Events for an id that is not in the pool change nothing. -/
theorem event_for_absent_query (p : Pool) (id peer : Nat) (closer : List (Nat × Bool))
    (h : p.get id = none) : p.onSuccess id peer closer = p ∧ p.onFailure id peer = p := by
  unfold Pool.onSuccess Pool.onFailure
  rw [h]; exact ⟨rfl, rfl⟩

/-- The empty pool satisfies the pool invariant (used by `after_result_unreachable`), and every
event preserves it. -/
theorem pool_invariant (timeout : Nat) (evs : List PEv) (hw : NoWrap (Pool.new timeout) evs) :
    PoolInv (runP (Pool.new timeout) evs) := by
  have hinit : PoolInv (Pool.new timeout) := ⟨List.nodup_nil, fun i hi => by cases hi⟩
  suffices H : ∀ (evs : List PEv) (p : Pool), PoolInv p → NoWrap p evs → PoolInv (runP p evs) from
    H evs _ hinit hw
  intro evs
  induction evs with
  | nil => intro p hp _; exact hp
  | cons ev evs ih =>
    intro p hp hw
    exact ih _ (stepP_spec hp ev (noWrap_head hw)).1 (noWrap_tail hp hw)

/-- The pool drives its queries only through `next` / `on_success` / `on_failure`: every query in
the pool, and every query handed back by `poll` as `Finished` or `Timeout`, is in a state reached
from its constructor by some history of such calls (`Reach`) — so all query-level theorems of C09
and C10 (which hold for every history) apply to it, whatever the pool history and the visiting
orders were. -/
theorem pool_queries_reachable (timeout : Nat) (evs : List PEv) :
    (∀ x ∈ (runP (Pool.new timeout) evs).queries, Reach x.q) ∧
    (∀ o ∈ outsP (Pool.new timeout) evs, ∀ q, retQuery o = some q → Reach q) :=
  reach_runP evs (Pool.new timeout) (by intro y hy; cases hy)

/-! ### the termination measure -/

/-- `terminates` (measure, `next`): the measure `Σ rank + 4·(N − known)` (`potential N`, rank
NotContacted 3 > Waiting 2 > Unresponsive 1 > Failed/Succeeded 0, an id not yet known counts 4)
never increases in `next` and strictly decreases whenever `next` hands out a request.  Holds in
every state, for every `N`. -/
theorem measure_next (N : Nat) (q : Q) (now : Nat) :
    potential N (next q now).1 ≤ potential N q ∧
    (∀ k, (next q now).2 = .waiting (some k) → potential N (next q now).1 < potential N q) :=
  potential_next N q now

/-- `terminates` (measure, `on_failure`): never increases, strictly decreases whenever the call
has an effect. -/
theorem measure_failure (N : Nat) (q : Q) (p : Nat) :
    potential N (onFailure q p) ≤ potential N q ∧
    (onFailure q p ≠ q → potential N (onFailure q p) < potential N q) :=
  potential_failure N q p

/-- `terminates` (measure, `on_success`): never increases, strictly decreases whenever the call
has an effect — provided `N` bounds the number of candidates after the call (every newly learned
id turns 4 units of budget into a `NotContacted` entry of rank 3).  Hence along any history whose
ids come from a set of size `N`, at most `4·N` emitted requests / effective answers occur in total;
`requests_bounded` gives the sharp bound `N` for the requests. -/
theorem measure_success (N : Nat) (q : Q) (p : Nat) (closer : List (Nat × Bool))
    (hN : (onSuccess q p closer).peers.length ≤ N) :
    potential N (onSuccess q p closer) ≤ potential N q ∧
    (onSuccess q p closer ≠ q → potential N (onSuccess q p closer) < potential N q) :=
  potential_success N q p closer hN

/-! ### non-vacuity: concrete histories -/

private def exCfg : Config := ⟨2, 3, 10⟩
private def exKnown : List (Nat × Bool) := [(5, true), (3, true), (9, false), (12, true)]
/-- Three polls (the third hits the parallelism bound), an answer that reports a closer peer, a
duplicate and the target itself, a failure, answers without news (the query stalls), an answer
after the peer timeout, and a final poll. -/
private def exEvs : List Ev :=
  [.next 0, .next 0, .next 0, .success 3 [(1, true), (5, true), (0, false)], .next 1, .failure 5, .next 2,
   .success 1 [], .next 20, .success 0 [(2, true)], .next 21, .next 40, .success 9 [], .next 41]

/-- Six requests, all different, in this order (the initial list is cut to `num_results = 3`). -/
example : requests (withConfig .closest exCfg 0 exKnown) exEvs = [3, 5, 0, 1, 9, 2] := by decide
/-- With two requests in flight (`parallelism = 2`) the third poll is refused. -/
example : (next (runQ (withConfig .closest exCfg 0 exKnown) (exEvs.take 2)) 0).2 = .waitingAtCapacity := by
  decide
example : (runQ (withConfig .closest exCfg 0 exKnown) (exEvs.take 2)).numWaiting = 2 := by decide
/-- The history passes through the stalled phase and ends finished. -/
example : (runQ (withConfig .closest exCfg 0 exKnown) (exEvs.take 10)).progress = .stalled := by decide
example : (runQ (withConfig .closest exCfg 0 exKnown) exEvs).progress = .finished := by decide
/-- The hypothesis of `parallelism_iterating` / `parallelism_issue` is satisfiable. -/
example : (next (withConfig .predicate exCfg 0 exKnown) 0).2 = .waiting (some 3) := by decide
/-- The measure really decreases along the example (N = 8 ≥ number of ids involved). -/
example : potential 8 (runQ (withConfig .closest exCfg 0 exKnown) exEvs) <
    potential 8 (withConfig .closest exCfg 0 exKnown) := by decide

private def exPool : List PEv :=
  [.add .closest exCfg 0 exKnown, .add .predicate ⟨1, 1, 5⟩ 7 [(6, true)],
   .poll 0 [1, 0], .poll 0 [0, 1], .poll 0 [1, 0], .poll 0 [1, 0],
   .success 1 6 [], .poll 1 [1, 0], .success 1 6 [], .poll 2 [0], .poll 60 [0, 1], .poll 61 [0], .failure 0 3]

/-- Query 1 finishes, query 0 is cut off by the query timeout (50) — each handed back once. -/
example : returned (Pool.new 50) exPool = [1, 0] := by decide
example : NoWrap (Pool.new 50) exPool := by unfold NoWrap; decide
/-- The hypotheses of `poll_timeout_removes` are satisfiable: at time 60 query 0 (started at 0)
is past the timeout 50. -/
example : ∃ x, (runP (Pool.new 50) (exPool.take 10)).get 0 = some x ∧ TimedOut 50 60 x := by
  refine ⟨_, rfl, ?_⟩
  unfold TimedOut; decide

end Discv5.Query

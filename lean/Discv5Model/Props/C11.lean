/-
C11 — NODES responses are validated; honest peers are never banned.

Statements about `acceptNodes` (the two arms of the distance filter of `handle_rpc_response`),
the packet accounting `nodesAccount`, and the honest responder `sendNodesResponse` of
`Model/Service.lean`.  Helper lemmas: `Proofs/ServiceNodes.lean`.
-/
import Discv5Model.Model.Service
import Discv5Model.Model.KBucketSpec
import Discv5Model.Proofs.ServiceNodes

namespace Discv5.Props.C11
open Discv5.KB Discv5.Svc

/-- The log2 distance of a record from the responder, the responder's own record counting as 0. -/
def distOf (peer : Nat) (r : Rec) : Nat := (log2Distance peer r.id).getD 0

theorem log2Distance_pos (a b d : Nat) (h : log2Distance a b = some d) : 1 ≤ d := by
  unfold log2Distance at h
  by_cases hz : a ^^^ b = 0
  · simp [hz] at h
  · simp [hz] at h; omega

theorem distOf_zero_iff (peer : Nat) (r : Rec) : distOf peer r = 0 ↔ log2Distance peer r.id = none := by
  unfold distOf
  cases h : log2Distance peer r.id with
  | none => simp
  | some d => have := log2Distance_pos _ _ _ h; simp; omega

/-- **accept_exact.**  The records accepted from a NODES packet are exactly those whose log2
distance from the responder is one of the requested distances (own record = distance 0) — in both
arms of the filter. -/
theorem accept_exact (peer : Nat) (requested : List Nat) (recs : List Rec) :
    (acceptNodes peer requested recs).1 = recs.filter (fun r => requested.contains (distOf peer r)) := by
  unfold acceptNodes
  by_cases h : (requested.length == 1 && requested.head? == some 0) = true
  · rw [if_pos h]
    simp only [Bool.and_eq_true, beq_iff_eq] at h
    obtain ⟨hl, hh⟩ := h
    have hreq : requested = [0] := by
      match requested, hl, hh with
      | [x], _, hh => simp at hh; simp [hh]
    subst hreq
    apply List.filter_congr
    intro r _
    have := distOf_zero_iff peer r
    cases hd : log2Distance peer r.id with
    | none => simp [distOf, hd]
    | some d =>
      have hp := log2Distance_pos _ _ _ hd
      simp [distOf, hd]; omega
  · rw [if_neg h]
    apply List.filter_congr
    intro r _
    cases hd : log2Distance peer r.id <;> simp [distOf, hd]

theorem filter_length_lt {α : Type} (p : α → Bool) :
    ∀ l : List α, l.filter p ≠ l → (l.filter p).length < l.length
  | [], h => absurd rfl h
  | a :: l, h => by
    by_cases hp : p a = true
    · simp only [List.filter_cons, hp, if_true, ne_eq, List.cons.injEq, true_and, List.length_cons] at h ⊢
      have := filter_length_lt p l h
      omega
    · have := List.length_filter_le p l
      simp only [List.filter_cons, hp, List.length_cons]
      simp
      omega

/-- **off_distance_banned.**  If any record of the packet is not accepted, the responder is banned. -/
theorem off_distance_banned (peer : Nat) (requested : List Nat) (recs : List Rec)
    (h : (acceptNodes peer requested recs).1 ≠ recs) : (acceptNodes peer requested recs).2 = true := by
  unfold acceptNodes at h ⊢
  split
  · rename_i hc
    rw [if_pos hc] at h
    have := filter_length_lt _ _ h
    simp [this]
  · rename_i hc
    rw [if_neg hc] at h
    have := filter_length_lt _ _ h
    simp only [decide_eq_true_eq]
    exact this

/-- For an ENR-only request (`[0]`) more than one record is a ban as well. -/
theorem enr_request_many_banned (peer : Nat) (recs : List Rec) (h : 1 < recs.length) :
    (acceptNodes peer [0] recs).2 = true := by
  simp [acceptNodes, h]

/-- Values are filed under the node id they contain — the stored ones **and the pending one** of
every bucket (part of C12's table invariant `TablePolicy`, which covers both).

The pending clause is necessary: `nodes_by_distances` first applies the pending node of every
requested bucket, so a pending value filed under a foreign key would be promoted and served; with
the clause for stored nodes only, `honest_never_banned` is false (see `pending_clause_needed`
below for the concrete table). -/
def KeyedById (t : Table Rec) : Prop :=
  ∀ b ∈ t.buckets, (∀ n ∈ b.nodes, n.value.id = n.key) ∧
    (∀ p, b.pending = some p → p.node.value.id = p.node.key)

/-- **honest_never_banned.**  A responder that answers as `send_nodes_response` prescribes is never
banned and nothing it sends is dropped: for every requester id, every list of requested distances
(in particular `requestDistances target peer 3` for every target, and `[0]`), every table of the
responder satisfying the routing-table invariant, and every packet of the split. -/
theorem honest_never_banned (responder : Svc) (requester : Nat) (ds : List Nat)
    (hT : TInv responder.cfg.kb responder.table)
    (hL : responder.table.localKey = responder.localRec.id)
    (hK : KeyedById responder.table) :
    ∀ p ∈ (Svc.nodesPackets (responder.nodesToSend requester ds).2).1,
      acceptNodes responder.localRec.id ds p = (p, false) :=
  honest_packets_ok responder requester ds hT hL hK

/-- The same, phrased on the messages the responder emits. -/
theorem honest_never_banned_msgs (responder : Svc) (requester : Nat) (addr : Addr) (rid : Bytes)
    (ds : List Nat)
    (hT : TInv responder.cfg.kb responder.table)
    (hL : responder.table.localKey = responder.localRec.id)
    (hK : KeyedById responder.table) :
    ∀ total recs, Out.response requester addr rid (.nodes total recs) ∈
        (responder.sendNodesResponse requester addr rid ds).2 →
      acceptNodes responder.localRec.id ds recs = (recs, false) := by
  intro total recs hmem
  rw [sendNodesResponse_out, List.mem_map] at hmem
  obtain ⟨p, hp, he⟩ := hmem
  injection he with _ _ _ hb
  injection hb with _ hrecs
  rw [← hrecs]
  exact honest_packets_ok responder requester ds hT hL hK p hp

/-- In words of the property: whatever this node can request — the distances of a query towards
any `target` (`requestDistances target responder 3`) or an ENR update (`[0]`) — an honest answer is
kept whole and never bans.  (Instances of `honest_never_banned`, which holds for every list.) -/
theorem honest_never_banned_generated (responder : Svc) (requester target : Nat)
    (hT : TInv responder.cfg.kb responder.table)
    (hL : responder.table.localKey = responder.localRec.id)
    (hK : KeyedById responder.table) :
    (∀ p ∈ (Svc.nodesPackets (responder.nodesToSend requester
        (requestDistances target responder.localRec.id 3)).2).1,
      acceptNodes responder.localRec.id (requestDistances target responder.localRec.id 3) p
        = (p, false)) ∧
    (∀ p ∈ (Svc.nodesPackets (responder.nodesToSend requester [0]).2).1,
      acceptNodes responder.localRec.id [0] p = (p, false)) :=
  ⟨honest_never_banned responder requester _ hT hL hK,
   honest_never_banned responder requester _ hT hL hK⟩

/-- Packets of one request as the accounting sees them: `(total, kept records)`.  Number of
packets processed until the request completes. -/
def collected (maxN : Nat) : Option NodesResp → List (Nat × List Rec) → Nat
  | _, [] => 0
  | cur, (total, kept) :: rest =>
    match nodesAccount maxN total cur kept with
    | .wait nr => 1 + collected maxN (some nr) rest
    | .done _ => 1

theorem account_wait (maxN total : Nat) (cur : Option NodesResp) (kept : List Rec) (nr : NodesResp)
    (h : nodesAccount maxN total cur kept = .wait nr) :
    (cur.getD {}).count < 15 ∧ nr.count = (cur.getD {}).count + 1 := by
  unfold nodesAccount at h
  split at h
  · simp only at h
    split at h
    · rename_i hw
      simp only [Bool.and_eq_true, decide_eq_true_eq] at hw
      injection h with h
      subst h
      exact ⟨hw.2, rfl⟩
    · cases h
  · cases h

theorem collected_bound (maxN : Nat) (pkts : List (Nat × List Rec)) :
    ∀ cur : Option NodesResp, (cur.getD {}).count ≤ 15 →
      collected maxN cur pkts + (cur.getD {}).count ≤ 16 := by
  induction pkts with
  | nil => intro cur h2; simp [collected]; omega
  | cons p rest ih =>
    intro cur h2
    obtain ⟨total, kept⟩ := p
    cases hacc : nodesAccount maxN total cur kept with
    | wait nr =>
      have ⟨h15, hnr⟩ := account_wait _ _ _ _ _ hacc
      have := ih (some nr) (by simp; omega)
      simp only [collected, hacc, Option.getD_some] at this ⊢
      omega
    | done recs =>
      simp only [collected, hacc]
      omega

/-- **packets_bounded.**  Whatever totals (0 … 2^64−1 and beyond) the responder claims and whatever
it sends, at most 15 packets are collected for one request. -/
theorem packets_bounded (maxN : Nat) (pkts : List (Nat × List Rec)) : collected maxN none pkts ≤ 15 := by
  have := collected_bound maxN pkts none (by decide)
  simp at this
  have h1 : (({} : NodesResp).count) = 1 := rfl
  omega

/-- **after_completion_ignored.**  A response whose request id is not (or no longer) active is
ignored: the state is unchanged and nothing is emitted — no records, no ban. -/
theorem after_completion_ignored (s : Svc) (o : Oracle) (peer : Nat) (addr : Addr) (id : Nat)
    (body : RespBody) (h : ∀ a ∈ s.active, a.id ≠ id) :
    s.handleResponse o peer addr id body = (s, []) := by
  have hf : s.active.find? (fun a => a.id == id) = none := by
    rw [List.find?_eq_none]
    intro a ha
    simpa using h a ha
  unfold Svc.handleResponse Svc.removeActive
  simp [hf]

/-- Request ids are unique among the active requests (they are drawn from a counter). -/
def ActiveNodup (s : Svc) : Prop := (s.active.map (·.id)).Nodup

/-- Completion removes the request: when a NODES packet completes a request (the accounting says
`done`), its id is no longer active afterwards, so `after_completion_ignored` applies to every
later packet for it. -/
theorem completion_removes (s : Svc) (o : Oracle) (peer : Nat) (addr : Addr) (id total : Nat)
    (recs : List Rec) (req : ActiveReq) (hn : ActiveNodup s)
    (hreq : s.active.find? (fun a => a.id == id) = some req)
    (hdone : ∃ all, nodesAccount s.cfg.maxNodesResponse total
      (if total > 1 then (s.nodesResp.find? (fun p => p.1 == id)).map (·.2) else none)
      (acceptNodes peer (match req.body with | .findNode ds => ds | _ => []) recs).1 = .done all) :
    ∀ a ∈ (s.handleResponse o peer addr id (.nodes total recs)).1.active, a.id ≠ id := by
  obtain ⟨all, hdone⟩ := hdone
  have _ := hn
  have hreqd : (match req.body with | .findNode ds => ds | _ => []) = requestedOf req.body := by
    cases req.body <;> rfl
  rw [hreqd] at hdone
  rcases handleResponse_nodes_active s o peer addr id total recs req hreq with h | ⟨nr, h⟩
  · rw [h]
    intro a ha
    have := (List.mem_filter.1 ha).2
    simpa using this
  · rw [h] at hdone
    cases hdone

/-! ### Non-vacuity -/

/-- A record with the given node id. -/
def recOf (id : Nat) : Rec :=
  { id := id, seq := 1, udp4 := none, udp6 := none, udp6Mapped := false, size := 100, passesFilter := true }

/-- A `[1,2,0]` request (target adjacent to the responder) accepts the responder's own record, and
an off-distance record is a ban. -/
example : acceptNodes 5 [1, 2, 0] [recOf 5] = ([recOf 5], false) := by decide

example : (acceptNodes 5 [1, 2, 0] [recOf 13]).2 = true := by decide

example : requestDistances 4 5 3 = [1, 2, 0] := by decide

/-- A connected outgoing node filed under its own id. -/
def exNode (key : Nat) : Node Rec :=
  { key := key, value := recOf key, st := { conn := true, incoming := false } }

def exCfg : Svc.Cfg := { ipMode := .ip4, maxNodesResponse := 16, kb := kbCfg 10 60 }

/-- Responder with id 8 knowing the nodes 9 (distance 1, bucket 0) and 12 (distance 3, bucket 2). -/
def exTable : Table Rec :=
  ((Table.init 8).setBucket 0 { nodes := [exNode 9], fcp := some 0 }).setBucket 2
    { nodes := [exNode 12], fcp := some 0 }

def exResponder : Svc := { cfg := exCfg, localRec := recOf 8, table := exTable }

theorem exBucket_binv (c : KB.Cfg Rec) (tick key : Nat) :
    BInv c tick { nodes := [exNode key], fcp := some 0 } :=
  { len := by simp
    split := ⟨[], [exNode key], rfl, by simp, by simp [exNode], by simp, by simp, by simp⟩
    keysNodup := by simp
    pendingFresh := by simp
    incoming := by simp [exNode]
    stampsLe := by simp [exNode] }

theorem exTable_tinv (c : KB.Cfg Rec) : TInv c exTable := by
  unfold exTable
  refine TInv.setBucket (TInv.setBucket (init_tinv c 8) (exBucket_binv c _ 9) ?_)
    (exBucket_binv c _ 12) ?_
  · refine ⟨?_, by simp⟩
    simp only [List.mem_singleton, forall_eq]
    show bucketIndex 8 9 = some 0
    decide
  · refine ⟨?_, by simp⟩
    simp only [List.mem_singleton, forall_eq]
    show bucketIndex 8 12 = some 2
    decide

theorem exBucket_keyed (key : Nat) :
    BAll (fun k (v : Rec) => v.id = k) ({ nodes := [exNode key], fcp := some 0 } : Bucket Rec) := by
  refine ⟨?_, by simp⟩
  simp only [List.mem_singleton, forall_eq]
  rfl

theorem exTable_keyed : KeyedById exTable :=
  TAll.setBucket (TAll.setBucket (tall_init _ 8) (exBucket_keyed 9)) (exBucket_keyed 12)

/-- The hypotheses of `honest_never_banned` are satisfiable by a non-empty table. -/
example : ∀ p ∈ (Svc.nodesPackets (exResponder.nodesToSend 77 [2, 3, 1]).2).1,
    acceptNodes 8 [2, 3, 1] p = (p, false) :=
  honest_never_banned exResponder 77 [2, 3, 1] (exTable_tinv _) rfl exTable_keyed

/-- A query towards target 10 asks the responder 8 (distance 2) for `[d, d+1, d-1] = [2,3,1]`;
the honest answer carries both nodes in one packet, which is accepted without ban. -/
example : requestDistances 10 8 3 = [2, 3, 1] := by decide

example : Svc.nodesPackets (exResponder.nodesToSend 77 [2, 3, 1]).2 = ([[recOf 9, recOf 12]], 1) := by
  decide

example : acceptNodes 8 [2, 3, 1] [recOf 9, recOf 12] = ([recOf 9, recOf 12], false) := by decide

/-- A query towards the adjacent target 9 asks for `[1,2,0]`: the answer starts with the
responder's own record (distance 0), followed by node 9; accepted without ban.  The requester
itself (12 here, for `[2,3,1]`) is left out by the responder. -/
example : requestDistances 9 8 3 = [1, 2, 0] := by decide

example : Svc.nodesPackets (exResponder.nodesToSend 77 [1, 2, 0]).2 = ([[recOf 8, recOf 9]], 1) := by
  decide

example : acceptNodes 8 [1, 2, 0] [recOf 8, recOf 9] = ([recOf 8, recOf 9], false) := by decide

example : (exResponder.nodesToSend 12 [2, 3, 1]).2 = [recOf 9] := by decide

/-- An ENR request `[0]` is answered with exactly the own record; a second record would ban. -/
example : Svc.nodesPackets (exResponder.nodesToSend 77 [0]).2 = ([[recOf 8]], 1) := by decide

example : (acceptNodes 8 [0] [recOf 8, recOf 8]).2 = true := by decide

/-- Why `KeyedById` must cover the pending slot: bucket 0 of responder 8 holds no stored node but a
pending node with key 9 whose *value* carries id 3, and its timeout has elapsed.  All stored values
are (vacuously) filed under their ids, yet `nodes_by_distances [1]` promotes and serves the record
with id 3, whose distance from 8 is 4 — the requester bans. -/
def cexTable : Table Rec :=
  (Table.init 8).setBucket 0
    { nodes := [], fcp := none, pending := some ⟨{ key := 9, value := (recOf 3), st := ⟨true, false⟩ }, 0⟩ }

def cexResponder : Svc := { cfg := exCfg, localRec := recOf 8, table := cexTable, now := 100 }

theorem pending_clause_needed :
    (∀ b ∈ cexTable.buckets, ∀ n ∈ b.nodes, n.value.id = n.key) ∧
    (Svc.nodesPackets (cexResponder.nodesToSend 77 [1]).2).1 = [[recOf 3]] ∧
    (acceptNodes 8 [1] [recOf 3]).2 = true := by
  refine ⟨?_, by decide, by decide⟩
  intro b hb n hn
  have hb' : b ∈ (List.replicate numBuckets ({} : Bucket Rec)).set 0
      { nodes := [], fcp := none,
        pending := some ⟨{ key := 9, value := (recOf 3), st := ⟨true, false⟩ }, 0⟩ } := hb
  have hnodes : b.nodes = [] := by
    rcases List.mem_or_eq_of_mem_set hb' with h | h
    · rw [List.eq_of_mem_replicate h]
    · rw [h]
  rw [hnodes] at hn
  cases hn

end Discv5.Props.C11

/-
C17 at the level of the service — "External address is updated only by a clear majority … fewer
liars than the minimum can never move it; every such change increases the record's sequence number
… and is announced as an event."
Property theorems only (definitions and helper lemmas: `Proofs/ServiceVotes.lean`).

`Props/C17.lean` proves C17 for the IP-vote model (`IpVote.pongStep` on vote table + record);
`Model/Service.lean` models the whole service but takes the IP-vote sub-step of its PONG arm from
an `Oracle`.  Here the two are composed: `SvcVotes.oracleOf` is the oracle induced by an explicit
vote table, `SvcVotes.cstep` / `crun` run the service model under that oracle next to the table
(`CSt`), and the C17 theorems are transported to EVERY history of service inputs (sessions,
requests, responses of all kinds, failures, API calls, queries):

* simulation: `pong_step_is_pongStep`, `other_steps_keep_record`, `oracle_unread_elsewhere`;
* `record_changes_only_by_counted_pong`, `update_needs_majority` (one step, any state),
  `update_needs_latest_votes`, `ledger_votes_are_eligible` (all histories from start-up),
  `update_margin_exact` (all histories with clock readings that never go back);
* `few_liars`, `few_liars_inputs` (all histories from start-up);
* `seq_increases`, `seq_counts_events`.

All theorems hold for every threshold function `thr` (the code's is `IpVote.thrF64`, see
`update_margin_seventy_percent`), every hash-map visiting order (`Env.Valid`), every minimum,
every clock reading unless stated otherwise, and every `Env` (connectivity verdict, `set_udp_socket`
result, derived fields of the re-signed record).

Differences between the two models that the composition had to bridge (none is a disagreement on
what the code does; see the header of `Proofs/ServiceVotes.lean`):
(1) `ip_votes.is_none()` is `votes.isNone` in one model and `!cfg.enrUpdate` in the other
    → hypothesis `CSt.Coupled` (true at start-up, preserved by every step: `crun_coupled`);
(2) `require_more_ip_votes` prunes expired votes as a side effect: kept by the IP-vote model, a
    pure flag in the service model, and called a second time by `connection_updated` (failed
    insertion of an outgoing session) which only the service model has → the composed step prunes
    the table there too (`pruneAsk`), so "other steps leave the vote table unchanged" holds only up
    to dropping expired votes;
(3) the fields of the re-signed record the IP-vote model does not have (`size`, `sig`,
    `udp6Mapped`) are inputs (`Env`).
Not modelled by either model, hence outside these theorems: the connectivity timer
(`remove_udp_socket` / `remove_udp6_socket`) and the API calls `update_local_enr_socket` /
`enr_insert`, which write the local record without a vote.
-/
import Discv5Model.Proofs.ServiceVotes
import Discv5Model.Props.C17

namespace Discv5.Props.C17Service

open Discv5.Svc Discv5.Svc.Svc Discv5.SvcVotes
open Discv5.IpVote (Sock Pong pongStep countOf thrF64)

/-! ## The induced oracle and the simulation -/

/-- What the induced oracle is: `countable` is the connectivity state's verdict, `requireMore` is
`require_more_ip_votes` evaluated on the vote table (family of the reported socket), and
`newLocal` is present exactly when `pongStep` (run with the vote counted) emits `SocketUpdated`. -/
theorem induced_oracle (thr : Nat → Nat) (votes : Votes) (localRec : Rec) (dual : Bool) (e : Env)
    (peer : Nat) (observed : Addr) :
    (oracleOf thr votes localRec dual e peer observed).countable = e.countable ∧
    (oracleOf thr votes localRec dual e peer observed).requireMore =
      (IpVote.requireMore { votes := votes, enr := absRec localRec, dual := dual } e.tClear observed.v6).2 ∧
    ((oracleOf thr votes localRec dual e peer observed).newLocal = none ↔
      (pongStep thr { votes := votes, enr := absRec localRec, dual := dual }
        (pongOf e peer observed true)).2 = []) := by
  refine ⟨rfl, rfl, ?_⟩
  show Option.map _ (List.head? _) = none ↔ _
  cases (pongStep thr { votes := votes, enr := absRec localRec, dual := dual }
      (pongOf e peer observed true)).2 <;> simp

/-- **Simulation, PONG step.**  One step of the service model on a PONG response that reaches
`handle_ip_vote_from_pong` (`votePong = some p`), under the oracle induced by the vote table,
is exactly `IpVote.pongStep` on (vote table, local record's sockets and sequence number, dual
flag): same resulting abstraction, the record is the old one with `set_udp_socket` applied as
`pongStep`'s events say, the `SocketUpdated` events are exactly `pongStep`'s, the configuration is
kept. -/
theorem pong_step_is_pongStep (thr : Nat → Nat) (c : CSt) (hc : c.Coupled) (e : Env) (inp : Input)
    (p : Pong Nat) (h : votePong c.svc e inp = some p) :
    (cstep thr c e inp).1.abs = (pongStep thr c.abs p).1 ∧
    (cstep thr c e inp).1.svc.localRec = recAfter c.svc.localRec e (pongStep thr c.abs p).2 ∧
    sockEvs (cstep thr c e inp).2 = (pongStep thr c.abs p).2.map evAddr ∧
    (cstep thr c e inp).1.svc.cfg = c.svc.cfg :=
  cstep_pong thr c hc e inp p h

/-- `votePong = some p` means: the input is a PONG response to an active PING of that peer and
address without user callback, and `p` carries the PONG's data, the environment's readings and
the direction flag the service reads off its routing table. -/
theorem votePong_is_pong_response (s : Svc) (e : Env) (inp : Input) (p : Pong Nat)
    (h : votePong s e inp = some p) :
    ∃ peer addr id enrSeq observed, inp = .response peer addr id (.pong enrSeq observed) ∧
      reachesVote s peer addr id = true ∧ p = pongOf e peer observed (connOutOf s peer) :=
  votePong_some h

/-- **Simulation, every other step** (sessions, requests, NODES / TALK responses, PONGs that do
not reach the vote, failures, API calls, queries): the whole local record and the configuration
are untouched, no `SocketUpdated` is emitted, and the vote table is unchanged — except in an
`established` step whose table insertion fails for an outgoing session, where
`require_more_ip_votes` prunes the expired votes (`pruneAsk`), exactly as `IpVote.requireMore`. -/
theorem other_steps_keep_record (thr : Nat → Nat) (c : CSt) (e : Env) (inp : Input)
    (h : votePong c.svc e inp = none) :
    (cstep thr c e inp).1.svc.localRec = c.svc.localRec ∧
    (cstep thr c e inp).1.svc.cfg = c.svc.cfg ∧
    sockEvs (cstep thr c e inp).2 = [] ∧
    (pruneAsk c.svc inp = none → (cstep thr c e inp).1.votes = c.votes) ∧
    (∀ b, pruneAsk c.svc inp = some b →
      (cstep thr c e inp).1.votes = (IpVote.requireMore c.abs e.tClear b).1.votes) :=
  cstep_other thr c e inp h

/-- Outside the vote-reaching PONGs and the pruning `established` steps the service model does
not read its oracle at all (so nothing is hidden in the choice of oracle for those steps). -/
theorem oracle_unread_elsewhere (s : Svc) (e : Env) (inp : Input)
    (hv : votePong s e inp = none) (hp : pruneAsk s inp = none) (o o' : Oracle) :
    s.step o inp = s.step o' inp :=
  step_oracle_unread s e inp hv hp o o'

/-- The coupling `ip_votes.is_some() ↔ config.enr_update` holds along every history. -/
theorem coupled_along_history (thr : Nat → Nat) (c : CSt) (hc : c.Coupled) (steps : List (Env × Input)) :
    (crun thr c steps).1.Coupled :=
  crun_coupled thr steps c hc

/-! ## The record changes only in a counted PONG -/

/-- If a step changes anything in the local record, the step is a PONG response that reached
`handle_ip_vote_from_pong` and whose vote was eligible: admitted by the connectivity state, ENR
updates on, and the voter a connected outgoing table entry or `require_more_ip_votes` true for the
family of the reported socket. -/
theorem record_changes_only_by_counted_pong (thr : Nat → Nat) (c : CSt) (hc : c.Coupled) (e : Env)
    (inp : Input) (hne : (cstep thr c e inp).1.svc.localRec ≠ c.svc.localRec) :
    ∃ peer addr id enrSeq observed,
      inp = .response peer addr id (.pong enrSeq observed) ∧
      reachesVote c.svc peer addr id = true ∧ Eligible c e peer observed := by
  rcases cstep_shape thr c hc e inp with ⟨h1, _⟩ | ⟨p, a, hv, hm, _, _⟩ | ⟨p, a, hv, hm, _, _⟩
  · exact absurd h1 hne
  · obtain ⟨peer, addr, id, enrSeq, observed, rfl, hr, rfl⟩ := votePong_some hv
    exact ⟨peer, addr, id, enrSeq, observed, rfl, hr, counted_eligible hc e peer observed hm.counted⟩
  · obtain ⟨peer, addr, id, enrSeq, observed, rfl, hr, rfl⟩ := votePong_some hv
    exact ⟨peer, addr, id, enrSeq, observed, rfl, hr, counted_eligible hc e peer observed hm.counted⟩

/-- `update_needs_majority` at service level, one step from ANY (coupled) state.  If a step
changes the record's IPv4 (IPv6) UDP socket, the new value `a` is, at the clock reading of
`majority()`, a clear majority of the IPv4 (IPv6) vote table `v'` the step leaves: at least
`v'.minimum` entries for `a`, every rival strictly below `thr (count a)`, all entries of the table
unexpired; the step was a PONG reporting a socket of that family; the new record is the old one
with `set_udp_socket a` applied (the other family's socket is kept); `seq` grew by exactly one;
exactly the event `SocketUpdated(a)` was emitted. -/
theorem update_needs_majority (thr : Nat → Nat) (c : CSt) (hc : c.Coupled) (e : Env) (inp : Input) :
    ((cstep thr c e inp).1.svc.localRec.udp4 ≠ c.svc.localRec.udp4 →
      ∃ a v' peer addr id enrSeq observed,
        inp = .response peer addr id (.pong enrSeq observed) ∧ observed.v6 = false ∧
        (cstep thr c e inp).1.svc.localRec.udp4 = some a ∧ (cstep thr c e inp).1.votes = some v' ∧
        v'.minimum ≤ countOf e.tMaj v'.v4 a ∧
        (∀ b, b ≠ a → countOf e.tMaj v'.v4 b < thr (countOf e.tMaj v'.v4 a)) ∧
        (∀ en, en ∈ v'.v4 → e.tMaj < en.expiry) ∧
        (cstep thr c e inp).1.svc.localRec = setSocket c.svc.localRec e (.v4 a) ∧
        (cstep thr c e inp).1.svc.localRec.udp6 = c.svc.localRec.udp6 ∧
        (cstep thr c e inp).1.svc.localRec.seq = c.svc.localRec.seq + 1 ∧
        sockEvs (cstep thr c e inp).2 = [{ v6 := false, sock := a }]) ∧
    ((cstep thr c e inp).1.svc.localRec.udp6 ≠ c.svc.localRec.udp6 →
      ∃ a v' peer addr id enrSeq observed,
        inp = .response peer addr id (.pong enrSeq observed) ∧ observed.v6 = true ∧
        (cstep thr c e inp).1.svc.localRec.udp6 = some a ∧ (cstep thr c e inp).1.votes = some v' ∧
        v'.minimum ≤ countOf e.tMaj v'.v6 a ∧
        (∀ b, b ≠ a → countOf e.tMaj v'.v6 b < thr (countOf e.tMaj v'.v6 a)) ∧
        (∀ en, en ∈ v'.v6 → e.tMaj < en.expiry) ∧
        (cstep thr c e inp).1.svc.localRec = setSocket c.svc.localRec e (.v6 a) ∧
        (cstep thr c e inp).1.svc.localRec.udp4 = c.svc.localRec.udp4 ∧
        (cstep thr c e inp).1.svc.localRec.seq = c.svc.localRec.seq + 1 ∧
        sockEvs (cstep thr c e inp).2 = [{ v6 := true, sock := a }]) := by
  constructor
  · intro hne
    rcases cstep_shape thr c hc e inp with ⟨h1, _⟩ | ⟨p, a, hv, hm, hloc, hev⟩ | ⟨p, a, hv, hm, hloc, hev⟩
    · rw [h1] at hne; exact absurd rfl hne
    · obtain ⟨habs, _, _, _⟩ := cstep_pong thr c hc e inp p hv
      obtain ⟨peer, addr, id, enrSeq, observed, rfl, hr, rfl⟩ := votePong_some hv
      obtain ⟨v', hv', hcm, hlive⟩ := hm.votes
      obtain ⟨x, hx⟩ := hm.fam
      have hfam : observed.v6 = false := by
        have := congrArg Sock.isV6 hx
        rw [show (pongOf e peer observed (connOutOf c.svc peer)).sock = sockOf observed from rfl,
          sockOf_isV6] at this
        exact this
      refine ⟨a, v', peer, addr, id, enrSeq, observed, rfl, hfam, by rw [hloc]; rfl, ?_, hcm.1, hcm.2.2,
        hlive, hloc, by rw [hloc]; rfl, by rw [hloc]; rfl, hev⟩
      have : (cstep thr c e _).1.votes = (pongStep thr c.abs _).1.votes := congrArg IpVote.Svc.votes habs
      rw [this]; exact hv'
    · rw [hloc] at hne; exact absurd rfl hne
  · intro hne
    rcases cstep_shape thr c hc e inp with ⟨h1, _⟩ | ⟨p, a, hv, hm, hloc, hev⟩ | ⟨p, a, hv, hm, hloc, hev⟩
    · rw [h1] at hne; exact absurd rfl hne
    · rw [hloc] at hne; exact absurd rfl hne
    · obtain ⟨habs, _, _, _⟩ := cstep_pong thr c hc e inp p hv
      obtain ⟨peer, addr, id, enrSeq, observed, rfl, hr, rfl⟩ := votePong_some hv
      obtain ⟨v', hv', hcm, hlive⟩ := hm.votes
      obtain ⟨x, hx⟩ := hm.fam
      have hfam : observed.v6 = true := by
        have := congrArg Sock.isV6 hx
        rw [show (pongOf e peer observed (connOutOf c.svc peer)).sock = sockOf observed from rfl,
          sockOf_isV6] at this
        exact this
      refine ⟨a, v', peer, addr, id, enrSeq, observed, rfl, hfam, by rw [hloc]; rfl, ?_, hcm.1, hcm.2.2,
        hlive, hloc, by rw [hloc]; rfl, by rw [hloc]; rfl, hev⟩
      have : (cstep thr c e _).1.votes = (pongStep thr c.abs _).1.votes := congrArg IpVote.Svc.votes habs
      rw [this]; exact hv'

/-- The margin of the code is 30 %: with the threshold the code computes (`thrF64`, the bit-exact
mirror of `((n as f64) * (1.0 - 0.3)).round()`), a step that moves the IPv4 (IPv6) socket to `a`
leaves every rival `b` with `10 · count b + 5 ≤ 7 · count a` (counts below 2^49). -/
theorem update_margin_seventy_percent (c : CSt) (hc : c.Coupled) (e : Env) (inp : Input) :
    ((cstep thrF64 c e inp).1.svc.localRec.udp4 ≠ c.svc.localRec.udp4 →
      ∃ a v', (cstep thrF64 c e inp).1.svc.localRec.udp4 = some a ∧
        (cstep thrF64 c e inp).1.votes = some v' ∧
        (countOf e.tMaj v'.v4 a < 2 ^ 49 →
          ∀ b, b ≠ a → 10 * countOf e.tMaj v'.v4 b + 5 ≤ 7 * countOf e.tMaj v'.v4 a)) ∧
    ((cstep thrF64 c e inp).1.svc.localRec.udp6 ≠ c.svc.localRec.udp6 →
      ∃ a v', (cstep thrF64 c e inp).1.svc.localRec.udp6 = some a ∧
        (cstep thrF64 c e inp).1.votes = some v' ∧
        (countOf e.tMaj v'.v6 a < 2 ^ 49 →
          ∀ b, b ≠ a → 10 * countOf e.tMaj v'.v6 b + 5 ≤ 7 * countOf e.tMaj v'.v6 a)) := by
  constructor
  · intro hne
    obtain ⟨a, v', _, _, _, _, _, _, _, h1, h2, _, h4, _⟩ := (update_needs_majority thrF64 c hc e inp).1 hne
    refine ⟨a, v', h1, h2, ?_⟩
    intro hlt b hb
    have := h4 b hb
    have := (IpVote.threshold_is_seventy_percent _ hlt).2
    omega
  · intro hne
    obtain ⟨a, v', _, _, _, _, _, _, _, h1, h2, _, h4, _⟩ := (update_needs_majority thrF64 c hc e inp).2 hne
    refine ⟨a, v', h1, h2, ?_⟩
    intro hlt b hb
    have := h4 b hb
    have := (IpVote.threshold_is_seventy_percent _ hlt).2
    omega

/-! ## Histories from start-up: the voters behind a change -/

/-- Every entry of the ledger of counted votes of a history (`ledgerOf`, newest first) is the vote
of a PONG response of that history — voter = the responding peer, socket = the one it reported —
which reached `handle_ip_vote_from_pong` and was eligible in the state it met. -/
theorem ledger_votes_are_eligible (thr : Nat → Nat) (c0 : CSt) (hc : c0.Coupled)
    (steps : List (Env × Input)) (cst : Cast Nat) (h : cst ∈ ledgerOf thr c0 steps) :
    ∃ pre e peer addr id enrSeq observed post,
      steps = pre ++ (e, Input.response peer addr id (.pong enrSeq observed)) :: post ∧
      cst.voter = peer ∧ cst.sock = sockOf observed ∧
      reachesVote (crun thr c0 pre).1.svc peer addr id = true ∧
      Eligible (crun thr c0 pre).1 e peer observed :=
  ledger_cast_eligible thr steps c0 hc cst h

/-- `update_needs_majority` over histories.  Start the service with an empty vote table of
configured minimum `minimum`, run ANY history `pre` of service inputs and then one more step.
If that step changes the record's IPv4 (IPv6) socket, the new socket `a` is the latest counted
(i.e. eligible, `ledger_votes_are_eligible`) IPv4 (IPv6) vote, unexpired at that moment, of at
least `minimum` DISTINCT voters: there is a duplicate-free list `voters` of length ≥ `minimum`
such that for each of them the newest ledger entry of that voter and family is a vote for `a` that
expires after the clock reading of `majority()`; and every rival's tally in the table is below
`thr` of their number. -/
theorem update_needs_latest_votes (thr : Nat → Nat) (minimum : Nat) (c0 : CSt) (hfresh : c0.Fresh minimum)
    (pre : List (Env × Input)) (e : Env) (inp : Input)
    (hvalid : ∀ x, x ∈ pre ++ [(e, inp)] → x.1.Valid) :
    ((cstep thr (crun thr c0 pre).1 e inp).1.svc.localRec.udp4 ≠ (crun thr c0 pre).1.svc.localRec.udp4 →
      ∃ a v', ∃ voters : List Nat, (cstep thr (crun thr c0 pre).1 e inp).1.svc.localRec.udp4 = some a ∧
        (cstep thr (crun thr c0 pre).1 e inp).1.votes = some v' ∧
        voters.Nodup ∧ minimum ≤ voters.length ∧
        (∀ x, x ∈ voters → VotesFor (ledgerOf thr c0 (pre ++ [(e, inp)])) false e.tMaj x (.v4 a)) ∧
        voters.length = countOf e.tMaj v'.v4 a ∧
        (∀ b, b ≠ a → countOf e.tMaj v'.v4 b < thr voters.length)) ∧
    ((cstep thr (crun thr c0 pre).1 e inp).1.svc.localRec.udp6 ≠ (crun thr c0 pre).1.svc.localRec.udp6 →
      ∃ a v', ∃ voters : List Nat, (cstep thr (crun thr c0 pre).1 e inp).1.svc.localRec.udp6 = some a ∧
        (cstep thr (crun thr c0 pre).1 e inp).1.votes = some v' ∧
        voters.Nodup ∧ minimum ≤ voters.length ∧
        (∀ x, x ∈ voters → VotesFor (ledgerOf thr c0 (pre ++ [(e, inp)])) true e.tMaj x (.v6 a)) ∧
        voters.length = countOf e.tMaj v'.v6 a ∧
        (∀ b, b ≠ a → countOf e.tMaj v'.v6 b < thr voters.length)) := by
  have hinv := crun_inv thr minimum pre [] [] c0 (fresh_inv hfresh)
    (fun x hx => hvalid x (List.mem_append.2 (Or.inl hx)))
  have he : e.Valid := hvalid (e, inp) (List.mem_append.2 (Or.inr (List.mem_singleton.2 rfl)))
  have hL : ledgerOf thr c0 (pre ++ [(e, inp)]) =
      (stepCast (crun thr c0 pre).1 e inp).toList ++ (ledgerOf thr c0 pre ++ []) := by
    rw [ledgerOf_append]; simp [ledgerOf]
  rw [hL]
  constructor
  · intro hne
    rcases cstep_shape thr _ hinv.coupled e inp with ⟨h1, _⟩ | ⟨p, a, hv, hm, hloc, _⟩ | ⟨p, a, hv, hm, hloc, _⟩
    · rw [h1] at hne; exact absurd rfl hne
    · obtain ⟨v', h1, _, h3, h4, h5, h6, h7⟩ := cstep_move4_voters thr hinv e he inp p a hv hm
      exact ⟨a, v', _, by rw [hloc]; rfl, h1, h3, h5, h6, h4, h7⟩
    · rw [hloc] at hne; exact absurd rfl hne
  · intro hne
    rcases cstep_shape thr _ hinv.coupled e inp with ⟨h1, _⟩ | ⟨p, a, hv, hm, hloc, _⟩ | ⟨p, a, hv, hm, hloc, _⟩
    · rw [h1] at hne; exact absurd rfl hne
    · rw [hloc] at hne; exact absurd rfl hne
    · obtain ⟨v', h1, _, h3, h4, h5, h6, h7⟩ := cstep_move6_voters thr hinv e he inp p a hv hm
      exact ⟨a, v', _, by rw [hloc]; rfl, h1, h3, h5, h6, h4, h7⟩

/-- `update_needs_majority`, exact form, for histories whose clock readings never go back
(`MonoFrom`; `Instant` is monotone).  In addition to `update_needs_latest_votes`: `voters` is
EXACTLY the set of peers whose latest counted vote of the family is `a` and unexpired, and the
margin holds against every rival in the same terms — any duplicate-free list of peers whose
latest counted vote of the family is `b ≠ a` and unexpired is shorter than `thr voters.length`. -/
theorem update_margin_exact (thr : Nat → Nat) (minimum : Nat) (c0 : CSt) (hfresh : c0.Fresh minimum)
    (pre : List (Env × Input)) (e : Env) (inp : Input)
    (hvalid : ∀ x, x ∈ pre ++ [(e, inp)] → x.1.Valid) (T0 : Nat)
    (hmono : MonoFrom T0 (pre ++ [(e, inp)])) :
    ((cstep thr (crun thr c0 pre).1 e inp).1.svc.localRec.udp4 ≠ (crun thr c0 pre).1.svc.localRec.udp4 →
      ∃ a, ∃ voters : List Nat, (cstep thr (crun thr c0 pre).1 e inp).1.svc.localRec.udp4 = some a ∧
        voters.Nodup ∧ minimum ≤ voters.length ∧
        (∀ x, x ∈ voters ↔ VotesFor (ledgerOf thr c0 (pre ++ [(e, inp)])) false e.tMaj x (.v4 a)) ∧
        (∀ b (ws : List Nat), b ≠ a → ws.Nodup →
          (∀ x, x ∈ ws → VotesFor (ledgerOf thr c0 (pre ++ [(e, inp)])) false e.tMaj x (.v4 b)) →
          ws.length < thr voters.length)) ∧
    ((cstep thr (crun thr c0 pre).1 e inp).1.svc.localRec.udp6 ≠ (crun thr c0 pre).1.svc.localRec.udp6 →
      ∃ a, ∃ voters : List Nat, (cstep thr (crun thr c0 pre).1 e inp).1.svc.localRec.udp6 = some a ∧
        voters.Nodup ∧ minimum ≤ voters.length ∧
        (∀ x, x ∈ voters ↔ VotesFor (ledgerOf thr c0 (pre ++ [(e, inp)])) true e.tMaj x (.v6 a)) ∧
        (∀ b (ws : List Nat), b ≠ a → ws.Nodup →
          (∀ x, x ∈ ws → VotesFor (ledgerOf thr c0 (pre ++ [(e, inp)])) true e.tMaj x (.v6 b)) →
          ws.length < thr voters.length)) := by
  have hvpre : ∀ x, x ∈ pre → x.1.Valid := fun x hx => hvalid x (List.mem_append.2 (Or.inl hx))
  have hinv := crun_inv thr minimum pre [] [] c0 (fresh_inv hfresh) hvpre
  have he : e.Valid := hvalid (e, inp) (List.mem_append.2 (Or.inr (List.mem_singleton.2 rfl)))
  obtain ⟨hm1, hm2⟩ := monoFrom_append hmono
  have hcomp := crun_comp thr pre T0 [] c0 hfresh.1 (comp_nil c0 T0) hvpre hm1
  obtain ⟨m1, m2, m3, _⟩ := hm2
  have hL : ledgerOf thr c0 (pre ++ [(e, inp)]) =
      (stepCast (crun thr c0 pre).1 e inp).toList ++ (ledgerOf thr c0 pre ++ []) := by
    rw [ledgerOf_append]; simp [ledgerOf]
  rw [hL]
  constructor
  · intro hne
    rcases cstep_shape thr _ hinv.coupled e inp with ⟨h1, _⟩ | ⟨p, a, hv, hm, hloc, _⟩ | ⟨p, a, hv, hm, hloc, _⟩
    · rw [h1] at hne; exact absurd rfl hne
    · obtain ⟨v', h1, _, h3, h4, h5, h6, h7⟩ := cstep_move4_voters thr hinv e he inp p a hv hm
      obtain ⟨x1, x2, _, _⟩ := cstep_move_exact thr hinv.coupled hcomp e he m1 m2 m3 inp v' h1
      refine ⟨a, _, by rw [hloc]; rfl, h3, h5, fun x => ⟨h6 x, x1 a x⟩, ?_⟩
      intro b ws hb hnd hws
      exact Nat.lt_of_le_of_lt (x2 b ws hnd hws) (h7 b hb)
    · rw [hloc] at hne; exact absurd rfl hne
  · intro hne
    rcases cstep_shape thr _ hinv.coupled e inp with ⟨h1, _⟩ | ⟨p, a, hv, hm, hloc, _⟩ | ⟨p, a, hv, hm, hloc, _⟩
    · rw [h1] at hne; exact absurd rfl hne
    · rw [hloc] at hne; exact absurd rfl hne
    · obtain ⟨v', h1, _, h3, h4, h5, h6, h7⟩ := cstep_move6_voters thr hinv e he inp p a hv hm
      obtain ⟨_, _, x1, x2⟩ := cstep_move_exact thr hinv.coupled hcomp e he m1 m2 m3 inp v' h1
      refine ⟨a, _, by rw [hloc]; rfl, h3, h5, fun x => ⟨h6 x, x1 a x⟩, ?_⟩
      intro b ws hb hnd hws
      exact Nat.lt_of_le_of_lt (x2 b ws hnd hws) (h7 b hb)

/-! ## Fewer liars than the minimum -/

/-- `few_liars` at service level.  Start the service with an empty vote table of configured
minimum `minimum` and run ANY history of service inputs (any environment, clocks, visiting orders,
`thr`).  If all the peers whose PONGs for the IPv4 (IPv6) socket `a` reached the vote path fit in
a list `liars` shorter than `minimum`, then the record's IPv4 (IPv6) socket is `a` after the
history only if it was `a` before: fewer liars than the minimum never move the record to their
address (the statement applies to every prefix of the history). -/
theorem few_liars (thr : Nat → Nat) (minimum : Nat) (c0 : CSt) (hfresh : c0.Fresh minimum)
    (steps : List (Env × Input)) (hvalid : ∀ x, x ∈ steps → x.1.Valid) (a : Nat) (liars : List Nat)
    (hfew : liars.length < minimum) :
    ((∀ q, q ∈ pongsOf thr c0 steps → q.sock = Sock.v4 a → q.voter ∈ liars) →
      (crun thr c0 steps).1.svc.localRec.udp4 = some a → c0.svc.localRec.udp4 = some a) ∧
    ((∀ q, q ∈ pongsOf thr c0 steps → q.sock = Sock.v6 a → q.voter ∈ liars) →
      (crun thr c0 steps).1.svc.localRec.udp6 = some a → c0.svc.localRec.udp6 = some a) := by
  constructor
  · intro hl
    exact crun_few_liars4 thr minimum a liars hfew steps [] [] c0 (fresh_inv hfresh) hvalid
      (by simpa using hl)
  · intro hl
    exact crun_few_liars6 thr minimum a liars hfew steps [] [] c0 (fresh_inv hfresh) hvalid
      (by simpa using hl)

/-- `few_liars` in terms of the raw inputs: if every PONG response of the history that reports
the socket `a` comes from a peer in `liars`, and `liars` is shorter than `minimum`, the history
does not move the record to `a`. -/
theorem few_liars_inputs (thr : Nat → Nat) (minimum : Nat) (c0 : CSt) (hfresh : c0.Fresh minimum)
    (steps : List (Env × Input)) (hvalid : ∀ x, x ∈ steps → x.1.Valid) (a : Addr) (liars : List Nat)
    (hfew : liars.length < minimum)
    (hl : ∀ e peer addr id enrSeq,
      (e, Input.response peer addr id (.pong enrSeq a)) ∈ steps → peer ∈ liars) :
    (a.v6 = false → (crun thr c0 steps).1.svc.localRec.udp4 = some a.sock →
      c0.svc.localRec.udp4 = some a.sock) ∧
    (a.v6 = true → (crun thr c0 steps).1.svc.localRec.udp6 = some a.sock →
      c0.svc.localRec.udp6 = some a.sock) := by
  have key : ∀ q, q ∈ pongsOf thr c0 steps → q.sock = sockOf a → q.voter ∈ liars := by
    intro q hq hs
    obtain ⟨e, peer, addr, id, enrSeq, observed, hm, h1, h2⟩ := pongsOf_mem thr steps c0 q hq
    have : observed = a := by
      have := congrArg addrOf (h2.symm.trans hs)
      rwa [addrOf_sockOf, addrOf_sockOf] at this
    subst this
    rw [h1]; exact hl e peer addr id enrSeq hm
  constructor
  · intro hv
    have hs : sockOf a = Sock.v4 a.sock := by unfold sockOf; rw [hv]; rfl
    exact (few_liars thr minimum c0 hfresh steps hvalid a.sock liars hfew).1
      (fun q hq h => key q hq (by rw [hs]; exact h))
  · intro hv
    have hs : sockOf a = Sock.v6 a.sock := by unfold sockOf; rw [hv]; rfl
    exact (few_liars thr minimum c0 hfresh steps hvalid a.sock liars hfew).2
      (fun q hq h => key q hq (by rw [hs]; exact h))

/-! ## Sequence number and event -/

/-- `seq_increases` at service level.  Every step either leaves the whole local record untouched
and emits no `SocketUpdated`, or changes exactly one UDP socket to a new value, increases the
record's sequence number by exactly one and emits exactly one `SocketUpdated` event, carrying the
new socket. -/
theorem seq_increases (thr : Nat → Nat) (c : CSt) (hc : c.Coupled) (e : Env) (inp : Input) :
    ((cstep thr c e inp).1.svc.localRec = c.svc.localRec ∧ sockEvs (cstep thr c e inp).2 = []) ∨
    (c.svc.localRec.seq < (cstep thr c e inp).1.svc.localRec.seq ∧
      (cstep thr c e inp).1.svc.localRec.seq = c.svc.localRec.seq + 1 ∧
      ((∃ a, sockEvs (cstep thr c e inp).2 = [{ v6 := false, sock := a }] ∧
          (cstep thr c e inp).1.svc.localRec.udp4 = some a ∧ c.svc.localRec.udp4 ≠ some a ∧
          (cstep thr c e inp).1.svc.localRec.udp6 = c.svc.localRec.udp6) ∨
       (∃ a, sockEvs (cstep thr c e inp).2 = [{ v6 := true, sock := a }] ∧
          (cstep thr c e inp).1.svc.localRec.udp6 = some a ∧ c.svc.localRec.udp6 ≠ some a ∧
          (cstep thr c e inp).1.svc.localRec.udp4 = c.svc.localRec.udp4))) := by
  rcases cstep_shape thr c hc e inp with h | ⟨p, a, _, hm, hloc, hev⟩ | ⟨p, a, _, hm, hloc, hev⟩
  · exact Or.inl h
  · right
    refine ⟨by rw [hloc]; exact Nat.lt_succ_self _, by rw [hloc]; rfl,
      Or.inl ⟨a, hev, by rw [hloc]; rfl, hm.old, by rw [hloc]; rfl⟩⟩
  · right
    refine ⟨by rw [hloc]; exact Nat.lt_succ_self _, by rw [hloc]; rfl,
      Or.inr ⟨a, hev, by rw [hloc]; rfl, hm.old, by rw [hloc]; rfl⟩⟩

/-- Along every history of service inputs the record's sequence number has grown by exactly the
number of `SocketUpdated` events emitted: every change is announced and increments the sequence
number, and nothing else in the service model does. -/
theorem seq_counts_events (thr : Nat → Nat) (c : CSt) (hc : c.Coupled) (steps : List (Env × Input)) :
    (crun thr c steps).1.svc.localRec.seq =
      c.svc.localRec.seq + (sockEvs (crun thr c steps).2).length :=
  crun_seq thr steps c hc

/-! ## Non-vacuity

Local node 0; peers `i` with record `exPeer i` reachable at `exPeerAddr i`; vote table with minimum
2 and a vote life of 100 ticks; the hash maps are visited in reverse order; `thr = thrF64`. -/

def exCfg (m : IpMode) : Svc.Cfg := { ipMode := m, maxNodesResponse := 16, enrUpdate := true, kb := kbCfg 8 60 }

def exLocal : Rec :=
  { id := 0, seq := 1, udp4 := none, udp6 := none, udp6Mapped := false, size := 100, passesFilter := true }

def exPeer (i : Nat) : Rec :=
  { id := i, seq := 1, udp4 := some (i * 65536 + 9000), udp6 := none, udp6Mapped := false, size := 120,
    passesFilter := true }

def exPeerAddr (i : Nat) : Addr := { v6 := false, sock := i * 65536 + 9000 }

/-- start-up: empty routing table, empty vote table with minimum 2, votes valid for 100 ticks -/
def ex0 (m : IpMode) : CSt := { svc := Svc.init (exCfg m) exLocal, votes := IpVote.IpVote.new? 2 100 }

def exEnv (t : Nat) : Env :=
  { tClear := t, tIns := t, tMaj := t, sh4 := List.reverse, sh6 := id, newSize := 110, newSig := t }

def extA : Addr := { v6 := false, sock := 7 * 65536 + 30303 }
def extB : Addr := { v6 := false, sock := 8 * 65536 + 30303 }

def exSessions (incoming : Bool) : List (Env × Input) :=
  [(exEnv 0, .established (exPeer 1) (exPeerAddr 1) incoming),
   (exEnv 0, .established (exPeer 2) (exPeerAddr 2) incoming),
   (exEnv 0, .established (exPeer 3) (exPeerAddr 3) incoming)]

def exPongs (a1 a2 a3 : Addr) : List (Env × Input) :=
  [(exEnv 1, .response 1 (exPeerAddr 1) 1 (.pong 1 a1)),
   (exEnv 2, .response 2 (exPeerAddr 2) 2 (.pong 1 a2)),
   (exEnv 3, .response 3 (exPeerAddr 3) 3 (.pong 1 a3))]

def exAgree : List (Env × Input) := exSessions false ++ exPongs extA extA extA

/-- The start-up state satisfies the hypothesis `Fresh 2` of the history theorems. -/
theorem ex0_fresh (m : IpMode) : (ex0 m).Fresh 2 := by
  refine ⟨rfl, ?_⟩
  intro v hv
  have : (IpVote.IpVote.new? 2 100 : Option (IpVote.IpVote Nat)) = some v := hv
  simp only [IpVote.IpVote.new?] at this
  cases this
  exact ⟨rfl, rfl, rfl⟩

/-- `List.reverse` and `id` are visiting orders. -/
theorem exEnv_valid (t : Nat) : (exEnv t).Valid :=
  ⟨fun l => List.reverse_perm l, fun l => List.Perm.refl l⟩

/-- Three outgoing sessions (each PINGed on insertion, requests 1, 2, 3), then the three PONGs, all
reporting `extA`: the record is untouched by the sessions; after the PONGs its IPv4 socket is
`extA`, `seq` went 1 → 2 (re-signed record: size 110, digest of the second PONG's step), exactly
one `SocketUpdated(extA)` was emitted; all three PONGs reached the vote as connected-outgoing
voters and are in the ledger with their expiries. -/
example : (crun thrF64 (ex0 .ip4) (exSessions false)).1.svc.localRec = exLocal ∧
    (crun thrF64 (ex0 .ip4) exAgree).1.svc.localRec =
      { exLocal with udp4 := some extA.sock, seq := 2, size := 110, sig := 2 } ∧
    sockEvs (crun thrF64 (ex0 .ip4) exAgree).2 = [extA] ∧
    (pongsOf thrF64 (ex0 .ip4) exAgree).map (fun q => (q.voter, q.connOut)) = [(1, true), (2, true), (3, true)] ∧
    (ledgerOf thrF64 (ex0 .ip4) exAgree).map (fun c => (c.voter, addrOf c.sock, c.expiry)) =
      [(3, extA, 103), (2, extA, 102), (1, extA, 101)] := by
  decide +kernel

/-- `exAgree` satisfies the remaining hypotheses of the history theorems: monotone clocks, valid
visiting orders. -/
example : MonoFrom 0 exAgree := by
  simp [exAgree, exSessions, exPongs, MonoFrom, exEnv]
example : ∀ x, x ∈ exAgree → x.1.Valid := by
  intro x hx
  simp only [exAgree, exSessions, exPongs, List.cons_append, List.nil_append, List.mem_cons, List.not_mem_nil, or_false] at hx
  rcases hx with rfl | rfl | rfl | rfl | rfl | rfl <;> exact exEnv_valid _

/-- The same sessions, then two PONGs that disagree (`extA` from peer 1, `extB` from peer 2). -/
def exDisagree : List (Env × Input) := exSessions false ++ (exPongs extA extB extA).take 2

/-- Two voters that disagree change nothing: both votes are counted (ledger), neither address
reaches the minimum, the record and its sequence number stay, no event. -/
example : (crun thrF64 (ex0 .ip4) exDisagree).1.svc.localRec = exLocal ∧
    sockEvs (crun thrF64 (ex0 .ip4) exDisagree).2 = [] ∧
    (ledgerOf thrF64 (ex0 .ip4) exDisagree).map (fun c => (c.voter, addrOf c.sock, c.expiry)) =
      [(2, extB, 102), (1, extA, 101)] := by
  decide +kernel

/-- The step at which the record changes in `exAgree` is its fifth (the second PONG): the
hypothesis of `update_needs_majority` / `update_needs_latest_votes` / `update_margin_exact` holds
there. -/
example :
    (cstep thrF64 (crun thrF64 (ex0 .ip4) (exAgree.take 4)).1 (exEnv 2)
        (.response 2 (exPeerAddr 2) 2 (.pong 1 extA))).1.svc.localRec.udp4 ≠
      (crun thrF64 (ex0 .ip4) (exAgree.take 4)).1.svc.localRec.udp4 := by
  decide +kernel

example : exAgree.take 4 ++ [(exEnv 2, .response 2 (exPeerAddr 2) 2 (.pong 1 extA))] = exAgree.take 5 := rfl

/-- Sixteen outgoing sessions with peers 32 … 47 fill bucket 5 of the local node 0; the outgoing
sessions with peers 48 and 49 are then refused by the routing table. -/
def exFull : List (Env × Input) :=
  (List.range 18).map fun i => (exEnv 0, Input.established (exPeer (32 + i)) (exPeerAddr (32 + i)) false)

def exFullPongs : List (Env × Input) :=
  [(exEnv 1, .response 48 (exPeerAddr 48) 17 (.pong 1 extA)),
   (exEnv 2, .response 49 (exPeerAddr 49) 18 (.pong 1 extA))]

/-- Eligibility through `require_more_ip_votes` (dual-stack mode), both call sites.  The refused
outgoing sessions reach the call in `connection_updated` (`pruneAsk`), the induced oracle says
"more votes needed" (the table is below the minimum), so the peers are PINGed although they are
not in the table (requests 17, 18); their PONGs are counted although the voters are not connected
outgoing table entries (`connOut = false`), again through the induced `requireMore`; the second
one moves the record.  In IPv4-only mode the same inputs leave the record alone. -/
example :
    pruneAsk (crun thrF64 (ex0 .dual) (exFull.take 16)).1.svc
        (.established (exPeer 48) (exPeerAddr 48) false) = some false ∧
    pruneAsk (ex0 .dual).svc (.established (exPeer 32) (exPeerAddr 32) false) = none ∧
    (pongsOf thrF64 (ex0 .dual) (exFull ++ exFullPongs)).map (fun q => (q.voter, q.connOut)) =
      [(48, false), (49, false)] ∧
    (ledgerOf thrF64 (ex0 .dual) (exFull ++ exFullPongs)).map (fun c => (c.voter, addrOf c.sock, c.expiry)) =
      [(49, extA, 102), (48, extA, 101)] ∧
    (crun thrF64 (ex0 .dual) (exFull ++ exFullPongs)).1.svc.localRec.udp4 = some extA.sock ∧
    (crun thrF64 (ex0 .dual) (exFull ++ exFullPongs)).1.svc.localRec.seq = 2 ∧
    sockEvs (crun thrF64 (ex0 .dual) (exFull ++ exFullPongs)).2 = [extA] ∧
    (crun thrF64 (ex0 .ip4) (exFull ++ exFullPongs)).1.svc.localRec = exLocal ∧
    pongsOf thrF64 (ex0 .ip4) (exFull ++ exFullPongs) = [] := by
  decide +kernel

/-- A state with a full bucket and one old vote (peer 5, expiry 10) in the table. -/
def exOld : CSt :=
  { svc := (crun thrF64 (ex0 .dual) (exFull.take 16)).1.svc,
    votes := some { v4 := [⟨5, 77, 10⟩], v6 := [], minimum := 2, duration := 100 } }

/-- The side effect the composition had to keep: a refused outgoing session prunes the expired
votes (the vote of peer 5 is dropped by the step read at clock 50 and kept by the same step read
at clock 5) — a non-PONG step that changes the vote table. -/
example :
    exOld.Coupled ∧
    (cstep thrF64 exOld (exEnv 50) (.established (exPeer 48) (exPeerAddr 48) false)).1.votes.map
        (fun v => v.v4.map (·.voter)) = some [] ∧
    (cstep thrF64 exOld (exEnv 5) (.established (exPeer 48) (exPeerAddr 48) false)).1.votes.map
        (fun v => v.v4.map (·.voter)) = some [5] := by
  refine ⟨?_, ?_⟩
  · unfold CSt.Coupled; decide +kernel
  · decide +kernel

end Discv5.Props.C17Service

/- C13 — Filter exemptions track outstanding exchanges exactly (handler model). -/
import Discv5Model.Model.HandlerSpec
import Discv5Model.Proofs.HandlerExempt
namespace Discv5.H

/-
The one-step statement as originally written,

  theorem step_exemptAcc (c : Cfg) (s : HState) (e : Ev) (h : ExemptAcc s) : ExemptAcc (step c s e).1

is FALSE for arbitrary (unreachable) states: `ExemptAcc` alone does not exclude two challenges for
the same node address, and `HashMapDelay::remove` / the expiry of a challenge drops *all* entries
of that key while only one exemption is released (see `step_exemptAcc_needs_unique_challenges`
below for the machine-checked counterexample).  Such states are not reachable (`send_challenge`
refuses a second challenge for a node address, `handle_auth_message` re-inserts only after the
removal), so the proved one-step theorem carries the missing reachable-state fact as a hypothesis
and re-establishes it (`step_exemptAcc_partial`, `step_challengesNodup`); the all-histories
theorems `exemption_accounting` and `drained` hold as stated.
-/

/-- Every step preserves the accounting invariant, from every state in which no node address has
two challenges (what is missing w.r.t. the original `step_exemptAcc`: that extra hypothesis). -/
theorem step_exemptAcc_partial (c : Cfg) (s : HState) (e : Ev) (h : ExemptAcc s)
    (hc : (s.challenges.map (·.1)).Nodup) : ExemptAcc (step c s e).1 :=
  (good_step c s e ⟨h, hc⟩).1

/-- … and the extra hypothesis is itself preserved by every step. -/
theorem step_challengesNodup (c : Cfg) (s : HState) (e : Ev) (h : ExemptAcc s)
    (hc : (s.challenges.map (·.1)).Nodup) : ((step c s e).1.challenges.map (·.1)).Nodup :=
  (good_step c s e ⟨h, hc⟩).2

/-- For every event history and every address: the number of exemptions equals the number of
outstanding items (active requests + active challenges) towards it; no zero entries. -/
theorem exemption_accounting (c : Cfg) (evs : List Ev) : ExemptAcc (run c evs) :=
  (good_run c evs).1

/-- When every request completed or failed and every challenge was answered or expired, no
exemption remains — whatever the remote side sent. -/
theorem drained (c : Cfg) (evs : List Ev) (h1 : (run c evs).active = [])
    (h2 : (run c evs).challenges = []) : (run c evs).exempt = [] := by
  have hacc := exemption_accounting c evs
  cases hex : (run c evs).exempt with
  | nil => rfl
  | cons p t =>
    exfalso
    have hcount := hacc.count p.1
    have hz := hacc.noZero p (by rw [hex]; exact List.mem_cons_self ..)
    have hout : outstanding (run c evs) p.1 = 0 := by
      unfold outstanding; rw [h1, h2]; rfl
    have hcnt : exemptCount (run c evs) p.1 = p.2 := by
      unfold exemptCount; rw [hex]; simp
    rw [hout, hcnt] at hcount
    exact hz hcount

/-! ### non-vacuity / counterexample -/

namespace C13Ex

def addr1 : Addr := { v6 := false, n := 1 }
def na7 : NA := { id := 7, addr := addr1 }
def na8 : NA := { id := 8, addr := addr1 }
def cfg : Cfg :=
  { localId := 1, localSeq := 1, localRec := default, requestRetries := 1, requestTimeout := 10,
    sessionTtl := 100, sessionCap := 10, listen := [], findnode0 := 0 }
def ct7 : Contact := { na := na7, record := some { id := 7, seq := 1, udp4 := some 1, udp6 := none } }

/-- A request to node 7, a WHOAREYOU challenge sent to node 8 (same address), and node 7's
WHOAREYOU answer to the request (the request stays active, now as a handshake). -/
def hist : List Ev :=
  [.appRequest ct7 5 0, .appWru na8 99 none, .dgram addr1 (.whoareyou 1000001 55 0)]

/-- The history leaves a non-empty exemption map: two exemptions for the one address, matching one
active request plus one active challenge — and it satisfies `ExemptAcc`. -/
example : (run cfg hist).exempt = [(addr1, 2)] ∧ (run cfg hist).active.length = 1 ∧
    (run cfg hist).challenges.length = 1 ∧ outstanding (run cfg hist) addr1 = 2 ∧
    ExemptAcc (run cfg hist) := by
  refine ⟨by decide +kernel, by decide +kernel, by decide +kernel, by decide +kernel,
    exemption_accounting _ _⟩

/-- `drained` is not vacuous: after the timers ran out, the same history has no active request and
no challenge left, and the exemption map (non-empty before) is empty. -/
example : (run cfg (hist ++ [.adv 100])).active = [] ∧ (run cfg (hist ++ [.adv 100])).challenges = [] ∧
    (run cfg (hist ++ [.adv 100])).exempt = [] := by
  have h1 : (run cfg (hist ++ [.adv 100])).active = [] := by decide +kernel
  have h2 : (run cfg (hist ++ [.adv 100])).challenges = [] := by decide +kernel
  exact ⟨h1, h2, drained _ _ h1 h2⟩

/-- An (unreachable) state with two challenges for the same node address. -/
def dupState : HState :=
  { challenges := [(na7, { cd := 0, remoteRec := none }, 0, 0), (na7, { cd := 0, remoteRec := none }, 0, 1)],
    exempt := [(addr1, 2)] }

/-- The original one-step statement fails without the uniqueness of challenges per node address:
`dupState` satisfies `ExemptAcc`, but when its challenge timer fires both challenges disappear
while a single exemption is released. -/
theorem step_exemptAcc_needs_unique_challenges :
    ¬ (∀ (c : Cfg) (s : HState) (e : Ev), ExemptAcc s → ExemptAcc (step c s e).1) := by
  intro h
  have hs : ExemptAcc dupState := by
    refine ⟨fun a => ?_, by decide, by decide⟩
    by_cases ha : a = addr1
    · subst ha; decide
    · have ha' : ¬ addr1 = a := fun e => ha e.symm
      simp [exemptCount, outstanding, dupState, na7, ha']
  have := (h cfg dupState (.adv 1) hs).count addr1
  revert this
  decide

end C13Ex

end Discv5.H
